// Package resolve is an independent reference model of Thrift reference
// scoping and linking for a small program language (DESIGN.md E4): bare name
// -> same file; inc.name -> included file; typedef root = end of the typedef
// chain; typedef cycle not through a struct => invalid; constants cast to
// their declared type; service parent lookup. It shares no code with
// go.uber.org/thriftrw and renders programs to IDL text for the product.
package resolve

import (
	"fmt"
	"sort"
	"strings"
)

// Kinds of definitions.
const (
	Typedef = "typedef"
	Struct  = "struct"
	Enum    = "enum"
	Const   = "const"
	Service = "service"
)

// TRef is a type reference: a base type, a reference to definition Def (by
// index), or an undefined name; optionally wrapped in list<>.
type TRef struct {
	Base  string // "i32", "string" or ""
	Def   int    // definition index if Base == "" and !Undef
	Undef bool
	List  bool
}

// VRef is a constant value: an integer literal, a string literal, a reference
// to constant Def, or Def.A for an enum Def.
type VRef struct {
	Kind string // "int", "str", "const", "item", "none"
	Int  int64
	Str  string
	Def  int
}

// Def is one definition.
type Def struct {
	Kind   string
	File   int
	Type   TRef // typedef target; struct field type; const type; function arg/return type
	Val    VRef // const value; struct field default ("none" if absent)
	Parent int  // service parent def index or -1
}

// Prog is a program: definitions named N0..Nk-1 spread over files f0..; file
// i includes the files listed in Includes[i]. The root is f0.
type Prog struct {
	Defs     []Def
	NFiles   int
	Includes [][]int
	// Order[i] lists the definition indices of file i in source order (nil =
	// ascending).
	Order [][]int
	// Names[i] is the index used in the name of definition i (nil = i): two
	// definitions in different files may share one bare name.
	Names []int
	// Paths[i], when set, is the path of file i relative to /m (e.g.
	// "d/f1.thrift"): two files may share one base name in different directories.
	// Files that include others are expected to live in /m itself.
	Paths []string
}

// PathOf is the absolute path of file i.
func (p *Prog) PathOf(i int) string {
	if p.Paths != nil && p.Paths[i] != "" {
		return "/m/" + p.Paths[i]
	}
	return Path(i)
}

// fileNameOf is the name under which file i is known to a file including it.
func (p *Prog) fileNameOf(i int) string {
	if p.Paths != nil && p.Paths[i] != "" {
		b := p.Paths[i]
		if j := strings.LastIndex(b, "/"); j >= 0 {
			b = b[j+1:]
		}
		return strings.TrimSuffix(b, ".thrift")
	}
	return fileName(i)
}

// NameOf returns the name of definition i in p.
func (p *Prog) NameOf(i int) string {
	if p.Names != nil {
		return Name(p.Names[i])
	}
	return Name(i)
}

// Name of definition i.
func Name(i int) string { return fmt.Sprintf("N%d", i) }

func fileName(i int) string { return fmt.Sprintf("f%d", i) }

// Path of file i in the in-memory filesystem.
func Path(i int) string { return fmt.Sprintf("/m/f%d.thrift", i) }

func (p *Prog) qual(from, def int) string {
	if p.Defs[def].File == from {
		return p.NameOf(def)
	}
	return p.fileNameOf(p.Defs[def].File) + "." + p.NameOf(def)
}

func (p *Prog) tref(from int, t TRef) string {
	s := t.Base
	if t.Undef {
		s = "Zz"
	} else if t.Base == "" {
		s = p.qual(from, t.Def)
	}
	if t.List {
		s = "list<" + s + ">"
	}
	return s
}

func (p *Prog) vref(from int, v VRef) string {
	switch v.Kind {
	case "int":
		return fmt.Sprint(v.Int)
	case "str":
		return fmt.Sprintf("%q", v.Str)
	case "const":
		return p.qual(from, v.Def)
	case "item":
		return p.qual(from, v.Def) + ".A"
	}
	return ""
}

// Render returns the IDL text of every file.
func (p *Prog) Render() map[string]string {
	out := map[string]string{}
	for f := 0; f < p.NFiles; f++ {
		var sb strings.Builder
		for _, inc := range p.Includes[f] {
			fmt.Fprintf(&sb, "include \"./%s\"\n", strings.TrimPrefix(p.PathOf(inc), "/m/"))
		}
		var order []int
		if p.Order != nil && p.Order[f] != nil {
			order = p.Order[f]
		} else {
			for i, d := range p.Defs {
				if d.File == f {
					order = append(order, i)
				}
			}
		}
		for _, i := range order {
			d := p.Defs[i]
			switch d.Kind {
			case Typedef:
				fmt.Fprintf(&sb, "typedef %s %s\n", p.tref(f, d.Type), p.NameOf(i))
			case Struct:
				def := ""
				if d.Val.Kind != "none" && d.Val.Kind != "" {
					def = " = " + p.vref(f, d.Val)
				}
				fmt.Fprintf(&sb, "struct %s { 1: optional %s f%s }\n", p.NameOf(i), p.tref(f, d.Type), def)
			case Enum:
				fmt.Fprintf(&sb, "enum %s { A = 1, B = 5 }\n", p.NameOf(i))
			case Const:
				fmt.Fprintf(&sb, "const %s %s = %s\n", p.tref(f, d.Type), p.NameOf(i), p.vref(f, d.Val))
			case Service:
				ext := ""
				if d.Parent >= 0 {
					ext = " extends " + p.qual(f, d.Parent)
				}
				fmt.Fprintf(&sb, "service %s%s { %s fn(1: %s a) }\n", p.NameOf(i), ext, p.tref(f, d.Type), p.tref(f, d.Type))
			}
		}
		out[p.PathOf(f)] = sb.String()
	}
	return out
}

// ---- reference resolution

type invalid struct{ why string }

func (e invalid) Error() string { return e.why }

func (p *Prog) reachable(from, to int) bool {
	if from == to {
		return true
	}
	for _, inc := range p.Includes[from] {
		if inc == to {
			return true
		}
	}
	return false
}

// resolveDef checks that a reference from file `from` to definition def is
// expressible (same file, or the target's file is included) and unambiguous.
func (p *Prog) resolveDef(from, def int) error {
	if !p.reachable(from, p.Defs[def].File) {
		return invalid{fmt.Sprintf("%s references %s but does not include it", p.fileNameOf(from), p.fileNameOf(p.Defs[def].File))}
	}
	return nil
}

func isType(k string) bool { return k == Typedef || k == Struct || k == Enum }

// typeRepr renders a resolved type the way the module dump does.
func (p *Prog) typeRepr(from int, t TRef) (string, error) {
	var s string
	switch {
	case t.Undef:
		return "", invalid{"undefined type Zz"}
	case t.Base != "":
		s = t.Base
	default:
		if err := p.resolveDef(from, t.Def); err != nil {
			return "", err
		}
		d := p.Defs[t.Def]
		if !isType(d.Kind) {
			return "", invalid{p.NameOf(t.Def) + " is not a type"}
		}
		s = fmt.Sprintf("%s:%s(%s)", p.PathOf(d.File), p.NameOf(t.Def), d.Kind)
	}
	if t.List {
		s = "list<" + s + ">"
	}
	return s, nil
}

// root follows typedef chains to the ultimate non-typedef type.
func (p *Prog) root(from int, t TRef, seen map[int]bool) (TRef, int, error) {
	if t.List || t.Base != "" || t.Undef {
		if t.Undef {
			return t, from, invalid{"undefined type"}
		}
		return t, from, nil
	}
	if err := p.resolveDef(from, t.Def); err != nil {
		return t, from, err
	}
	d := p.Defs[t.Def]
	if !isType(d.Kind) {
		return t, from, invalid{p.NameOf(t.Def) + " is not a type"}
	}
	if d.Kind != Typedef {
		return t, from, nil
	}
	if seen[t.Def] {
		return t, from, invalid{"typedef cycle"}
	}
	seen[t.Def] = true
	return p.root(d.File, d.Type, seen)
}

// typeCycle reports a typedef cycle not broken by a struct, starting at def.
func (p *Prog) typeCycle(def int, stack map[int]bool) bool {
	d := p.Defs[def]
	if d.Kind != Typedef {
		return false
	}
	if stack[def] {
		return true
	}
	if d.Type.Base != "" || d.Type.Undef {
		return false
	}
	stack[def] = true
	defer delete(stack, def)
	return p.typeCycle(d.Type.Def, stack)
}

// castValue evaluates v (seen from file `from`) cast to type t (seen from
// file tfrom), returning its dump representation.
func (p *Prog) castValue(from int, v VRef, tfrom int, t TRef, depth int) (string, error) {
	if depth > 16 {
		return "", invalid{"constant cycle"}
	}
	rt, rfrom, err := p.root(tfrom, t, map[int]bool{})
	if err != nil {
		return "", err
	}
	_ = rfrom
	switch v.Kind {
	case "int":
		switch {
		case rt.List:
			return "", invalid{"int for list"}
		case rt.Base == "i32" || rt.Base == "i64":
			return fmt.Sprintf("int:%d", v.Int), nil
		case rt.Base == "string":
			return "", invalid{"int for string"}
		default:
			d := p.Defs[rt.Def]
			if d.Kind == Enum {
				switch v.Int {
				case 1:
					return fmt.Sprintf("item:%s:%s.A=1", p.PathOf(d.File), p.NameOf(rt.Def)), nil
				case 5:
					return fmt.Sprintf("item:%s:%s.B=5", p.PathOf(d.File), p.NameOf(rt.Def)), nil
				}
				return "", invalid{"no such enum value"}
			}
			return "", invalid{"int for struct"}
		}
	case "str":
		if !rt.List && rt.Base == "string" {
			return fmt.Sprintf("str:%s", v.Str), nil
		}
		return "", invalid{"string for non-string"}
	case "item":
		if err := p.resolveDef(from, v.Def); err != nil {
			return "", err
		}
		e := p.Defs[v.Def]
		if e.Kind != Enum {
			return "", invalid{"item of non-enum"}
		}
		if !rt.List && (rt.Base == "i32" || rt.Base == "i64") {
			// an enum item may stand where an integer is expected
			return fmt.Sprintf("item:%s:%s.A=1", p.PathOf(e.File), p.NameOf(v.Def)), nil
		}
		if rt.List || rt.Base != "" || rt.Def != v.Def {
			return "", invalid{"enum item for another type"}
		}
		return fmt.Sprintf("item:%s:%s.A=1", p.PathOf(e.File), p.NameOf(v.Def)), nil
	case "const":
		if err := p.resolveDef(from, v.Def); err != nil {
			return "", err
		}
		c := p.Defs[v.Def]
		if c.Kind != Const {
			return "", invalid{p.NameOf(v.Def) + " is not a constant"}
		}
		// the referenced constant must itself be valid
		own, err := p.castValue(c.File, c.Val, c.File, c.Type, depth+1)
		if err != nil {
			return "", err
		}
		if strings.HasPrefix(own, "item:") && !rt.List && (rt.Base == "i32" || rt.Base == "i64") {
			// the constant holds an enum item (whether it was written as the item or as
			// its number): where an integer is expected the item stands for its value,
			// and the compiled module keeps the item
			return own, nil
		}
		return p.castValue(c.File, c.Val, tfrom, t, depth+1)
	}
	return "", invalid{"no value"}
}

// Expect is the reference verdict on a program.
type Expect struct {
	Valid bool
	Why   string
	Dump  string // canonical dump when Valid
}

// Resolve computes the expected outcome and canonical dump.
func (p *Prog) Resolve() Expect {
	// reachable files from the root, breadth first (only those are compiled)
	reach := map[int]bool{0: true}
	queue := []int{0}
	for len(queue) > 0 {
		f := queue[0]
		queue = queue[1:]
		for _, inc := range p.Includes[f] {
			if !reach[inc] {
				reach[inc] = true
				queue = append(queue, inc)
			}
		}
	}
	var lines []string
	fail := func(err error) Expect { return Expect{Valid: false, Why: err.Error()} }
	for f := 0; f < p.NFiles; f++ {
		if !reach[f] {
			continue
		}
		incs := append([]int{}, p.Includes[f]...)
		sort.Ints(incs)
		var in []string
		for _, i := range incs {
			in = append(in, fmt.Sprintf("%s=%s", p.fileNameOf(i), p.PathOf(i)))
		}
		lines = append(lines, fmt.Sprintf("module %s includes[%s]", p.PathOf(f), strings.Join(in, ",")))
	}
	for i, d := range p.Defs {
		if !reach[d.File] {
			continue
		}
		head := fmt.Sprintf("%s:%s", p.PathOf(d.File), p.NameOf(i))
		switch d.Kind {
		case Typedef:
			if p.typeCycle(i, map[int]bool{}) {
				return fail(invalid{"typedef cycle at " + p.NameOf(i)})
			}
			tr, err := p.typeRepr(d.File, d.Type)
			if err != nil {
				return fail(err)
			}
			rt, rfrom, err := p.root(d.File, d.Type, map[int]bool{i: true})
			if err != nil {
				return fail(err)
			}
			rr, err := p.typeRepr(rfrom, rt)
			if err != nil {
				return fail(err)
			}
			lines = append(lines, fmt.Sprintf("type %s typedef target=%s root=%s", head, tr, rr))
		case Struct:
			tr, err := p.typeRepr(d.File, d.Type)
			if err != nil {
				return fail(err)
			}
			def := "<nil>"
			if d.Val.Kind != "none" && d.Val.Kind != "" {
				def, err = p.castValue(d.File, d.Val, d.File, d.Type, 0)
				if err != nil {
					return fail(err)
				}
			}
			lines = append(lines, fmt.Sprintf("type %s struct fields[1 f %s required=false default=%s]", head, tr, def))
		case Enum:
			lines = append(lines, fmt.Sprintf("type %s enum items[A=1,B=5]", head))
		case Const:
			tr, err := p.typeRepr(d.File, d.Type)
			if err != nil {
				return fail(err)
			}
			val, err := p.castValue(d.File, d.Val, d.File, d.Type, 0)
			if err != nil {
				return fail(err)
			}
			lines = append(lines, fmt.Sprintf("const %s type=%s value=%s", head, tr, val))
		case Service:
			tr, err := p.typeRepr(d.File, d.Type)
			if err != nil {
				return fail(err)
			}
			par := "<nil>"
			if d.Parent >= 0 {
				if err := p.resolveDef(d.File, d.Parent); err != nil {
					return fail(err)
				}
				pd := p.Defs[d.Parent]
				if pd.Kind != Service {
					return fail(invalid{"parent is not a service"})
				}
				// inheritance cycles are invalid
				seen := map[int]bool{i: true}
				for q := d.Parent; q >= 0; q = p.Defs[q].Parent {
					if seen[q] {
						return fail(invalid{"service inheritance cycle"})
					}
					seen[q] = true
					if p.Defs[q].Kind != Service {
						break
					}
				}
				par = fmt.Sprintf("%s:%s", p.PathOf(pd.File), p.NameOf(d.Parent))
			}
			lines = append(lines, fmt.Sprintf("service %s parent=%s fn(args[1 a %s] returns %s)", head, par, tr, tr))
		}
	}
	sort.Strings(lines)
	return Expect{Valid: true, Dump: strings.Join(lines, "\n")}
}
