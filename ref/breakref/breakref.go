// Package breakref is an independent model of Thrift programs at the level
// thriftbreak cares about, an IDL renderer, an edit-script enumerator and the
// reference differ implementing the four documented breaking-change rules.
package breakref

import (
	"fmt"
	"sort"
	"strings"
)

// Field of a struct-like type.
type Field struct {
	ID   int
	Req  bool
	Type string
	Name string
}

// Struct is a struct, union or exception.
type Struct struct {
	Kind   string
	Name   string
	Fields []Field
}

// Service has a name and method names.
type Service struct {
	Name    string
	Methods []string
}

// File is one Thrift file.
type File struct {
	Path     string
	Includes []string // paths relative to this file, e.g. "./sub/b.thrift"
	Extras   []string // raw additive definitions (constants, typedefs, enums)
	Structs  []Struct
	Services []Service
}

// Prog is a set of files.
type Prog struct{ Files []File }

// Clone deep-copies p.
func (p Prog) Clone() Prog {
	var q Prog
	for _, f := range p.Files {
		g := File{Path: f.Path, Includes: append([]string{}, f.Includes...), Extras: append([]string{}, f.Extras...)}
		for _, s := range f.Structs {
			g.Structs = append(g.Structs, Struct{Kind: s.Kind, Name: s.Name, Fields: append([]Field{}, s.Fields...)})
		}
		for _, s := range f.Services {
			g.Services = append(g.Services, Service{Name: s.Name, Methods: append([]string{}, s.Methods...)})
		}
		q.Files = append(q.Files, g)
	}
	return q
}

// Render returns path -> IDL text.
func (p Prog) Render() map[string]string {
	out := map[string]string{}
	for _, f := range p.Files {
		var sb strings.Builder
		for _, inc := range f.Includes {
			fmt.Fprintf(&sb, "include \"%s\"\n", inc)
		}
		for _, e := range f.Extras {
			sb.WriteString(e + "\n")
		}
		for _, s := range f.Structs {
			fmt.Fprintf(&sb, "%s %s {\n", s.Kind, s.Name)
			for _, fd := range s.Fields {
				req := "optional"
				if fd.Req {
					req = "required"
				}
				if s.Kind == "union" {
					req = ""
				}
				fmt.Fprintf(&sb, "  %d: %s %s %s\n", fd.ID, req, fd.Type, fd.Name)
			}
			sb.WriteString("}\n")
		}
		for _, s := range f.Services {
			fmt.Fprintf(&sb, "service %s {\n", s.Name)
			for _, m := range s.Methods {
				fmt.Fprintf(&sb, "  void %s(1: i32 a)\n", m)
			}
			sb.WriteString("}\n")
		}
		out[f.Path] = sb.String()
	}
	return out
}

// Diag is a diagnostic reduced to the file and the quoted names.
type Diag struct {
	File  string
	Names string // names joined by ","
}

func (d Diag) String() string { return d.File + ":[" + d.Names + "]" }

func (p Prog) file(path string) *File {
	for i := range p.Files {
		if p.Files[i].Path == path {
			return &p.Files[i]
		}
	}
	return nil
}

// Diff is the reference differ: the multiset of diagnostics the four rules
// demand between two versions.
func Diff(from, to Prog) []Diag {
	var out []Diag
	fr, tr := from.Render(), to.Render()
	for _, f := range from.Files {
		if fr[f.Path] == tr[f.Path] {
			continue // unchanged files are not examined
		}
		g := to.file(f.Path)
		for _, s := range f.Services {
			var ts *Service
			if g != nil {
				for i := range g.Services {
					if g.Services[i].Name == s.Name {
						ts = &g.Services[i]
					}
				}
			}
			if ts == nil {
				out = append(out, Diag{f.Path, s.Name})
				continue
			}
			for _, m := range s.Methods {
				found := false
				for _, n := range ts.Methods {
					if n == m {
						found = true
					}
				}
				if !found {
					out = append(out, Diag{f.Path, m + "," + s.Name})
				}
			}
		}
		if g == nil {
			continue
		}
		for _, s := range f.Structs {
			var ts *Struct
			for i := range g.Structs {
				if g.Structs[i].Name == s.Name {
					ts = &g.Structs[i]
				}
			}
			if ts == nil {
				continue
			}
			for _, nf := range ts.Fields {
				var of *Field
				for i := range s.Fields {
					if s.Fields[i].ID == nf.ID {
						of = &s.Fields[i]
					}
				}
				switch {
				case of == nil:
					if nf.Req {
						out = append(out, Diag{f.Path, nf.Name + "," + ts.Name})
					}
				default:
					if !of.Req && nf.Req {
						out = append(out, Diag{f.Path, nf.Name + "," + ts.Name})
					}
					if of.Type != nf.Type {
						out = append(out, Diag{f.Path, nf.Name + "," + ts.Name + "," + of.Type + "," + nf.Type})
					}
				}
			}
		}
	}
	sort.Slice(out, func(i, j int) bool { return out[i].String() < out[j].String() })
	return out
}

// Edit is one edit of a program.
type Edit struct {
	Kind     string
	Desc     string
	Breaking bool
	Apply    func(p *Prog)
}

// Edits enumerates every applicable single edit of p.
func Edits(p Prog) []Edit {
	var out []Edit
	included := map[string]bool{}
	for _, f := range p.Files {
		for _, inc := range f.Includes {
			included[strings.TrimPrefix(inc, "./")] = true
		}
	}
	for fi, f := range p.Files {
		fi := fi
		for si, s := range f.Services {
			si := si
			out = append(out, Edit{"remove-service", f.Path + ":" + s.Name, true, func(p *Prog) {
				ss := p.Files[fi].Services
				p.Files[fi].Services = append(append([]Service{}, ss[:si]...), ss[si+1:]...)
			}})
			for mi, m := range s.Methods {
				mi := mi
				out = append(out, Edit{"remove-method", f.Path + ":" + s.Name + "." + m, true, func(p *Prog) {
					ms := p.Files[fi].Services[si].Methods
					p.Files[fi].Services[si].Methods = append(append([]string{}, ms[:mi]...), ms[mi+1:]...)
				}})
			}
			out = append(out, Edit{"add-method", f.Path + ":" + s.Name, false, func(p *Prog) {
				p.Files[fi].Services[si].Methods = append(p.Files[fi].Services[si].Methods, "newMethod")
			}})
		}
		for si, s := range f.Structs {
			si := si
			maxID := 0
			for _, fd := range s.Fields {
				if fd.ID > maxID {
					maxID = fd.ID
				}
			}
			if s.Kind != "union" {
				out = append(out, Edit{"add-required-field", f.Path + ":" + s.Name, true, func(p *Prog) {
					p.Files[fi].Structs[si].Fields = append(p.Files[fi].Structs[si].Fields, Field{ID: maxID + 1, Req: true, Type: "i32", Name: "newReq"})
				}})
			}
			out = append(out, Edit{"add-optional-field", f.Path + ":" + s.Name, false, func(p *Prog) {
				p.Files[fi].Structs[si].Fields = append([]Field{{ID: maxID + 2, Req: false, Type: "string", Name: "newOpt"}}, p.Files[fi].Structs[si].Fields...)
			}})
			for di, fd := range s.Fields {
				di := di
				if s.Kind != "union" {
					if !fd.Req {
						out = append(out, Edit{"optional-to-required", f.Path + ":" + s.Name + "." + fd.Name, true, func(p *Prog) { p.Files[fi].Structs[si].Fields[di].Req = true }})
					} else {
						out = append(out, Edit{"required-to-optional", f.Path + ":" + s.Name + "." + fd.Name, false, func(p *Prog) { p.Files[fi].Structs[si].Fields[di].Req = false }})
					}
				}
				for _, nt := range []string{"i64", "list<i32>", "Alias_" + s.Name + "_" + fd.Name} {
					nt := nt
					oldType := fd.Type
					if nt == fd.Type {
						continue
					}
					out = append(out, Edit{"change-field-type", f.Path + ":" + s.Name + "." + fd.Name + "->" + nt, true, func(p *Prog) {
						p.Files[fi].Structs[si].Fields[di].Type = nt
						if strings.HasPrefix(nt, "Alias_") {
							p.Files[fi].Extras = append(p.Files[fi].Extras, "typedef "+oldType+" "+nt)
						}
					}})
				}
			}
			for di, fd := range s.Fields {
				di := di
				// (removing a field is not among the documented breaking changes)
				out = append(out, Edit{"remove-field", f.Path + ":" + s.Name + "." + fd.Name, false, func(p *Prog) {
					fs := p.Files[fi].Structs[si].Fields
					p.Files[fi].Structs[si].Fields = append(append([]Field{}, fs[:di]...), fs[di+1:]...)
				}})
			}
			if s.Kind != "union" && len(s.Fields) >= 1 {
				// one commit that drops the last field and adds a required one: the field count
				// does not grow, a required field has been added all the same
				out = append(out, Edit{"swap-last-field-for-required", f.Path + ":" + s.Name, true, func(p *Prog) {
					fs := p.Files[fi].Structs[si].Fields
					p.Files[fi].Structs[si].Fields = append(append([]Field{}, fs[:len(fs)-1]...), Field{ID: maxID + 3, Req: true, Type: "i64", Name: "swappedIn"})
				}})
			}
			if len(s.Fields) >= 2 {
				out = append(out, Edit{"reorder-fields", f.Path + ":" + s.Name, false, func(p *Prog) {
					fs := p.Files[fi].Structs[si].Fields
					fs[0], fs[len(fs)-1] = fs[len(fs)-1], fs[0]
				}})
			}
			if strings.HasPrefix(s.Name, "Unused") {
				out = append(out, Edit{"delete-struct", f.Path + ":" + s.Name, false, func(p *Prog) {
					ss := p.Files[fi].Structs
					p.Files[fi].Structs = append(append([]Struct{}, ss[:si]...), ss[si+1:]...)
				}})
			}
		}
		if len(f.Structs) >= 2 {
			out = append(out, Edit{"reorder-definitions", f.Path, false, func(p *Prog) {
				ss := p.Files[fi].Structs
				ss[0], ss[len(ss)-1] = ss[len(ss)-1], ss[0]
			}})
		}
		out = append(out, Edit{"add-service", f.Path, false, func(p *Prog) {
			p.Files[fi].Services = append(p.Files[fi].Services, Service{Name: "NewSvc", Methods: []string{"x"}})
		}})
		out = append(out, Edit{"add-struct", f.Path, false, func(p *Prog) {
			p.Files[fi].Structs = append(p.Files[fi].Structs, Struct{Kind: "struct", Name: "NewStruct", Fields: []Field{{ID: 1, Req: true, Type: "i32", Name: "r"}}})
		}})
		out = append(out, Edit{"add-const-typedef-enum", f.Path, false, func(p *Prog) {
			p.Files[fi].Extras = append(p.Files[fi].Extras, "const i32 NEWC = 1", "typedef string NewT", "enum NewE { A, B }")
		}})
		if !included[f.Path] {
			out = append(out, Edit{"delete-file", f.Path, len(f.Services) > 0, func(p *Prog) {
				p.Files = append(append([]File{}, p.Files[:fi]...), p.Files[fi+1:]...)
			}})
		}
	}
	out = append(out, Edit{"add-file", "newfile.thrift", false, func(p *Prog) {
		p.Files = append(p.Files, File{Path: "newdir/newfile.thrift", Structs: []Struct{{Kind: "struct", Name: "Brand", Fields: []Field{{ID: 7, Req: true, Type: "double", Name: "q"}}}},
			Services: []Service{{Name: "BrandNew", Methods: []string{"zz"}}}})
	}})
	return out
}

// Bases returns the base programs.
func Bases() []Prog {
	t := func(name string) Struct {
		return Struct{Kind: "struct", Name: name, Fields: []Field{{ID: 1, Req: true, Type: "i32", Name: "a"}, {ID: 2, Req: false, Type: "string", Name: "b"}, {ID: 5, Req: false, Type: "list<i32>", Name: "c"}}}
	}
	b1 := Prog{Files: []File{{Path: "a.thrift",
		Structs:  []Struct{t("T"), {Kind: "union", Name: "U", Fields: []Field{{ID: 1, Type: "i32", Name: "x"}, {ID: 2, Type: "string", Name: "y"}}}, {Kind: "exception", Name: "X", Fields: []Field{{ID: 1, Req: false, Type: "string", Name: "msg"}}}, {Kind: "struct", Name: "UnusedS", Fields: []Field{{ID: 1, Req: false, Type: "i32", Name: "u"}}}},
		Services: []Service{{Name: "S", Methods: []string{"m1", "m2"}}, {Name: "S2", Methods: []string{"m1"}}}}}}
	b2 := Prog{Files: []File{
		{Path: "a.thrift", Includes: []string{"./sub/b.thrift"}, Structs: []Struct{{Kind: "struct", Name: "Outer", Fields: []Field{{ID: 1, Req: false, Type: "b.T", Name: "inner"}, {ID: 2, Req: true, Type: "i32", Name: "n"}}}}, Services: []Service{{Name: "A", Methods: []string{"ma"}}}},
		{Path: "sub/b.thrift", Structs: []Struct{t("T")}, Services: []Service{{Name: "SB", Methods: []string{"mb", "mc"}}, {Name: "SB2", Methods: []string{"md"}}}},
	}}
	b3 := Prog{Files: []File{
		{Path: "sub/dir/c.thrift", Structs: []Struct{t("C")}, Services: []Service{{Name: "SC", Methods: []string{"mc"}}}},
		{Path: "d.thrift", Structs: []Struct{t("D")}, Services: []Service{{Name: "SD", Methods: []string{"md"}}}},
	}}
	// two independent files sharing one base name in different directories
	b4 := Prog{Files: []File{
		{Path: "users/api.thrift", Structs: []Struct{t("U1")}, Services: []Service{{Name: "SU", Methods: []string{"mu"}}}},
		{Path: "orders/api.thrift", Structs: []Struct{t("O1")}, Services: []Service{{Name: "SO", Methods: []string{"mo"}}}},
	}}
	return []Prog{b1, b2, b3, b4}
}
