package schema

import "math"

// D enumerates the value alphabet of type t (DESIGN.md C01): at most ~6
// values per type, boundary scalars, containers {empty, one, two distinct}.
func (p *Program) D(f *File, t *Type) []*Val {
	return p.d(f, t, 0)
}

func (p *Program) d(f *File, t *Type, depth int) []*Val {
	rt, d, g := p.Resolve(f, t)
	switch {
	case d != nil && d.Kind == "enum":
		out := []*Val{}
		for i, it := range d.Items {
			if i < 2 {
				out = append(out, Int(int64(it.Value)))
			}
		}
		return append(out, Int(77)) // undefined value
	case d != nil:
		return p.structValues(g, d, depth)
	}
	switch rt.K {
	case Bool:
		return []*Val{Int(0), Int(1)}
	case I8:
		return []*Val{Int(0), Int(math.MinInt8), Int(math.MaxInt8)}
	case I16:
		return []*Val{Int(0), Int(math.MinInt16), Int(math.MaxInt16)}
	case I32:
		return []*Val{Int(0), Int(math.MinInt32), Int(math.MaxInt32)}
	case I64:
		return []*Val{Int(0), Int(math.MinInt64), Int(math.MaxInt64)}
	case Double:
		return []*Val{Dbl(0), Dbl(1.5), Dbl(math.Inf(-1))}
	case String:
		return []*Val{Str(""), Str("a"), Str("\x00\xff \xc3\xa9")}
	case Binary:
		return []*Val{{S: []byte{}}, {S: []byte{0, 0xff, 'b'}}}
	case List, Set:
		ev := p.d(g, rt.Elem, depth+1)
		out := []*Val{{Items: []Val{}}}
		if len(ev) > 0 {
			out = append(out, &Val{Items: []Val{*ev[0]}})
		}
		if len(ev) > 1 {
			last := ev[len(ev)-1]
			// two distinct elements; a second singleton and (three or more values) a second
			// pair, so that containers of equal size with different elements exist
			out = append(out, &Val{Items: []Val{*last, *ev[0]}})
			if depth < 2 {
				out = append(out, &Val{Items: []Val{*last}})
				if len(ev) > 2 {
					out = append(out, &Val{Items: []Val{*ev[1], *ev[0]}})
				}
				if rt.K == List {
					out = append(out, &Val{Items: []Val{*ev[0], *last}}) // same elements, other order
				}
			}
		}
		return out
	case Map:
		kv := p.d(g, rt.Key, depth+1)
		vv := p.d(g, rt.Elem, depth+1)
		out := []*Val{{Items: []Val{}}}
		if len(kv) > 0 && len(vv) > 0 {
			out = append(out, &Val{Items: []Val{*kv[0], *vv[len(vv)-1]}})
		}
		if len(kv) > 1 && len(vv) > 0 {
			kl, vl := kv[len(kv)-1], vv[len(vv)-1]
			out = append(out, &Val{Items: []Val{*kl, *vv[0], *kv[0], *vl}})
			if depth < 2 && len(vv) > 1 {
				out = append(out, &Val{Items: []Val{*kv[0], *vv[0]}})           // same key, other value
				out = append(out, &Val{Items: []Val{*kl, *vl, *kv[0], *vv[0]}}) // same keys, values swapped
				out = append(out, &Val{Items: []Val{*kl, *vl}})                 // other key
			}
		}
		return out
	}
	return nil
}

// Baseline is the smallest valid value of a struct-like definition: required
// fields take their first alphabet value, optional fields are unset; a union
// has its first member set.
func (p *Program) Baseline(f *File, d *Def, depth int) *Val {
	v := Rec(nil)
	if d.Kind == "union" {
		if len(d.Fields) > 0 {
			fd := d.Fields[0]
			if vals := p.d(f, fd.Type, depth+1); len(vals) > 0 {
				v.Fields[fd.Name] = vals[0]
			}
		}
		return v
	}
	for _, fd := range d.Fields {
		if fd.Req == Required && fd.Default == nil {
			if vals := p.d(f, fd.Type, depth+1); len(vals) > 0 {
				v.Fields[fd.Name] = vals[0]
			}
		}
	}
	return v
}

// structValues: as an element of something else (depth>0) a struct-like type
// contributes two values; at the top (depth 0) every value with at most two
// fields deviating from the baseline.
func (p *Program) structValues(f *File, d *Def, depth int) []*Val {
	base := p.Baseline(f, d, depth)
	if depth > 0 {
		out := []*Val{base}
		// a second value: every field set to its last alphabet value (unions: last member)
		v := Rec(nil)
		if d.Kind == "union" {
			if n := len(d.Fields); n > 0 {
				fd := d.Fields[n-1]
				if vals := p.d(f, fd.Type, depth+1); len(vals) > 0 {
					v.Fields[fd.Name] = vals[len(vals)-1]
				}
			}
		} else {
			for _, fd := range d.Fields {
				if depth > 2 && fd.Req != Required {
					continue
				}
				if vals := p.d(f, fd.Type, depth+1); len(vals) > 0 {
					v.Fields[fd.Name] = vals[len(vals)-1]
				}
			}
		}
		return append(out, v)
	}
	return p.Deviations(f, d, 2)
}

// Deviations enumerates every value of struct-like d with at most k fields
// deviating from the baseline (each deviating field ranges over its alphabet
// and, when optional, unset). Unions: every member x every alphabet value.
func (p *Program) Deviations(f *File, d *Def, k int) []*Val {
	if d.Kind == "union" {
		var out []*Val
		if d.AllowEmpty {
			out = append(out, Rec(nil))
		}
		for _, fd := range d.Fields {
			for _, x := range p.d(f, fd.Type, 1) {
				out = append(out, Rec(map[string]*Val{fd.Name: x}))
			}
		}
		return out
	}
	base := p.Baseline(f, d, 0)
	out := []*Val{base}
	alts := make([][]*Val, len(d.Fields))
	for i, fd := range d.Fields {
		vals := p.d(f, fd.Type, 1)
		if fd.Req != Required || fd.Default != nil {
			vals = append(vals, nil) // unset
		}
		alts[i] = vals
	}
	clone := func(v *Val) *Val {
		c := Rec(nil)
		for kk, vv := range v.Fields {
			c.Fields[kk] = vv
		}
		return c
	}
	set := func(v *Val, i int, x *Val) *Val {
		c := clone(v)
		if x == nil {
			delete(c.Fields, d.Fields[i].Name)
		} else {
			c.Fields[d.Fields[i].Name] = x
		}
		return c
	}
	for i := range d.Fields {
		for _, x := range alts[i] {
			v1 := set(base, i, x)
			out = append(out, v1)
			if k >= 2 {
				for j := i + 1; j < len(d.Fields); j++ {
					for _, y := range alts[j] {
						v2 := set(v1, j, y)
						out = append(out, v2)
						if k >= 3 {
							for l := j + 1; l < len(d.Fields); l++ {
								for _, z := range alts[l] {
									out = append(out, set(v2, l, z))
								}
							}
						}
					}
				}
			}
		}
	}
	return out
}

// Valid reports whether v is a valid value of struct-like d: every required
// field without default is set (recursively), a union has exactly one member.
func (p *Program) Valid(f *File, t *Type, v *Val) bool {
	if v == nil {
		return true
	}
	if v.Bad {
		return false
	}
	rt, d, g := p.Resolve(f, t)
	if d != nil && d.Kind != "enum" {
		n := 0
		for _, fd := range d.Fields {
			fv := v.Fields[fd.Name]
			if fv != nil {
				n++
				if !p.Valid(g, fd.Type, fv) {
					return false
				}
			} else if fd.Req == Required && fd.Default == nil && d.Kind != "union" {
				return false
			}
		}
		if d.Kind == "union" && n != 1 && !(d.AllowEmpty && n == 0) {
			return false
		}
		return true
	}
	if d != nil {
		return true
	}
	switch rt.K {
	case List, Set:
		for i := range v.Items {
			if !p.Valid(g, rt.Elem, &v.Items[i]) {
				return false
			}
		}
	case Map:
		for i := 0; i+1 < len(v.Items); i += 2 {
			if !p.Valid(g, rt.Key, &v.Items[i]) || !p.Valid(g, rt.Elem, &v.Items[i+1]) {
				return false
			}
		}
	}
	return true
}
