// Package schema is the harness's own model of Thrift schemas and logical
// values (E4): type expressions, definitions, an IDL printer, value
// enumeration D(t), logical equality, default filling and a schema-driven
// codec on top of ref/tbin. Schemas originate here and are only rendered to
// IDL for the product; nothing in this package asks thriftrw what a schema
// means.
package schema

import (
	"fmt"
	"math"
	"sort"
	"strings"

	"verif/ref/tbin"
)

// Kind of a type expression.
type Kind int

// Kinds.
const (
	Bool Kind = iota
	I8
	I16
	I32
	I64
	Double
	String
	Binary
	List
	Set
	Map
	Ref // reference to a named definition (typedef, enum, struct-like)
)

// Type is a type expression.
type Type struct {
	K     Kind
	Elem  *Type  // list/set element, map value
	Key   *Type  // map key
	Name  string // Ref: definition name; may be qualified "file.Name"
	Slice bool   // set annotated (go.type = "slice")
}

// Convenience constructors.
func Prim(k Kind) *Type        { return &Type{K: k} }
func ListOf(e *Type) *Type     { return &Type{K: List, Elem: e} }
func SetOf(e *Type) *Type      { return &Type{K: Set, Elem: e} }
func SliceSetOf(e *Type) *Type { return &Type{K: Set, Elem: e, Slice: true} }
func MapOf(k, v *Type) *Type   { return &Type{K: Map, Key: k, Elem: v} }
func Named(name string) *Type  { return &Type{K: Ref, Name: name} }

var primNames = map[Kind]string{Bool: "bool", I8: "i8", I16: "i16", I32: "i32", I64: "i64", Double: "double", String: "string", Binary: "binary"}

// IDL renders the type expression.
func (t *Type) IDL() string {
	switch t.K {
	case List:
		return "list<" + t.Elem.IDL() + ">"
	case Set:
		s := "set<" + t.Elem.IDL() + ">"
		if t.Slice {
			s += " (go.type = \"slice\")"
		}
		return s
	case Map:
		return "map<" + t.Key.IDL() + ", " + t.Elem.IDL() + ">"
	case Ref:
		return t.Name
	}
	return primNames[t.K]
}

// Requiredness of a field.
type Requiredness int

// Requiredness values.
const (
	Required Requiredness = iota
	Optional
)

// Field of a struct-like definition.
type Field struct {
	ID      int16
	Name    string
	Type    *Type
	Req     Requiredness
	Default *Val // nil = none
	// DefaultConst, when set, names a constant of the same file that the IDL gives as
	// the default (Default still holds its value)
	DefaultConst string
	Annot        string // raw annotation text, e.g. `go.redact`
	// GoName is the name of the generated Go field when the annotations rename it
	// (go.name); empty = Name.
	GoName string
}

// GoIdent is the name of the generated Go struct field.
func (f Field) GoIdent() string {
	if f.GoName != "" {
		return f.GoName
	}
	return f.Name
}

// Def is a definition.
type Def struct {
	Kind   string // typedef, enum, struct, union, exception, const, service
	Name   string
	Target *Type // typedef target; const type
	Items  []EnumItem
	Fields []Field
	Value  *Val // const value
	Funcs  []Func
	// AllowEmpty: a union that may have no member set (the result struct of a
	// function that returns nothing)
	AllowEmpty bool
	Parent     string
	// GoName, when set, is emitted as the go.name annotation of the definition
	// (typedef, enum, struct, union, exception): the generated Go type has this name.
	GoName string
	// Synthetic definitions are not rendered to IDL: they describe types the
	// generator derives (function argument and result structs).
	Synthetic bool
}

// GoIdent is the name of the generated Go type for d.
func (d *Def) GoIdent() string {
	if d.GoName != "" {
		return d.GoName
	}
	return d.Name
}

func (d *Def) goNameAnnot() string {
	if d.GoName == "" {
		return ""
	}
	return fmt.Sprintf(" (go.name = %q)", d.GoName)
}

// EnumItem is an enum member.
type EnumItem struct {
	Name  string
	Value int32
}

// Func is a service function.
type Func struct {
	Name   string
	Args   []Field
	Ret    *Type // nil = void
	Throws []Field
	OneWay bool
}

// File is a Thrift file.
type File struct {
	Path     string // relative path, e.g. "c0.thrift"
	Includes []string
	Defs     []*Def
}

// Program is a set of files.
type Program struct {
	Files []*File
}

// Lookup finds a definition by (possibly qualified) name as seen from file f.
func (p *Program) Lookup(f *File, name string) (*Def, *File) {
	if i := strings.Index(name, "."); i >= 0 {
		inc, rest := name[:i], name[i+1:]
		for _, g := range p.Files {
			base := strings.TrimSuffix(g.Path[strings.LastIndex(g.Path, "/")+1:], ".thrift")
			if base == inc {
				for _, d := range g.Defs {
					if d.Name == rest {
						return d, g
					}
				}
			}
		}
		return nil, nil
	}
	for _, d := range f.Defs {
		if d.Name == name && d.Kind != "const" && d.Kind != "service" {
			return d, f
		}
	}
	return nil, nil
}

// Resolve follows typedefs to the underlying non-typedef type; for struct-like
// and enum definitions it returns the Ref type together with the definition.
func (p *Program) Resolve(f *File, t *Type) (*Type, *Def, *File) {
	for depth := 0; depth < 32; depth++ {
		if t.K != Ref {
			return t, nil, f
		}
		d, g := p.Lookup(f, t.Name)
		if d == nil {
			panic("schema: unresolved type " + t.Name)
		}
		if d.Kind == "typedef" {
			t, f = d.Target, g
			continue
		}
		return t, d, g
	}
	panic("schema: typedef chain too long")
}

// ---- IDL printer

// LitIDL renders a value as an IDL literal of type t.
func (p *Program) LitIDL(f *File, t *Type, v *Val) string {
	rt, d, g := p.Resolve(f, t)
	switch {
	case d != nil && d.Kind == "enum":
		for _, it := range d.Items {
			if int64(it.Value) == v.I {
				q := d.Name + "." + it.Name
				if g != f {
					q = fileBase(g.Path) + "." + q
				}
				return q
			}
		}
		return fmt.Sprint(v.I)
	case d != nil:
		var parts []string
		for _, fd := range d.Fields {
			if fv, ok := v.Fields[fd.Name]; ok {
				parts = append(parts, fmt.Sprintf("%q: %s", fd.Name, p.LitIDL(g, fd.Type, fv)))
			}
		}
		return "{" + strings.Join(parts, ", ") + "}"
	}
	switch rt.K {
	case Bool:
		if v.I != 0 {
			return "true"
		}
		return "false"
	case I8, I16, I32, I64:
		return fmt.Sprint(v.I)
	case Double:
		x := math.Float64frombits(v.D)
		s := fmt.Sprintf("%v", x)
		if !strings.ContainsAny(s, ".e") {
			s += ".0"
		}
		return s
	case String, Binary:
		return fmt.Sprintf("%q", string(v.S))
	case List, Set:
		var parts []string
		for i := range v.Items {
			parts = append(parts, p.LitIDL(g, rt.Elem, &v.Items[i]))
		}
		return "[" + strings.Join(parts, ", ") + "]"
	case Map:
		var parts []string
		for i := 0; i+1 < len(v.Items); i += 2 {
			parts = append(parts, p.LitIDL(g, rt.Key, &v.Items[i])+": "+p.LitIDL(g, rt.Elem, &v.Items[i+1]))
		}
		return "{" + strings.Join(parts, ", ") + "}"
	}
	panic("schema: no literal")
}

func fileBase(path string) string {
	return strings.TrimSuffix(path[strings.LastIndex(path, "/")+1:], ".thrift")
}

func (p *Program) fieldIDL(f *File, fd Field, withReq bool, sep string) string {
	s := fmt.Sprintf("  %d: ", fd.ID)
	if withReq {
		if fd.Req == Required {
			s += "required "
		} else {
			s += "optional "
		}
	}
	s += fd.Type.IDL() + " " + fd.Name
	if fd.Default != nil && fd.DefaultConst != "" {
		s += " = " + fd.DefaultConst
	} else if fd.Default != nil {
		s += " = " + p.LitIDL(f, fd.Type, fd.Default)
	}
	if fd.Annot != "" {
		s += " (" + fd.Annot + ")"
	}
	return s + sep + "\n"
}

// Render returns path -> IDL text.
func (p *Program) Render() map[string]string {
	out := map[string]string{}
	for _, f := range p.Files {
		var sb strings.Builder
		for _, inc := range f.Includes {
			fmt.Fprintf(&sb, "include \"%s\"\n", inc)
		}
		for _, d := range f.Defs {
			if d.Synthetic {
				continue
			}
			switch d.Kind {
			case "typedef":
				fmt.Fprintf(&sb, "typedef %s %s%s\n", d.Target.IDL(), d.Name, d.goNameAnnot())
			case "enum":
				sb.WriteString("enum " + d.Name + " {\n")
				for _, it := range d.Items {
					fmt.Fprintf(&sb, "  %s = %d,\n", it.Name, it.Value)
				}
				sb.WriteString("}" + d.goNameAnnot() + "\n")
			case "struct", "union", "exception":
				sb.WriteString(d.Kind + " " + d.Name + " {\n")
				for _, fd := range d.Fields {
					sb.WriteString(p.fieldIDL(f, fd, d.Kind != "union", ""))
				}
				sb.WriteString("}" + d.goNameAnnot() + "\n")
			case "const":
				fmt.Fprintf(&sb, "const %s %s = %s\n", d.Target.IDL(), d.Name, p.LitIDL(f, d.Target, d.Value))
			case "service":
				ext := ""
				if d.Parent != "" {
					ext = " extends " + d.Parent
				}
				sb.WriteString("service " + d.Name + ext + " {\n")
				for _, fn := range d.Funcs {
					ret := "void"
					if fn.Ret != nil {
						ret = fn.Ret.IDL()
					}
					if fn.OneWay {
						ret = "oneway void"
					}
					sb.WriteString("  " + ret + " " + fn.Name + "(\n")
					for _, a := range fn.Args {
						sb.WriteString("  " + p.fieldIDL(f, a, a.Req == Required, ","))
					}
					sb.WriteString("  )")
					if len(fn.Throws) > 0 {
						sb.WriteString(" throws (\n")
						for _, a := range fn.Throws {
							sb.WriteString("  " + p.fieldIDL(f, a, false, ","))
						}
						sb.WriteString("  )")
					}
					sb.WriteString("\n")
				}
				sb.WriteString("}\n")
			}
		}
		out[f.Path] = sb.String()
	}
	return out
}

// ---- logical values

// Val is a logical value. The kind is implied by the type it is used with.
type Val struct {
	I      int64           // bool (0/1), integers, enums
	D      uint64          // double bits
	S      []byte          // string, binary
	Items  []Val           // list / set elements; map: k0,v0,k1,v1,...
	Fields map[string]*Val // struct-like: absent = unset
	Nil    bool            // container that is nil rather than empty (only meaningful for Go-side observations)
	// Bad: while this value was read from the wire, an occurrence of one of its fields
	// (possibly overwritten by a later occurrence) held an invalid value - a union without
	// exactly one member, a struct lacking a required field. A decoder reads occurrences
	// as they come, so the whole decode fails.
	Bad bool
}

// Int, Str, ... constructors.
func Int(x int64) *Val      { return &Val{I: x} }
func Dbl(x float64) *Val    { return &Val{D: math.Float64bits(x)} }
func Str(s string) *Val     { return &Val{S: []byte(s)} }
func Seq(items ...Val) *Val { return &Val{Items: items} }
func Rec(kv map[string]*Val) *Val {
	if kv == nil {
		kv = map[string]*Val{}
	}
	return &Val{Fields: kv}
}

// Key renders v (of type t) canonically. exact: doubles by bits; sets and maps
// are sorted by element key (they are unordered), lists keep their order.
func (p *Program) Key(f *File, t *Type, v *Val) string {
	var sb strings.Builder
	p.key(&sb, f, t, v)
	return sb.String()
}

func (p *Program) key(sb *strings.Builder, f *File, t *Type, v *Val) {
	if v == nil {
		sb.WriteString("<unset>")
		return
	}
	rt, d, g := p.Resolve(f, t)
	switch {
	case d != nil && d.Kind == "enum":
		fmt.Fprintf(sb, "e%d", v.I)
		return
	case d != nil:
		sb.WriteString("{")
		for _, fd := range d.Fields {
			if fv, ok := v.Fields[fd.Name]; ok && fv != nil {
				sb.WriteString(fd.Name + "=")
				p.key(sb, g, fd.Type, fv)
				sb.WriteString(";")
			}
		}
		sb.WriteString("}")
		return
	}
	switch rt.K {
	case Bool, I8, I16, I32, I64:
		fmt.Fprintf(sb, "%d", v.I)
	case Double:
		fmt.Fprintf(sb, "d%016x", v.D)
	case String, Binary:
		fmt.Fprintf(sb, "%q", string(v.S))
	case List:
		sb.WriteString("[")
		for i := range v.Items {
			p.key(sb, g, rt.Elem, &v.Items[i])
			sb.WriteString(",")
		}
		sb.WriteString("]")
	case Set:
		ks := make([]string, len(v.Items))
		for i := range v.Items {
			ks[i] = p.Key(g, rt.Elem, &v.Items[i])
		}
		sort.Strings(ks)
		sb.WriteString("set[" + strings.Join(ks, ",") + "]")
	case Map:
		var ks []string
		for i := 0; i+1 < len(v.Items); i += 2 {
			ks = append(ks, p.Key(g, rt.Key, &v.Items[i])+"->"+p.Key(g, rt.Elem, &v.Items[i+1]))
		}
		sort.Strings(ks)
		sb.WriteString("map[" + strings.Join(ks, ",") + "]")
	}
}

// WireType returns the wire type of t.
func (p *Program) WireType(f *File, t *Type) tbin.Type {
	rt, d, _ := p.Resolve(f, t)
	if d != nil {
		if d.Kind == "enum" {
			return tbin.I32
		}
		return tbin.Struct
	}
	switch rt.K {
	case Bool:
		return tbin.Bool
	case I8:
		return tbin.I8
	case I16:
		return tbin.I16
	case I32:
		return tbin.I32
	case I64:
		return tbin.I64
	case Double:
		return tbin.Double
	case String, Binary:
		return tbin.Binary
	case List:
		return tbin.List
	case Set:
		return tbin.Set
	case Map:
		return tbin.Map
	}
	panic("schema: wire type")
}

// ToWire encodes a logical value of type t as a reference wire value. Fields
// are emitted in declaration order; perm, if non-nil, reorders struct fields
// at the top level (perm[i] = index of the i-th emitted field).
func (p *Program) ToWire(f *File, t *Type, v *Val) tbin.Value {
	rt, d, g := p.Resolve(f, t)
	switch {
	case d != nil && d.Kind == "enum":
		return tbin.Value{T: tbin.I32, I: v.I}
	case d != nil:
		out := tbin.Value{T: tbin.Struct}
		for _, fd := range d.Fields {
			if fv, ok := v.Fields[fd.Name]; ok && fv != nil {
				out.Fields = append(out.Fields, tbin.Field{ID: fd.ID, V: p.ToWire(g, fd.Type, fv)})
			}
		}
		return out
	}
	switch rt.K {
	case Bool:
		return tbin.Value{T: tbin.Bool, I: v.I}
	case I8:
		return tbin.Value{T: tbin.I8, I: v.I}
	case I16:
		return tbin.Value{T: tbin.I16, I: v.I}
	case I32:
		return tbin.Value{T: tbin.I32, I: v.I}
	case I64:
		return tbin.Value{T: tbin.I64, I: v.I}
	case Double:
		return tbin.Value{T: tbin.Double, D: v.D}
	case String, Binary:
		return tbin.Value{T: tbin.Binary, B: append([]byte{}, v.S...)}
	case List, Set:
		out := tbin.Value{T: tbin.List, VT: p.WireType(g, rt.Elem)}
		if rt.K == Set {
			out.T = tbin.Set
		}
		for i := range v.Items {
			out.Items = append(out.Items, p.ToWire(g, rt.Elem, &v.Items[i]))
		}
		return out
	case Map:
		out := tbin.Value{T: tbin.Map, KT: p.WireType(g, rt.Key), VT: p.WireType(g, rt.Elem)}
		for i := 0; i+1 < len(v.Items); i += 2 {
			out.Items = append(out.Items, p.ToWire(g, rt.Key, &v.Items[i]), p.ToWire(g, rt.Elem, &v.Items[i+1]))
		}
		return out
	}
	panic("schema: ToWire")
}

// FromWire decodes a reference wire value as type t (the independent
// schema-driven decode): unknown field ids and fields of another wire type
// are ignored; ok=false when w does not have t's wire type.
func (p *Program) FromWire(f *File, t *Type, w tbin.Value) (*Val, bool) {
	if w.T != p.WireType(f, t) {
		return nil, false
	}
	rt, d, g := p.Resolve(f, t)
	switch {
	case d != nil && d.Kind == "enum":
		return &Val{I: w.I}, true
	case d != nil:
		out := &Val{Fields: map[string]*Val{}}
		for _, wf := range w.Fields {
			for _, fd := range d.Fields {
				if fd.ID == wf.ID {
					if fv, ok := p.FromWire(g, fd.Type, wf.V); ok {
						if !p.Valid(g, fd.Type, fv) {
							out.Bad = true
						}
						if fv.Nil && (d.Kind == "union" || fd.Req != Required) {
							// a container written with another element type reads as a nil
							// container: an optional field / union member is then not set
							// (an earlier occurrence of the field is overwritten all the same)
							delete(out.Fields, fd.Name)
							continue
						}
						out.Fields[fd.Name] = fv
					}
				}
			}
		}
		return out, true
	}
	switch rt.K {
	case Bool, I8, I16, I32, I64:
		return &Val{I: w.I}, true
	case Double:
		return &Val{D: w.D}, true
	case String, Binary:
		return &Val{S: append([]byte{}, w.B...)}, true
	case List, Set:
		out := &Val{Items: []Val{}}
		if w.VT != p.WireType(g, rt.Elem) {
			// gen/list.go, gen/set.go: the elements are skipped and the container reads as nil
			return &Val{Items: []Val{}, Nil: true}, true
		}
		for _, it := range w.Items {
			ev, ok := p.FromWire(g, rt.Elem, it)
			if !ok {
				return nil, false
			}
			out.Items = append(out.Items, *ev)
		}
		return out, true
	case Map:
		out := &Val{Items: []Val{}}
		if w.KT != p.WireType(g, rt.Key) || w.VT != p.WireType(g, rt.Elem) {
			return &Val{Items: []Val{}, Nil: true}, true
		}
		for i := 0; i+1 < len(w.Items); i += 2 {
			k, ok1 := p.FromWire(g, rt.Key, w.Items[i])
			x, ok2 := p.FromWire(g, rt.Elem, w.Items[i+1])
			if !ok1 || !ok2 {
				return nil, false
			}
			out.Items = append(out.Items, *k, *x)
		}
		return out, true
	}
	return nil, false
}

// StripNil removes the fields of v (recursively) that hold a nil container: on
// the Go side a nil slice or map in a field is observed as an unset field.
func (p *Program) StripNil(v *Val) *Val {
	if v == nil {
		return nil
	}
	out := *v
	if v.Fields != nil {
		out.Fields = map[string]*Val{}
		for k, fv := range v.Fields {
			if fv != nil && fv.Nil {
				continue
			}
			out.Fields[k] = p.StripNil(fv)
		}
	}
	if v.Items != nil {
		out.Items = make([]Val, len(v.Items))
		for i := range v.Items {
			out.Items[i] = *p.StripNil(&v.Items[i])
			out.Items[i].Nil = false
		}
	}
	return &out
}

// FillDefaults returns v with declared defaults filled into unset fields,
// recursively (what a deserializer must produce).
func (p *Program) FillDefaults(f *File, t *Type, v *Val) *Val {
	if v == nil {
		return nil
	}
	rt, d, g := p.Resolve(f, t)
	if d != nil && d.Kind != "enum" {
		out := &Val{Fields: map[string]*Val{}}
		for _, fd := range d.Fields {
			fv, ok := v.Fields[fd.Name]
			if (!ok || fv == nil) && fd.Default != nil {
				fv = fd.Default
			}
			if fv != nil {
				out.Fields[fd.Name] = p.FillDefaults(g, fd.Type, fv)
			}
		}
		return out
	}
	if d != nil {
		return v
	}
	switch rt.K {
	case List, Set:
		out := &Val{Items: make([]Val, len(v.Items))}
		for i := range v.Items {
			out.Items[i] = *p.FillDefaults(g, rt.Elem, &v.Items[i])
		}
		return out
	case Map:
		out := &Val{Items: make([]Val, len(v.Items))}
		for i := 0; i+1 < len(v.Items); i += 2 {
			out.Items[i] = *p.FillDefaults(g, rt.Key, &v.Items[i])
			out.Items[i+1] = *p.FillDefaults(g, rt.Elem, &v.Items[i+1])
		}
		return out
	}
	return v
}
