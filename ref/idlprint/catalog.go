package idlprint

import (
	"fmt"
	"strconv"
	"strings"

	"go.uber.org/thriftrw/ast"
)

// Item is one header or definition of the catalog.
type Item struct {
	Name   string
	Header func(c *Ctx) ast.Header
	Def    func(c *Ctx) ast.Definition
}

// Program builds the program made of the given items (headers first).
func Program(items []Item) func(c *Ctx) *ast.Program {
	return func(c *Ctx) *ast.Program {
		p := &ast.Program{}
		for _, it := range items {
			if it.Header != nil {
				p.Headers = append(p.Headers, it.Header(c))
			}
		}
		for _, it := range items {
			if it.Def != nil {
				p.Definitions = append(p.Definitions, it.Def(c))
			}
		}
		return p
	}
}

// ---- types

type typeFn func(c *Ctx) ast.Type

func baseType(word string, id ast.BaseTypeID) typeFn {
	return func(c *Ctx) ast.Type {
		p := c.T(word)
		return ast.BaseType{ID: id, Line: p.Line, Column: p.Col}
	}
}

func refType(name string) typeFn {
	return func(c *Ctx) ast.Type {
		p := c.T(name)
		return ast.TypeReference{Name: name, Line: p.Line, Column: p.Col}
	}
}

func listType(e typeFn) typeFn {
	return func(c *Ctx) ast.Type {
		p := c.T("list")
		c.T("<")
		v := e(c)
		c.T(">")
		return ast.ListType{ValueType: v, Line: p.Line, Column: p.Col}
	}
}

func setType(e typeFn, annotated bool) typeFn {
	return func(c *Ctx) ast.Type {
		p := c.T("set")
		c.T("<")
		v := e(c)
		c.T(">")
		var an []*ast.Annotation
		if annotated {
			an = annotations(c, [][2]string{{"go.type", "slice"}})
		}
		return ast.SetType{ValueType: v, Annotations: an, Line: p.Line, Column: p.Col}
	}
}

func mapType(k, v typeFn) typeFn {
	return func(c *Ctx) ast.Type {
		p := c.T("map")
		c.T("<")
		kt := k(c)
		c.T(",")
		vt := v(c)
		c.T(">")
		return ast.MapType{KeyType: kt, ValueType: vt, Line: p.Line, Column: p.Col}
	}
}

// annotations emits "(k = "v", flag)" and returns the nodes.
func annotations(c *Ctx, kv [][2]string) []*ast.Annotation {
	var out []*ast.Annotation
	c.T("(")
	for i, a := range kv {
		p := c.T(a[0])
		if a[1] != "\x00" {
			c.T("=")
			c.T(fmt.Sprintf("%q", a[1]))
			out = append(out, &ast.Annotation{Name: a[0], Value: a[1], Line: p.Line, Column: p.Col})
		} else {
			out = append(out, &ast.Annotation{Name: a[0], Value: "", Line: p.Line, Column: p.Col})
		}
		if i < len(kv)-1 {
			c.T(",")
		}
	}
	c.T(")")
	return out
}

// ---- constants

// ValuePos collects the expected positions of value-typed constants.
type ValuePos struct {
	Node ast.Node
	Pos  Pos
}

type constFn func(c *Ctx, vp *[]ValuePos) ast.ConstantValue

func cInt(text string, v int64) constFn {
	return func(c *Ctx, vp *[]ValuePos) ast.ConstantValue {
		p := c.T(text)
		n := ast.ConstantInteger(v)
		*vp = append(*vp, ValuePos{n, p})
		return n
	}
}

func cDouble(text string, v float64) constFn {
	return func(c *Ctx, vp *[]ValuePos) ast.ConstantValue {
		p := c.T(text)
		n := ast.ConstantDouble(v)
		*vp = append(*vp, ValuePos{n, p})
		return n
	}
}

func cString(text, v string) constFn {
	return func(c *Ctx, vp *[]ValuePos) ast.ConstantValue {
		p := c.T(text)
		n := ast.ConstantString(v)
		*vp = append(*vp, ValuePos{n, p})
		return n
	}
}

func cBool(text string, v bool) constFn {
	return func(c *Ctx, vp *[]ValuePos) ast.ConstantValue {
		p := c.T(text)
		n := ast.ConstantBoolean(v)
		*vp = append(*vp, ValuePos{n, p})
		return n
	}
}

func cRef(name string) constFn {
	return func(c *Ctx, vp *[]ValuePos) ast.ConstantValue {
		p := c.T(name)
		return ast.ConstantReference{Name: name, Line: p.Line, Column: p.Col}
	}
}

func cList(items ...constFn) constFn {
	return func(c *Ctx, vp *[]ValuePos) ast.ConstantValue {
		p := c.T("[")
		var out []ast.ConstantValue
		for _, it := range items {
			out = append(out, it(c, vp))
			c.Sep()
		}
		c.T("]")
		return ast.ConstantList{Items: out, Line: p.Line, Column: p.Col}
	}
}

func cMap(kv ...constFn) constFn {
	return func(c *Ctx, vp *[]ValuePos) ast.ConstantValue {
		p := c.T("{")
		var out []ast.ConstantMapItem
		for i := 0; i+1 < len(kv); i += 2 {
			n0 := len(*vp)
			k := kv[i](c, vp)
			// the item starts where its key starts
			var ip Pos
			if len(*vp) > n0 {
				ip = (*vp)[n0].Pos
			}
			switch kk := k.(type) {
			case ast.ConstantReference:
				ip = Pos{kk.Line, kk.Column}
			case ast.ConstantList:
				ip = Pos{kk.Line, kk.Column}
			case ast.ConstantMap:
				ip = Pos{kk.Line, kk.Column}
			}
			c.T(":")
			v := kv[i+1](c, vp)
			c.Sep()
			out = append(out, ast.ConstantMapItem{Key: k, Value: v, Line: ip.Line, Column: ip.Col})
		}
		c.T("}")
		return ast.ConstantMap{Items: out, Line: p.Line, Column: p.Col}
	}
}

// ---- definitions

type fieldSpec struct {
	id    string // "" = unset
	req   string // "", "required", "optional"
	typ   typeFn
	name  string
	def   constFn
	annot [][2]string
}

func field(c *Ctx, f fieldSpec, vp *[]ValuePos) *ast.Field {
	out := &ast.Field{Name: f.name}
	first := true
	var p Pos
	start := func(text string) {
		if first {
			p, out.Doc = c.DocNL(text)
			first = false
		} else {
			c.T(text)
		}
	}
	if f.id != "" {
		start(f.id)
		if v, err := strconv.ParseInt(strings.TrimPrefix(f.id, "+"), 10, 64); err == nil {
			out.ID = int(v) // decimal, leading zeros are not octal
		} else {
			fmt.Sscan(f.id, &out.ID)
		}
		c.T(":")
	} else {
		out.IDUnset = true
	}
	switch f.req {
	case "required":
		start("required")
		out.Requiredness = ast.Required
	case "optional":
		start("optional")
		out.Requiredness = ast.Optional
	}
	if first {
		// the type is the first token: it must carry the doc marker
		// emit through a wrapper so that the type builder still records its own position
		i := c.d.n
		out.Type = f.typ(c)
		if !c.d.dry {
			p = c.d.pos[i]
			out.Doc = c.d.docs[i]
		} else {
			c.d.toks[i].newline = true
			c.d.toks[i].docable = true
		}
		first = false
	} else {
		out.Type = f.typ(c)
	}
	c.T(f.name)
	if f.def != nil {
		c.T("=")
		out.Default = f.def(c, vp)
	}
	if f.annot != nil {
		out.Annotations = annotations(c, f.annot)
	}
	c.Sep()
	out.Line, out.Column = p.Line, p.Col
	return out
}

func structDef(kw string, st ast.StructureType, name string, fields []fieldSpec, annot [][2]string, vp *[]ValuePos) func(c *Ctx) ast.Definition {
	return func(c *Ctx) ast.Definition {
		p, doc := c.DocNL(kw)
		c.T(name)
		c.T("{")
		out := &ast.Struct{Name: name, Type: st, Line: p.Line, Column: p.Col, Doc: doc}
		for _, f := range fields {
			out.Fields = append(out.Fields, field(c, f, vp))
		}
		c.NL("}")
		if annot != nil {
			out.Annotations = annotations(c, annot)
		}
		return out
	}
}

// Catalog returns the catalog items; vp collects value-constant positions.
func Catalog(vp *[]ValuePos) []Item {
	i32 := baseType("i32", ast.I32TypeID)
	str := baseType("string", ast.StringTypeID)
	var items []Item
	hdr := func(name string, f func(c *Ctx) ast.Header) { items = append(items, Item{Name: name, Header: f}) }
	def := func(name string, f func(c *Ctx) ast.Definition) { items = append(items, Item{Name: name, Def: f}) }

	hdr("include", func(c *Ctx) ast.Header {
		p := c.NL("include")
		c.T(`"./other.thrift"`)
		return &ast.Include{Path: "./other.thrift", Line: p.Line, Column: p.Col}
	})
	hdr("cpp_include", func(c *Ctx) ast.Header {
		p := c.NL("cpp_include")
		c.T(`'<vector>'`)
		return &ast.CppInclude{Path: "<vector>", Line: p.Line, Column: p.Col}
	})
	hdr("namespace", func(c *Ctx) ast.Header {
		p := c.NL("namespace")
		c.T("go")
		c.T("a.b_c")
		return &ast.Namespace{Scope: "go", Name: "a.b_c", Line: p.Line, Column: p.Col}
	})
	hdr("namespace-star", func(c *Ctx) ast.Header {
		p := c.NL("namespace")
		c.T("*")
		c.T("x")
		return &ast.Namespace{Scope: "*", Name: "x", Line: p.Line, Column: p.Col}
	})

	constant := func(name string, t typeFn, v constFn) {
		def("const:"+name, func(c *Ctx) ast.Definition {
			p, doc := c.DocNL("const")
			typ := t(c)
			c.T("K" + sanitize(name))
			c.T("=")
			val := v(c, vp)
			c.Sep()
			return &ast.Constant{Name: "K" + sanitize(name), Type: typ, Value: val, Line: p.Line, Column: p.Col, Doc: doc}
		})
	}
	constant("int", i32, cInt("42", 42))
	constant("neg", baseType("i64", ast.I64TypeID), cInt("-7", -7))
	constant("plus", baseType("i16", ast.I16TypeID), cInt("+5", 5))
	constant("hex", baseType("i8", ast.I8TypeID), cInt("0x7f", 127))
	constant("byte", baseType("byte", ast.I8TypeID), cInt("0", 0))
	constant("double", baseType("double", ast.DoubleTypeID), cDouble("1.5", 1.5))
	constant("exp", baseType("double", ast.DoubleTypeID), cDouble("-2e3", -2000))
	constant("exp2", baseType("double", ast.DoubleTypeID), cDouble("1.25E-2", 0.0125))
	constant("bool", baseType("bool", ast.BoolTypeID), cBool("true", true))
	constant("false", baseType("bool", ast.BoolTypeID), cBool("false", false))
	constant("dq", str, cString(`"plain"`, "plain"))
	constant("sq", str, cString(`'single'`, "single"))
	constant("dq-escapes", str, cString(`"a\n\t\\\"b"`, "a\n\t\\\"b"))
	constant("sq-escapes", str, cString(`'it\'s "q"'`, `it's "q"`))
	constant("dq-apostrophe", str, cString(`"it's"`, "it's"))
	constant("dq-escaped-apostrophe", str, cString(`"it\'s"`, "it's"))
	constant("dq-backslash-apostrophe", str, cString(`"a\\'b"`, `a\'b`))
	constant("sq-dquote", str, cString(`'say "hi"'`, `say "hi"`))
	constant("hex-escape", baseType("binary", ast.BinaryTypeID), cString(`"\x41é"`, "Aé"))
	constant("empty-string", str, cString(`""`, ""))
	constant("ref", refType("Other"), cRef("other.VALUE"))
	// quote characters written as escapes, in both quoting styles (a numeric escape is a character like any other)
	constant("quote-escapes", listType(str), cList(cString(`'\x22'`, "\""), cString(`'\x27'`, "'"), cString(`"\x22"`, "\""), cString(`"\x27"`, "'"),
		cString(`'\042'`, "\""), cString(`"\047"`, "'"), cString(`'\u0022'`, "\""), cString(`'a\"b'`, "a\"b"), cString(`"a\'b"`, "a'b"), cString(`'it\'s'`, "it's"), cString(`'"'`, "\""), cString(`"'"`, "'")))
	constant("list", listType(i32), cList(cInt("1", 1), cInt("2", 2), cInt("3", 3)))
	constant("empty-list", listType(str), cList())
	constant("nested-list", listType(listType(str)), cList(cList(cString(`"x"`, "x")), cList()))
	constant("map", mapType(str, i32), cMap(cString(`"k1"`, "k1"), cInt("10", 10), cString(`"k2"`, "k2"), cInt("20", 20)))
	constant("empty-map", mapType(str, str), cMap())
	constant("map-of-list", mapType(refType("a.K"), listType(i32)), cMap(cRef("a.X"), cList(cInt("9", 9)), cList(cInt("8", 8)), cMap()))
	constant("struct-literal", refType("S"), cMap(cString(`"f"`, "f"), cMap(cString(`"g"`, "g"), cBool("true", true))))

	typedef := func(name string, t typeFn, annot [][2]string) {
		def("typedef:"+name, func(c *Ctx) ast.Definition {
			p, doc := c.DocNL("typedef")
			typ := t(c)
			n := "T" + sanitize(name)
			c.T(n)
			out := &ast.Typedef{Name: n, Type: typ, Line: p.Line, Column: p.Col, Doc: doc}
			if annot != nil {
				out.Annotations = annotations(c, annot)
			}
			return out
		})
	}
	for _, b := range []struct {
		w  string
		id ast.BaseTypeID
	}{{"bool", ast.BoolTypeID}, {"i8", ast.I8TypeID}, {"i16", ast.I16TypeID}, {"i32", ast.I32TypeID}, {"i64", ast.I64TypeID}, {"double", ast.DoubleTypeID}, {"string", ast.StringTypeID}, {"binary", ast.BinaryTypeID}} {
		typedef(b.w, baseType(b.w, b.id), nil)
	}
	typedef("ref", refType("a.B"), nil)
	typedef("list", listType(refType("X")), nil)
	typedef("set", setType(str, false), nil)
	typedef("sliceset", setType(i32, true), nil)
	typedef("map", mapType(str, listType(i32)), nil)
	typedef("annotated", i32, [][2]string{{"go.name", "Renamed"}, {"flag", "\x00"}})
	typedef("nested", mapType(setType(i32, false), mapType(str, refType("Y"))), nil)

	def("enum:empty", func(c *Ctx) ast.Definition {
		p, doc := c.DocNL("enum")
		c.T("E0")
		c.T("{")
		c.T("}")
		return &ast.Enum{Name: "E0", Line: p.Line, Column: p.Col, Doc: doc}
	})
	def("enum:items", func(c *Ctx) ast.Definition {
		p, doc := c.DocNL("enum")
		c.T("E1")
		c.T("{")
		out := &ast.Enum{Name: "E1", Line: p.Line, Column: p.Col, Doc: doc}
		ip, idoc := c.DocNL("A")
		c.Sep()
		out.Items = append(out.Items, &ast.EnumItem{Name: "A", Line: ip.Line, Column: ip.Col, Doc: idoc})
		ip, idoc = c.DocNL("B")
		c.T("=")
		c.T("5")
		c.Sep()
		five := 5
		out.Items = append(out.Items, &ast.EnumItem{Name: "B", Value: &five, Line: ip.Line, Column: ip.Col, Doc: idoc})
		ip, idoc = c.DocNL("C")
		c.T("=")
		c.T("-1")
		an := annotations(c, [][2]string{{"go.name", "Cee"}})
		c.Sep()
		m1 := -1
		out.Items = append(out.Items, &ast.EnumItem{Name: "C", Value: &m1, Annotations: an, Line: ip.Line, Column: ip.Col, Doc: idoc})
		c.NL("}")
		out.Annotations = annotations(c, [][2]string{{"k", "v"}})
		return out
	})
	// integer notations: leading zeros are decimal (the IDL has no octal), explicit
	// plus sign, hex digits of either case, the 64-bit extremes
	def("enum:notations", func(c *Ctx) ast.Definition {
		p, doc := c.DocNL("enum")
		c.T("E2")
		c.T("{")
		out := &ast.Enum{Name: "E2", Line: p.Line, Column: p.Col, Doc: doc}
		for i, nv := range []struct {
			text string
			v    int
		}{{"010", 10}, {"08", 8}, {"-012", -12}, {"+007", 7}, {"0x1F", 31}, {"0x0a", 10}, {"00", 0}} {
			ip, idoc := c.DocNL(fmt.Sprintf("N%d", i))
			c.T("=")
			c.T(nv.text)
			c.Sep()
			v := nv.v
			out.Items = append(out.Items, &ast.EnumItem{Name: fmt.Sprintf("N%d", i), Value: &v, Line: ip.Line, Column: ip.Col, Doc: idoc})
		}
		c.NL("}")
		return out
	})
	def("struct:notations", structDef("struct", ast.StructType, "S2", []fieldSpec{
		{id: "010", req: "optional", typ: i32, name: "a", def: cInt("0099", 99)},
		{id: "+7", req: "optional", typ: i32, name: "b", def: cInt("-012", -12)},
		{id: "0x1f", req: "optional", typ: baseType("i64", ast.I64TypeID), name: "c", def: cInt("-9223372036854775808", -9223372036854775808)},
		{id: "08", req: "optional", typ: baseType("i64", ast.I64TypeID), name: "d", def: cInt("9223372036854775807", 9223372036854775807)},
	}, nil, vp))
	def("struct:empty", structDef("struct", ast.StructType, "S0", nil, nil, vp))
	def("struct:fields", structDef("struct", ast.StructType, "S1", []fieldSpec{
		{id: "1", req: "required", typ: i32, name: "a"},
		{id: "2", req: "optional", typ: str, name: "b", def: cString(`"d"`, "d")},
		{id: "3", typ: listType(refType("x.Y")), name: "c"},
		{typ: i32, name: "noid"},
		{id: "-5", req: "optional", typ: mapType(str, i32), name: "m", def: cMap(cString(`"k"`, "k"), cInt("1", 1)), annot: [][2]string{{"go.tag", `json:"m"`}}},
	}, [][2]string{{"k", "v"}}, vp))
	def("union", structDef("union", ast.UnionType, "U1", []fieldSpec{{id: "1", typ: i32, name: "a"}, {id: "2", typ: str, name: "b"}}, nil, vp))
	def("exception", structDef("exception", ast.ExceptionType, "X1", []fieldSpec{{id: "1", req: "optional", typ: str, name: "msg", annot: [][2]string{{"go.redact", "\x00"}}}}, nil, vp))

	function := func(c *Ctx, name string, oneway bool, ret typeFn, params, throws []fieldSpec, annot [][2]string) *ast.Function {
		out := &ast.Function{Name: name, OneWay: oneway}
		var p Pos
		if oneway {
			p, out.Doc = c.DocNL("oneway")
			c.T("void")
		} else if ret == nil {
			p, out.Doc = c.DocNL("void")
		} else {
			i := c.d.n
			out.ReturnType = ret(c)
			if c.d.dry {
				c.d.toks[i].newline = true
				c.d.toks[i].docable = true
			} else {
				p = c.d.pos[i]
				out.Doc = c.d.docs[i]
			}
		}
		c.T(name)
		c.T("(")
		for _, f := range params {
			out.Parameters = append(out.Parameters, field(c, f, vp))
		}
		c.T(")")
		if throws != nil {
			c.T("throws")
			c.T("(")
			for _, f := range throws {
				out.Exceptions = append(out.Exceptions, field(c, f, vp))
			}
			c.T(")")
		}
		if annot != nil {
			out.Annotations = annotations(c, annot)
		}
		c.Sep()
		out.Line, out.Column = p.Line, p.Col
		return out
	}
	def("service:empty", func(c *Ctx) ast.Definition {
		p, doc := c.DocNL("service")
		c.T("V0")
		c.T("{")
		c.T("}")
		return &ast.Service{Name: "V0", Line: p.Line, Column: p.Col, Doc: doc}
	})
	def("service:full", func(c *Ctx) ast.Definition {
		p, doc := c.DocNL("service")
		c.T("V1")
		c.T("extends")
		pp := c.T("base.Parent")
		c.T("{")
		out := &ast.Service{Name: "V1", Line: p.Line, Column: p.Col, Doc: doc, Parent: &ast.ServiceReference{Name: "base.Parent", Line: pp.Line, Column: pp.Col}}
		out.Functions = append(out.Functions,
			function(c, "ping", false, nil, nil, nil, nil),
			function(c, "get", false, refType("R"), []fieldSpec{{id: "1", typ: str, name: "key"}, {id: "2", req: "optional", typ: i32, name: "n", def: cInt("3", 3)}}, []fieldSpec{{id: "1", typ: refType("X1"), name: "x"}}, nil),
			function(c, "fire", true, nil, []fieldSpec{{id: "1", typ: listType(i32), name: "xs"}}, nil, [][2]string{{"k", "v"}}),
			function(c, "lst", false, listType(str), nil, nil, nil),
		)
		c.NL("}")
		out.Annotations = annotations(c, [][2]string{{"svc", "1"}})
		return out
	})
	return items
}

func sanitize(s string) string {
	out := []byte(s)
	for i, b := range out {
		if !(b >= 'a' && b <= 'z' || b >= 'A' && b <= 'Z' || b >= '0' && b <= '9') {
			out[i] = '_'
		}
	}
	return string(out)
}
