// Package idlprint is the harness's own Thrift IDL writer: catalog items emit
// tokens and, knowing where the writer put each token, build the AST the
// parser must return (structure, names, literal values, docstrings, 1-based
// line/column of each node's first token). Layout (gaps, comments, newlines,
// docstrings, optional separators) is an explicit, enumerable choice.
package idlprint

import (
	"fmt"
	"strings"

	"go.uber.org/thriftrw/ast"
)

// Pos is a 1-based position.
type Pos struct{ Line, Col int }

type token struct {
	text    string
	newline bool // default gap before this token is a newline instead of a space
	docable bool // a docstring before this token attaches to the node starting here
	sepAlts bool // this token is an optional separator: "" / "," / ";"
}

// Doc holds the token stream of one document and its layout.
type Doc struct {
	toks []token
	pos  []Pos
	docs map[int]string // token index -> expected docstring (set by layout)
	dry  bool
	n    int
}

// Ctx is handed to item builders.
type Ctx struct {
	d *Doc
}

// T emits a token and returns its position (zero in the dry pass).
func (c *Ctx) T(text string) Pos { return c.emit(token{text: text}) }

// NL emits a token that starts a new line by default.
func (c *Ctx) NL(text string) Pos { return c.emit(token{text: text, newline: true}) }

// DocNL emits a token starting a documentable node on a new line.
func (c *Ctx) DocNL(text string) (Pos, string) {
	i := c.d.n
	p := c.emit(token{text: text, newline: true, docable: true})
	return p, c.d.docs[i]
}

// DocT emits a token starting a documentable node.
func (c *Ctx) DocT(text string) (Pos, string) {
	i := c.d.n
	p := c.emit(token{text: text, docable: true})
	return p, c.d.docs[i]
}

// Sep emits an optional separator (default: none).
func (c *Ctx) Sep() { c.emit(token{text: "", sepAlts: true}) }

func (c *Ctx) emit(t token) Pos {
	i := c.d.n
	c.d.n++
	if c.d.dry {
		c.d.toks = append(c.d.toks, t)
		return Pos{}
	}
	return c.d.pos[i]
}

// Deviation is one departure from the default layout.
type Deviation struct {
	Tok  int    // token index the deviation applies to (the gap before it, or the separator itself)
	Kind string // gap:<text> | doc:<shape> | sep:<text>
}

// gapMenu are the alternative gaps (the default is a single space or newline).
var gapMenu = []string{"\n", "  ", "\t", "\r\n", " # c\n", " // c\n", " /* c */ ", " /* a\n b */ ", "\n\n"}

// docMenu: docstring shapes and the text they must yield; distant=true means
// the docstring is followed by a blank line and must NOT attach.
var docMenu = []struct {
	Name, Text, Want string
	Distant          bool
}{
	{"single", "/** one line */", "one line", false},
	{"starred", "/**\n * first\n * second\n */", "first\nsecond", false},
	{"unstarred", "/**\n   plain text\n*/", "plain text", false},
	{"distant", "/** far away */", "", true},
	// the text may itself end in the characters of the closing marker
	{"slash-end", "/** served under /api/v1/*/", "served under /api/v1/", false},
	{"star-end", "/** banner **/", "banner *", false},
	{"glob-line", "/**\n * matches src/**\n */", "matches src/**", false},
	// docstrings without text
	{"empty-multiline", "/**\n */", "", false},
	{"blank-lines", "/**\n\n*/", "", false},
}

// Deviations lists every single deviation applicable to the token stream.
func (d *Doc) Deviations() []Deviation {
	var out []Deviation
	for i, t := range d.toks {
		if t.sepAlts {
			out = append(out, Deviation{i, "sep:,"}, Deviation{i, "sep:;"})
			continue
		}
		if i > 0 {
			for _, g := range gapMenu {
				out = append(out, Deviation{i, "gap:" + g})
			}
		}
		if t.docable {
			for _, dm := range docMenu {
				out = append(out, Deviation{i, "doc:" + dm.Name})
			}
		}
	}
	return out
}

// Tokens returns the number of tokens.
func (d *Doc) Tokens() int { return len(d.toks) }

// Build renders the program produced by build under the given deviations and
// returns the text and the expected AST.
func Build(build func(c *Ctx) *ast.Program, devs []Deviation) (string, *ast.Program, *Doc) {
	d := &Doc{dry: true, docs: map[int]string{}}
	build(&Ctx{d})
	// apply layout
	gaps := make([]string, len(d.toks))
	texts := make([]string, len(d.toks))
	for i, t := range d.toks {
		texts[i] = t.text
		switch {
		case i == 0:
			gaps[i] = ""
		case t.newline:
			gaps[i] = "\n"
		case t.sepAlts:
			gaps[i] = ""
		default:
			gaps[i] = " "
		}
	}
	for _, dv := range devs {
		switch {
		case strings.HasPrefix(dv.Kind, "gap:"):
			gaps[dv.Tok] = strings.TrimPrefix(dv.Kind, "gap:")
		case strings.HasPrefix(dv.Kind, "sep:"):
			texts[dv.Tok] = strings.TrimPrefix(dv.Kind, "sep:")
		case strings.HasPrefix(dv.Kind, "doc:"):
			for _, dm := range docMenu {
				if dm.Name == strings.TrimPrefix(dv.Kind, "doc:") {
					if dm.Distant {
						gaps[dv.Tok] += dm.Text + "\n\n\n"
					} else {
						gaps[dv.Tok] += dm.Text + "\n"
						d.docs[dv.Tok] = dm.Want
					}
				}
			}
		}
	}
	// a gap must keep adjacent word tokens apart: if a deviation left a gap empty, fall back
	var sb strings.Builder
	d.pos = make([]Pos, len(d.toks))
	line, col := 1, 1
	write := func(s string) {
		for i := 0; i < len(s); i++ {
			if s[i] == '\n' {
				line++
				col = 1
			} else {
				col++
			}
		}
		sb.WriteString(s)
	}
	for i := range d.toks {
		write(gaps[i])
		d.pos[i] = Pos{line, col}
		write(texts[i])
	}
	d.dry = false
	d.n = 0
	prog := build(&Ctx{d})
	return sb.String(), prog, d
}

// Describe renders deviations for messages.
func Describe(devs []Deviation) string {
	var parts []string
	for _, d := range devs {
		parts = append(parts, fmt.Sprintf("tok%d %q", d.Tok, d.Kind))
	}
	return strings.Join(parts, "; ")
}

// TokenAt returns the index of the token that starts at p, or -1.
func (d *Doc) TokenAt(p Pos) int {
	for i, q := range d.pos {
		if q == p && d.toks[i].text != "" {
			return i
		}
	}
	for i, q := range d.pos {
		if q == p {
			return i
		}
	}
	return -1
}

// PrevTokenText returns the text and position of the nearest non-empty token before i.
func (d *Doc) PrevTokenText(i int) (string, Pos) {
	for j := i - 1; j >= 0; j-- {
		if d.toks[j].text != "" {
			return d.toks[j].text, d.pos[j]
		}
	}
	return "", Pos{}
}
