package tbin

import "math"

// Scalar alphabets (DESIGN.md C02).

func ints(t Type, xs ...int64) []Value {
	out := make([]Value, len(xs))
	for i, x := range xs {
		out[i] = Value{T: t, I: x}
	}
	return out
}

// Scalars returns the boundary alphabet for a scalar type. big adds large
// binaries crossing the 1 MiB allocation threshold.
func Scalars(t Type, big bool) []Value {
	switch t {
	case Bool:
		return ints(Bool, 0, 1)
	case I8:
		return ints(I8, 0, -1, math.MinInt8, math.MaxInt8)
	case I16:
		return ints(I16, 0, -1, math.MinInt16, math.MaxInt16)
	case I32:
		return ints(I32, 0, -1, math.MinInt32, math.MaxInt32)
	case I64:
		return ints(I64, 0, -1, math.MinInt64, math.MaxInt64)
	case Double:
		bits := []uint64{
			0, 0x8000000000000000, math.Float64bits(1.5),
			math.Float64bits(math.Inf(1)), math.Float64bits(math.Inf(-1)),
			0x7ff8000000000001, 0x7ff0000000000abc, 1,
		}
		out := make([]Value, len(bits))
		for i, b := range bits {
			out[i] = Value{T: Double, D: b}
		}
		return out
	case Binary:
		b255 := make([]byte, 255)
		for i := range b255 {
			b255[i] = byte(i)
		}
		out := []Value{
			{T: Binary, B: []byte{}},
			{T: Binary, B: []byte{0}},
			{T: Binary, B: []byte{0xff, 'a', 0x80}},
			{T: Binary, B: b255},
		}
		if big {
			for _, n := range []int{1<<20 - 1, 1 << 20, 1<<20 + 1} {
				bb := make([]byte, n)
				for i := range bb {
					bb[i] = byte(i * 7)
				}
				out = append(out, Value{T: Binary, B: bb})
			}
		}
		return out
	}
	return nil
}

// ScalarTypes are the seven non-container wire types.
var ScalarTypes = []Type{Bool, I8, Double, I16, I32, I64, Binary}

// FieldIDs is the field id alphabet.
var FieldIDs = []int16{1, -1, 0, 32767, -32768}

// Elems is a pool of element values grouped by type.
type Elems map[Type][]Value

// ScalarElems returns all scalars as an element pool.
func ScalarElems(big bool) Elems {
	e := Elems{}
	for _, t := range ScalarTypes {
		e[t] = Scalars(t, big)
	}
	return e
}

// Add appends v to the pool under its type.
func (e Elems) Add(v Value) { e[v.T] = append(e[v.T], v) }

// Containers enumerates every struct / list / set / map of width <= 2 whose
// elements are drawn from the pool, plus empty containers of every element
// type. Values are yielded smallest first.
func Containers(pool Elems, yield func(Value)) {
	// lists and sets
	for _, ct := range []Type{List, Set} {
		for _, et := range AllTypes {
			yield(Value{T: ct, VT: et})
		}
		for _, et := range AllTypes {
			for _, a := range pool[et] {
				yield(Value{T: ct, VT: et, Items: []Value{a}})
			}
		}
		for _, et := range AllTypes {
			for _, a := range pool[et] {
				for _, b := range pool[et] {
					yield(Value{T: ct, VT: et, Items: []Value{a, b}})
				}
			}
		}
	}
	// maps
	for _, kt := range AllTypes {
		for _, vt := range AllTypes {
			yield(Value{T: Map, KT: kt, VT: vt})
		}
	}
	for _, kt := range AllTypes {
		for _, vt := range AllTypes {
			for _, k := range pool[kt] {
				for _, v := range pool[vt] {
					yield(Value{T: Map, KT: kt, VT: vt, Items: []Value{k, v}})
				}
			}
		}
	}
	for _, kt := range AllTypes {
		for _, vt := range AllTypes {
			ks, vs := pool[kt], pool[vt]
			if len(ks)*len(vs) > 16 {
				// two-entry maps: keep the product bounded by pairing the
				// i-th key/value with every other (k,v) pair
				for i := range ks {
					v0 := vs[i%len(vs)]
					for _, k := range ks {
						for _, v := range vs {
							yield(Value{T: Map, KT: kt, VT: vt, Items: []Value{ks[i], v0, k, v}})
						}
					}
				}
				continue
			}
			for _, k := range ks {
				for _, v := range vs {
					for _, k2 := range ks {
						for _, v2 := range vs {
							yield(Value{T: Map, KT: kt, VT: vt, Items: []Value{k, v, k2, v2}})
						}
					}
				}
			}
		}
	}
	// structs
	yield(Value{T: Struct})
	for _, id := range FieldIDs {
		for _, t := range AllTypes {
			for _, a := range pool[t] {
				yield(Value{T: Struct, Fields: []Field{{ID: id, V: a}}})
			}
		}
	}
	for _, id := range FieldIDs {
		for _, id2 := range FieldIDs {
			if id == id2 {
				continue
			}
			for _, t := range AllTypes {
				for _, a := range pool[t] {
					for _, t2 := range AllTypes {
						for _, b := range pool[t2] {
							yield(Value{T: Struct, Fields: []Field{{ID: id, V: a}, {ID: id2, V: b}}})
						}
					}
				}
			}
		}
	}
}

// Reps picks a small representative pool out of a stream of container values:
// for each (type, element-type signature, width) the first value seen.
type Reps struct {
	seen map[[4]int]bool
	Pool Elems
	per  int
}

// NewReps makes a representative picker.
func NewReps() *Reps { return &Reps{seen: map[[4]int]bool{}, Pool: Elems{}} }

// Offer considers v as a representative.
func (r *Reps) Offer(v Value) {
	var k [4]int
	k[0] = int(v.T)
	switch v.T {
	case Struct:
		k[1] = len(v.Fields)
		if len(v.Fields) > 0 {
			k[2] = int(v.Fields[0].V.T)
			k[3] = int(v.Fields[len(v.Fields)-1].V.T)
			if len(v.Fields) == 2 {
				// keep only a few two-field reps
				if v.Fields[0].V.T != Binary && v.Fields[0].V.T != I32 {
					return
				}
			}
		}
	case Map:
		k[1] = len(v.Items) / 2
		k[2] = int(v.KT)
		k[3] = int(v.VT)
		if k[1] == 2 && !(v.KT == Binary || v.KT == I64) {
			return
		}
	default:
		k[1] = len(v.Items)
		k[2] = int(v.VT)
	}
	if r.seen[k] {
		return
	}
	r.seen[k] = true
	r.Pool.Add(v)
}

// SmallScalars is a reduced scalar pool used as siblings of nested values.
func SmallScalars() Elems {
	e := Elems{}
	e[Bool] = ints(Bool, 1)
	e[I8] = ints(I8, math.MinInt8)
	e[I16] = ints(I16, -2)
	e[I32] = ints(I32, math.MaxInt32)
	e[I64] = ints(I64, math.MinInt64)
	e[Double] = []Value{{T: Double, D: 0x7ff0000000000abc}}
	e[Binary] = []Value{{T: Binary, B: []byte{0xff, 'a', 0x80}}, {T: Binary, B: []byte{}}}
	return e
}

// Merge returns the union of pools.
func Merge(ps ...Elems) Elems {
	out := Elems{}
	for _, p := range ps {
		for _, t := range AllTypes {
			out[t] = append(out[t], p[t]...)
		}
	}
	return out
}

// Enumerate yields the C02 domain up to the given depth (1..3): scalars, all
// depth-1 containers over the full scalar alphabet, and for each further
// level all containers over (small scalars + representatives of the previous
// level).
func Enumerate(depth int, big bool, yield func(level int, v Value)) {
	sc := ScalarElems(big)
	for _, t := range ScalarTypes {
		for _, v := range sc[t] {
			yield(0, v)
		}
	}
	reps := NewReps()
	Containers(ScalarElems(false), func(v Value) {
		reps.Offer(v)
		yield(1, v)
	})
	if big {
		// containers of the large binaries only as single elements
		for _, v := range sc[Binary][4:] {
			yield(1, Value{T: List, VT: Binary, Items: []Value{v}})
			yield(1, Value{T: Struct, Fields: []Field{{ID: 1, V: v}}})
		}
	}
	for lvl := 2; lvl <= depth; lvl++ {
		pool := Merge(SmallScalars(), reps.Pool)
		next := NewReps()
		prev := reps.Pool
		Containers(pool, func(v Value) {
			if !hasNested(v, prev) {
				return // already produced at a lower level
			}
			next.Offer(v)
			yield(lvl, v)
		})
		reps = next
	}
}

func hasNested(v Value, prev Elems) bool {
	switch v.T {
	case Struct:
		for _, f := range v.Fields {
			if f.V.T >= Struct {
				return true
			}
		}
		return false
	default:
		for _, it := range v.Items {
			if it.T >= Struct {
				return true
			}
		}
		return false
	}
}
