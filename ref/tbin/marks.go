package tbin

// Mark names a position in an encoding where the format carries a length or
// element count.
type Mark struct {
	Off  int
	Kind string // binary-length, list-count, set-count, map-count (+ element class)
}

func fixed(t Type) bool {
	switch t {
	case Bool, I8, I16, I32, I64, Double:
		return true
	}
	return false
}

func class(t Type) string {
	if fixed(t) {
		return "fixed"
	}
	return "var"
}

// Marks returns the length-carrying positions of Encode(v), offset by base.
func Marks(v Value, base int) []Mark {
	var out []Mark
	marks(v, base, &out)
	return out
}

func marks(v Value, off int, out *[]Mark) int {
	switch v.T {
	case Bool, I8:
		return off + 1
	case I16:
		return off + 2
	case I32:
		return off + 4
	case I64, Double:
		return off + 8
	case Binary:
		*out = append(*out, Mark{off, "binary-length"})
		return off + 4 + len(v.B)
	case Struct:
		for _, f := range v.Fields {
			off = marks(f.V, off+3, out)
		}
		return off + 1
	case Map:
		c := "var"
		if fixed(v.KT) && fixed(v.VT) {
			c = "fixed"
		}
		*out = append(*out, Mark{off + 2, "map-count(" + c + ")"})
		off += 6
		for _, it := range v.Items {
			off = marks(it, off, out)
		}
		return off
	case Set, List:
		k := "list"
		if v.T == Set {
			k = "set"
		}
		*out = append(*out, Mark{off + 1, k + "-count(" + class(v.VT) + ")"})
		off += 5
		for _, it := range v.Items {
			off = marks(it, off, out)
		}
		return off
	}
	return off
}
