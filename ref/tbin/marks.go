package tbin

// Mark names a position in an encoding where the format carries a length or
// element count.
type Mark struct {
	Off  int
	Kind string // binary-length, list-count, set-count, map-count (+ element class)
}

func fixed(t Type) bool {
	switch t {
	case Bool, I8, I16, I32, I64, Double:
		return true
	}
	return false
}

func class(t Type) string {
	if fixed(t) {
		return "fixed"
	}
	return "var"
}

// Marks returns the length-carrying positions of Encode(v), offset by base.
func Marks(v Value, base int) []Mark {
	var out []Mark
	marks(v, base, &out)
	return out
}

func marks(v Value, off int, out *[]Mark) int {
	switch v.T {
	case Bool, I8:
		return off + 1
	case I16:
		return off + 2
	case I32:
		return off + 4
	case I64, Double:
		return off + 8
	case Binary:
		*out = append(*out, Mark{off, "binary-length"})
		return off + 4 + len(v.B)
	case Struct:
		for _, f := range v.Fields {
			off = marks(f.V, off+3, out)
		}
		return off + 1
	case Map:
		c := "var"
		if fixed(v.KT) && fixed(v.VT) {
			c = "fixed"
		}
		*out = append(*out, Mark{off + 2, "map-count(" + c + ")"})
		off += 6
		for _, it := range v.Items {
			off = marks(it, off, out)
		}
		return off
	case Set, List:
		k := "list"
		if v.T == Set {
			k = "set"
		}
		*out = append(*out, Mark{off + 1, k + "-count(" + class(v.VT) + ")"})
		off += 5
		for _, it := range v.Items {
			off = marks(it, off, out)
		}
		return off
	}
	return off
}

// MaxDeclared walks b structurally as a value of type t, as far as it is
// well-formed, and returns the largest length or element count declared by
// any header it meets (negative declarations count as 0). It never allocates
// from declared sizes.
func MaxDeclared(t Type, b []byte) int64 {
	var max int64
	walkDeclared(t, b, 0, 0, &max)
	return max
}

func walkDeclared(t Type, b []byte, off, depth int, max *int64) (int, bool) {
	if depth > 64 {
		return off, false
	}
	need := func(n int) bool { return off+n <= len(b) && off+n >= off }
	switch t {
	case Bool, I8:
		return off + 1, need(1)
	case I16:
		return off + 2, need(2)
	case I32:
		return off + 4, need(4)
	case I64, Double:
		return off + 8, need(8)
	case Binary:
		if !need(4) {
			return off, false
		}
		x, _ := rd(b, off, 4)
		l := int64(int32(x))
		if l > *max {
			*max = l
		}
		if l < 0 || off+4+int(l) > len(b) {
			return off, false
		}
		return off + 4 + int(l), true
	case Struct:
		for {
			if !need(1) {
				return off, false
			}
			ft := Type(b[off])
			off++
			if ft == 0 {
				return off, true
			}
			if !ft.Valid() || !need(2) {
				return off, false
			}
			off += 2
			n, ok := walkDeclared(ft, b, off, depth+1, max)
			if !ok {
				return n, false
			}
			off = n
		}
	case Map:
		if !need(6) {
			return off, false
		}
		kt, vt := Type(b[off]), Type(b[off+1])
		x, _ := rd(b, off+2, 4)
		c := int64(int32(x))
		if c > *max {
			*max = c
		}
		off += 6
		if c < 0 {
			return off, false
		}
		for i := int64(0); i < c; i++ {
			if !kt.Valid() || !vt.Valid() {
				return off, false
			}
			n, ok := walkDeclared(kt, b, off, depth+1, max)
			if !ok {
				return n, false
			}
			n, ok = walkDeclared(vt, b, n, depth+1, max)
			if !ok {
				return n, false
			}
			off = n
		}
		return off, true
	case Set, List:
		if !need(5) {
			return off, false
		}
		et := Type(b[off])
		x, _ := rd(b, off+1, 4)
		c := int64(int32(x))
		if c > *max {
			*max = c
		}
		off += 5
		if c < 0 {
			return off, false
		}
		for i := int64(0); i < c; i++ {
			if !et.Valid() {
				return off, false
			}
			n, ok := walkDeclared(et, b, off, depth+1, max)
			if !ok {
				return n, false
			}
			off = n
		}
		return off, true
	}
	return off, false
}

// LargestDeclared walks b structurally like MaxDeclared and reports the first
// header (in decoding order) declaring a value >= 2^16 and its kind (same kind
// names as Marks); if there is none, the largest declared value.
func LargestDeclared(t Type, b []byte) (int64, string) {
	var max int64
	kind := ""
	var walk func(t Type, off, depth int) (int, bool)
	walk = func(t Type, off, depth int) (int, bool) {
		if depth > 64 {
			return off, false
		}
		need := func(n int) bool { return off+n <= len(b) && off+n >= off }
		note := func(v int64, k string) {
			// the first header (in decoding order) that declares a large value is the
			// one a decoder acts on; later "declarations" are bytes read past it
			if max >= 1<<16 {
				return
			}
			if v > max {
				max, kind = v, k
			}
		}
		switch t {
		case Bool, I8:
			return off + 1, need(1)
		case I16:
			return off + 2, need(2)
		case I32:
			return off + 4, need(4)
		case I64, Double:
			return off + 8, need(8)
		case Binary:
			if !need(4) {
				return off, false
			}
			x, _ := rd(b, off, 4)
			l := int64(int32(x))
			note(l, "binary-length")
			if l < 0 || off+4+int(l) > len(b) {
				return off, false
			}
			return off + 4 + int(l), true
		case Struct:
			for {
				if !need(1) {
					return off, false
				}
				ft := Type(b[off])
				off++
				if ft == 0 {
					return off, true
				}
				if !ft.Valid() || !need(2) {
					return off, false
				}
				off += 2
				n, ok := walk(ft, off, depth+1)
				if !ok {
					return n, false
				}
				off = n
			}
		case Map:
			if !need(6) {
				return off, false
			}
			kt, vt := Type(b[off]), Type(b[off+1])
			x, _ := rd(b, off+2, 4)
			c := int64(int32(x))
			cl := "var"
			if fixed(kt) && fixed(vt) {
				cl = "fixed"
			}
			note(c, "map-count("+cl+")")
			off += 6
			if c < 0 {
				return off, false
			}
			for i := int64(0); i < c; i++ {
				if !kt.Valid() || !vt.Valid() {
					return off, false
				}
				n, ok := walk(kt, off, depth+1)
				if !ok {
					return n, false
				}
				n, ok = walk(vt, n, depth+1)
				if !ok {
					return n, false
				}
				off = n
			}
			return off, true
		case Set, List:
			if !need(5) {
				return off, false
			}
			et := Type(b[off])
			x, _ := rd(b, off+1, 4)
			c := int64(int32(x))
			k := "list"
			if t == Set {
				k = "set"
			}
			note(c, k+"-count("+class(et)+")")
			off += 5
			if c < 0 {
				return off, false
			}
			for i := int64(0); i < c; i++ {
				if !et.Valid() {
					return off, false
				}
				n, ok := walk(et, off, depth+1)
				if !ok {
					return n, false
				}
				off = n
			}
			return off, true
		}
		return off, false
	}
	walk(t, 0, 0)
	return max, kind
}
