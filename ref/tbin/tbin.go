// Package tbin is an independent reference implementation of the Thrift
// binary protocol, written from the protocol specification
// (thrift-binary-protocol.md). It shares no code with go.uber.org/thriftrw.
package tbin

import (
	"encoding/hex"
	"errors"
	"fmt"
	"strings"
)

// Type is a Thrift wire type code.
type Type byte

// Wire type codes from the specification.
const (
	Bool   Type = 2
	I8     Type = 3
	Double Type = 4
	I16    Type = 6
	I32    Type = 8
	I64    Type = 10
	Binary Type = 11
	Struct Type = 12
	Map    Type = 13
	Set    Type = 14
	List   Type = 15
)

// AllTypes lists the 11 valid codes in ascending order.
var AllTypes = []Type{Bool, I8, Double, I16, I32, I64, Binary, Struct, Map, Set, List}

// Valid reports whether t is one of the 11 wire types.
func (t Type) Valid() bool {
	switch t {
	case Bool, I8, Double, I16, I32, I64, Binary, Struct, Map, Set, List:
		return true
	}
	return false
}

func (t Type) String() string {
	switch t {
	case Bool:
		return "bool"
	case I8:
		return "i8"
	case Double:
		return "double"
	case I16:
		return "i16"
	case I32:
		return "i32"
	case I64:
		return "i64"
	case Binary:
		return "binary"
	case Struct:
		return "struct"
	case Map:
		return "map"
	case Set:
		return "set"
	case List:
		return "list"
	}
	return fmt.Sprintf("type(%d)", byte(t))
}

// Value is a logical wire value.
type Value struct {
	T      Type
	I      int64   // Bool (0/1), I8, I16, I32, I64
	D      uint64  // Double bit pattern
	B      []byte  // Binary
	Fields []Field // Struct
	KT, VT Type    // Map key/value types; List/Set element type in VT
	Items  []Value // List/Set elements; Map: k0,v0,k1,v1,...
}

// Field is one struct field.
type Field struct {
	ID int16
	V  Value
}

// Encode appends the encoding of v.
func Encode(v Value) []byte { return appendValue(nil, v) }

func be(b []byte, x uint64, n int) []byte {
	for i := n - 1; i >= 0; i-- {
		b = append(b, byte(x>>(8*uint(i))))
	}
	return b
}

func appendValue(b []byte, v Value) []byte {
	switch v.T {
	case Bool:
		if v.I != 0 {
			return append(b, 1)
		}
		return append(b, 0)
	case I8:
		return append(b, byte(v.I))
	case I16:
		return be(b, uint64(v.I), 2)
	case I32:
		return be(b, uint64(v.I), 4)
	case I64:
		return be(b, uint64(v.I), 8)
	case Double:
		return be(b, v.D, 8)
	case Binary:
		b = be(b, uint64(len(v.B)), 4)
		return append(b, v.B...)
	case Struct:
		for _, f := range v.Fields {
			b = append(b, byte(f.V.T))
			b = be(b, uint64(f.ID), 2)
			b = appendValue(b, f.V)
		}
		return append(b, 0)
	case Map:
		b = append(b, byte(v.KT), byte(v.VT))
		b = be(b, uint64(len(v.Items)/2), 4)
		for _, it := range v.Items {
			b = appendValue(b, it)
		}
		return b
	case Set, List:
		b = append(b, byte(v.VT))
		b = be(b, uint64(len(v.Items)), 4)
		for _, it := range v.Items {
			b = appendValue(b, it)
		}
		return b
	}
	panic(fmt.Sprintf("tbin: cannot encode type %d", v.T))
}

// ErrShort is returned when the input ends inside a value.
var ErrShort = errors.New("tbin: input too short")

func rd(b []byte, off, n int) (uint64, error) {
	if off+n > len(b) || off+n < off {
		return 0, ErrShort
	}
	var x uint64
	for i := 0; i < n; i++ {
		x = x<<8 | uint64(b[off+i])
	}
	return x, nil
}

// Decode decodes one value of type t from the start of b, returning it and
// the number of bytes consumed. Strict: bools must be 0 or 1, lengths
// non-negative, type codes valid.
func Decode(t Type, b []byte) (Value, int, error) {
	v, n, err := decodeAt(t, b, 0, 0)
	return v, n, err
}

const maxDepth = 2000

func decodeAt(t Type, b []byte, off, depth int) (Value, int, error) {
	if depth > maxDepth {
		return Value{}, off, errors.New("tbin: too deep")
	}
	v := Value{T: t}
	switch t {
	case Bool:
		x, err := rd(b, off, 1)
		if err != nil {
			return v, off, err
		}
		if x > 1 {
			return v, off, fmt.Errorf("tbin: bool byte %d", x)
		}
		v.I = int64(x)
		return v, off + 1, nil
	case I8:
		x, err := rd(b, off, 1)
		v.I = int64(int8(x))
		return v, off + 1, err
	case I16:
		x, err := rd(b, off, 2)
		v.I = int64(int16(x))
		return v, off + 2, err
	case I32:
		x, err := rd(b, off, 4)
		v.I = int64(int32(x))
		return v, off + 4, err
	case I64:
		x, err := rd(b, off, 8)
		v.I = int64(x)
		return v, off + 8, err
	case Double:
		x, err := rd(b, off, 8)
		v.D = x
		return v, off + 8, err
	case Binary:
		x, err := rd(b, off, 4)
		if err != nil {
			return v, off, err
		}
		l := int32(x)
		if l < 0 {
			return v, off, fmt.Errorf("tbin: negative length %d", l)
		}
		off += 4
		if off+int(l) > len(b) {
			return v, off, ErrShort
		}
		v.B = append([]byte{}, b[off:off+int(l)]...)
		return v, off + int(l), nil
	case Struct:
		for {
			x, err := rd(b, off, 1)
			if err != nil {
				return v, off, err
			}
			off++
			if x == 0 {
				return v, off, nil
			}
			ft := Type(x)
			if !ft.Valid() {
				return v, off, fmt.Errorf("tbin: bad field type %d", x)
			}
			id, err := rd(b, off, 2)
			if err != nil {
				return v, off, err
			}
			off += 2
			fv, n, err := decodeAt(ft, b, off, depth+1)
			if err != nil {
				return v, n, err
			}
			off = n
			v.Fields = append(v.Fields, Field{ID: int16(id), V: fv})
		}
	case Map:
		kt, err := rd(b, off, 1)
		if err != nil {
			return v, off, err
		}
		vt, err := rd(b, off+1, 1)
		if err != nil {
			return v, off, err
		}
		c, err := rd(b, off+2, 4)
		if err != nil {
			return v, off, err
		}
		off += 6
		v.KT, v.VT = Type(kt), Type(vt)
		cnt := int32(c)
		if cnt < 0 {
			return v, off, fmt.Errorf("tbin: negative count %d", cnt)
		}
		if cnt > 0 && (!v.KT.Valid() || !v.VT.Valid()) {
			return v, off, fmt.Errorf("tbin: bad map types %d %d", kt, vt)
		}
		for i := int32(0); i < cnt; i++ {
			k, n, err := decodeAt(v.KT, b, off, depth+1)
			if err != nil {
				return v, n, err
			}
			off = n
			x, n, err := decodeAt(v.VT, b, off, depth+1)
			if err != nil {
				return v, n, err
			}
			off = n
			v.Items = append(v.Items, k, x)
		}
		return v, off, nil
	case Set, List:
		et, err := rd(b, off, 1)
		if err != nil {
			return v, off, err
		}
		c, err := rd(b, off+1, 4)
		if err != nil {
			return v, off, err
		}
		off += 5
		v.VT = Type(et)
		cnt := int32(c)
		if cnt < 0 {
			return v, off, fmt.Errorf("tbin: negative count %d", cnt)
		}
		if cnt > 0 && !v.VT.Valid() {
			return v, off, fmt.Errorf("tbin: bad element type %d", et)
		}
		for i := int32(0); i < cnt; i++ {
			x, n, err := decodeAt(v.VT, b, off, depth+1)
			if err != nil {
				return v, n, err
			}
			off = n
			v.Items = append(v.Items, x)
		}
		return v, off, nil
	}
	return v, off, fmt.Errorf("tbin: unknown type %d", t)
}

// Key renders v canonically (exact: order preserved, doubles by bits).
func (v Value) Key() string {
	var sb strings.Builder
	v.key(&sb)
	return sb.String()
}

func (v Value) key(sb *strings.Builder) {
	switch v.T {
	case Bool, I8, I16, I32, I64:
		fmt.Fprintf(sb, "%s:%d", v.T, v.I)
	case Double:
		fmt.Fprintf(sb, "double:%016x", v.D)
	case Binary:
		if len(v.B) > 64 {
			fmt.Fprintf(sb, "binary[%d]:%s..", len(v.B), hex.EncodeToString(v.B[:16]))
			h := uint64(14695981039346656037)
			for _, c := range v.B {
				h = (h ^ uint64(c)) * 1099511628211
			}
			fmt.Fprintf(sb, "#%x", h)
		} else {
			fmt.Fprintf(sb, "binary:%s", hex.EncodeToString(v.B))
		}
	case Struct:
		sb.WriteString("{")
		for i, f := range v.Fields {
			if i > 0 {
				sb.WriteString(",")
			}
			fmt.Fprintf(sb, "%d=", f.ID)
			f.V.key(sb)
		}
		sb.WriteString("}")
	case Map:
		fmt.Fprintf(sb, "map<%s,%s>[", v.KT, v.VT)
		for i, it := range v.Items {
			if i > 0 {
				if i%2 == 1 {
					sb.WriteString("->")
				} else {
					sb.WriteString(",")
				}
			}
			it.key(sb)
		}
		sb.WriteString("]")
	case Set, List:
		fmt.Fprintf(sb, "%s<%s>[", v.T, v.VT)
		for i, it := range v.Items {
			if i > 0 {
				sb.WriteString(",")
			}
			it.key(sb)
		}
		sb.WriteString("]")
	default:
		fmt.Fprintf(sb, "?%d", v.T)
	}
}

// Envelope is an RPC message envelope.
type Envelope struct {
	Name  []byte
	Type  int8 // 1 call, 2 reply, 3 exception, 4 oneway
	SeqID int32
}

// EncodeStrict encodes a versioned envelope header (version 1) followed by body.
func EncodeStrict(e Envelope, body []byte) []byte {
	var b []byte
	b = be(b, uint64(0x80010000)|uint64(uint8(e.Type)), 4)
	b = be(b, uint64(len(e.Name)), 4)
	b = append(b, e.Name...)
	b = be(b, uint64(uint32(e.SeqID)), 4)
	return append(b, body...)
}

// EncodeLegacy encodes an unversioned envelope header followed by body.
func EncodeLegacy(e Envelope, body []byte) []byte {
	var b []byte
	b = be(b, uint64(len(e.Name)), 4)
	b = append(b, e.Name...)
	b = append(b, byte(e.Type))
	b = be(b, uint64(uint32(e.SeqID)), 4)
	return append(b, body...)
}

// Framing kinds.
const (
	FramingStrict = "strict"
	FramingLegacy = "legacy"
	FramingBare   = "bare"
)

// DecodeEnvelope parses a strict or legacy envelope header, returning the
// envelope, framing, and offset of the body.
func DecodeEnvelope(b []byte) (Envelope, string, int, error) {
	var e Envelope
	x, err := rd(b, 0, 4)
	if err != nil {
		return e, "", 0, err
	}
	first := int32(x)
	if first < 0 {
		if uint32(x)&0xffff0000 != 0x80010000 {
			return e, "", 0, fmt.Errorf("tbin: bad version %08x", x)
		}
		e.Type = int8(x & 0xff)
		l, err := rd(b, 4, 4)
		if err != nil {
			return e, "", 0, err
		}
		if int32(l) < 0 {
			return e, "", 0, errors.New("tbin: negative name length")
		}
		off := 8
		if off+int(l) > len(b) {
			return e, "", 0, ErrShort
		}
		e.Name = append([]byte{}, b[off:off+int(l)]...)
		off += int(l)
		s, err := rd(b, off, 4)
		if err != nil {
			return e, "", 0, err
		}
		e.SeqID = int32(s)
		return e, FramingStrict, off + 4, nil
	}
	off := 4
	if off+int(first) > len(b) {
		return e, "", 0, ErrShort
	}
	e.Name = append([]byte{}, b[off:off+int(first)]...)
	off += int(first)
	t, err := rd(b, off, 1)
	if err != nil {
		return e, "", 0, err
	}
	e.Type = int8(t)
	s, err := rd(b, off+1, 4)
	if err != nil {
		return e, "", 0, err
	}
	e.SeqID = int32(s)
	return e, FramingLegacy, off + 5, nil
}
