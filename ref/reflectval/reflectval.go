// Package reflectval converts between logical values (ref/schema) and values
// of generated Go types by reflection only: struct fields by name, pointers
// for optionals, map[T]struct{} or slices for sets, []struct{Key;Value} for
// maps with unhashable keys, named types for typedefs and enums. It gives an
// observation of generated values that is independent of both the product's
// encoder and its decoder.
package reflectval

import (
	"fmt"
	"math"
	"reflect"

	"verif/ref/schema"
)

// Conv converts values of one program.
type Conv struct {
	P *schema.Program
}

// ErrShape is returned when the Go type does not have the expected shape.
type ErrShape struct{ Msg string }

func (e ErrShape) Error() string { return e.Msg }

func shape(format string, a ...interface{}) error { return ErrShape{fmt.Sprintf(format, a...)} }

// FromLogical builds a Go value of type rt from v (nil = unset).
func (c *Conv) FromLogical(f *schema.File, t *schema.Type, v *schema.Val, rt reflect.Type) (rv reflect.Value, err error) {
	defer func() {
		if r := recover(); r != nil {
			err = shape("reflect panic building %s as %v: %v", t.IDL(), rt, r)
		}
	}()
	return c.from(f, t, v, rt)
}

func (c *Conv) from(f *schema.File, t *schema.Type, v *schema.Val, rt reflect.Type) (reflect.Value, error) {
	if v == nil {
		return reflect.Zero(rt), nil
	}
	if rt.Kind() == reflect.Ptr {
		e, err := c.from(f, t, v, rt.Elem())
		if err != nil {
			return reflect.Value{}, err
		}
		p := reflect.New(rt.Elem())
		p.Elem().Set(e)
		return p, nil
	}
	st, d, g := c.P.Resolve(f, t)
	out := reflect.New(rt).Elem()
	switch {
	case d != nil && d.Kind == "enum":
		if rt.Kind() != reflect.Int32 {
			return out, shape("enum %s is %v", d.Name, rt)
		}
		out.SetInt(v.I)
		return out, nil
	case d != nil:
		if rt.Kind() != reflect.Struct {
			return out, shape("struct %s is %v", d.Name, rt)
		}
		for _, fd := range d.Fields {
			sf := out.FieldByName(fd.GoIdent())
			if !sf.IsValid() {
				return out, shape("generated struct %v has no field %s", rt, fd.Name)
			}
			fv, err := c.from(g, fd.Type, v.Fields[fd.Name], sf.Type())
			if err != nil {
				return out, err
			}
			sf.Set(fv)
		}
		return out, nil
	}
	switch st.K {
	case schema.Bool:
		out.SetBool(v.I != 0)
	case schema.I8, schema.I16, schema.I32, schema.I64:
		out.SetInt(v.I)
	case schema.Double:
		out.SetFloat(math.Float64frombits(v.D))
	case schema.String:
		out.SetString(string(v.S))
	case schema.Binary:
		b := reflect.MakeSlice(rt, len(v.S), len(v.S))
		reflect.Copy(b, reflect.ValueOf(append([]byte{}, v.S...)))
		return b, nil
	case schema.List:
		if rt.Kind() != reflect.Slice {
			return out, shape("list is %v", rt)
		}
		s := reflect.MakeSlice(rt, 0, len(v.Items))
		for i := range v.Items {
			e, err := c.from(g, st.Elem, &v.Items[i], rt.Elem())
			if err != nil {
				return out, err
			}
			s = reflect.Append(s, e)
		}
		return s, nil
	case schema.Set:
		switch rt.Kind() {
		case reflect.Map:
			m := reflect.MakeMapWithSize(rt, len(v.Items))
			for i := range v.Items {
				e, err := c.from(g, st.Elem, &v.Items[i], rt.Key())
				if err != nil {
					return out, err
				}
				m.SetMapIndex(e, reflect.Zero(rt.Elem()))
			}
			return m, nil
		case reflect.Slice:
			s := reflect.MakeSlice(rt, 0, len(v.Items))
			for i := range v.Items {
				e, err := c.from(g, st.Elem, &v.Items[i], rt.Elem())
				if err != nil {
					return out, err
				}
				s = reflect.Append(s, e)
			}
			return s, nil
		}
		return out, shape("set is %v", rt)
	case schema.Map:
		switch rt.Kind() {
		case reflect.Map:
			m := reflect.MakeMapWithSize(rt, len(v.Items)/2)
			for i := 0; i+1 < len(v.Items); i += 2 {
				k, err := c.from(g, st.Key, &v.Items[i], rt.Key())
				if err != nil {
					return out, err
				}
				x, err := c.from(g, st.Elem, &v.Items[i+1], rt.Elem())
				if err != nil {
					return out, err
				}
				m.SetMapIndex(k, x)
			}
			return m, nil
		case reflect.Slice:
			et := rt.Elem()
			if et.Kind() != reflect.Struct {
				return out, shape("map is %v", rt)
			}
			s := reflect.MakeSlice(rt, 0, len(v.Items)/2)
			for i := 0; i+1 < len(v.Items); i += 2 {
				item := reflect.New(et).Elem()
				kf, vf := item.FieldByName("Key"), item.FieldByName("Value")
				if !kf.IsValid() || !vf.IsValid() {
					return out, shape("map item %v has no Key/Value", et)
				}
				k, err := c.from(g, st.Key, &v.Items[i], kf.Type())
				if err != nil {
					return out, err
				}
				x, err := c.from(g, st.Elem, &v.Items[i+1], vf.Type())
				if err != nil {
					return out, err
				}
				kf.Set(k)
				vf.Set(x)
				s = reflect.Append(s, item)
			}
			return s, nil
		}
		return out, shape("map is %v", rt)
	}
	return out, nil
}

// ToLogical converts a Go value to a logical value (nil = unset / nil).
func (c *Conv) ToLogical(f *schema.File, t *schema.Type, rv reflect.Value) (v *schema.Val, err error) {
	defer func() {
		if r := recover(); r != nil {
			err = shape("reflect panic reading %s from %v: %v", t.IDL(), rv.Type(), r)
		}
	}()
	return c.to(f, t, rv)
}

// elem converts a container element: a nil slice/map element is an empty
// container (elements cannot be unset), any other nil is an error at the caller.
func (c *Conv) elem(f *schema.File, t *schema.Type, rv reflect.Value) (*schema.Val, error) {
	v, err := c.to(f, t, rv)
	if err != nil || v != nil {
		return v, err
	}
	switch rv.Kind() {
	case reflect.Slice, reflect.Map:
		st, d, _ := c.P.Resolve(f, t)
		if d == nil && (st.K == schema.List || st.K == schema.Set || st.K == schema.Map || st.K == schema.Binary) {
			if st.K == schema.Binary {
				return &schema.Val{S: []byte{}}, nil
			}
			return &schema.Val{Items: []schema.Val{}}, nil
		}
	}
	return nil, nil
}

func (c *Conv) to(f *schema.File, t *schema.Type, rv reflect.Value) (*schema.Val, error) {
	if rv.Kind() == reflect.Ptr {
		if rv.IsNil() {
			return nil, nil
		}
		return c.to(f, t, rv.Elem())
	}
	st, d, g := c.P.Resolve(f, t)
	switch {
	case d != nil && d.Kind == "enum":
		return &schema.Val{I: rv.Int()}, nil
	case d != nil:
		if rv.Kind() != reflect.Struct {
			return nil, shape("struct %s is %v", d.Name, rv.Type())
		}
		out := schema.Rec(nil)
		for _, fd := range d.Fields {
			sf := rv.FieldByName(fd.GoIdent())
			if !sf.IsValid() {
				return nil, shape("generated struct %v has no field %s", rv.Type(), fd.Name)
			}
			fv, err := c.to(g, fd.Type, sf)
			if err != nil {
				return nil, err
			}
			if fv != nil {
				out.Fields[fd.Name] = fv
			}
		}
		return out, nil
	}
	switch st.K {
	case schema.Bool:
		if rv.Bool() {
			return &schema.Val{I: 1}, nil
		}
		return &schema.Val{I: 0}, nil
	case schema.I8, schema.I16, schema.I32, schema.I64:
		return &schema.Val{I: rv.Int()}, nil
	case schema.Double:
		return &schema.Val{D: math.Float64bits(rv.Float())}, nil
	case schema.String:
		return &schema.Val{S: []byte(rv.String())}, nil
	case schema.Binary:
		if rv.IsNil() {
			return nil, nil
		}
		return &schema.Val{S: append([]byte{}, rv.Bytes()...)}, nil
	case schema.List:
		if rv.IsNil() {
			return nil, nil
		}
		out := &schema.Val{Items: []schema.Val{}}
		for i := 0; i < rv.Len(); i++ {
			e, err := c.elem(g, st.Elem, rv.Index(i))
			if err != nil {
				return nil, err
			}
			if e == nil {
				return nil, shape("nil element in list")
			}
			out.Items = append(out.Items, *e)
		}
		return out, nil
	case schema.Set:
		if rv.IsNil() {
			return nil, nil
		}
		out := &schema.Val{Items: []schema.Val{}}
		if rv.Kind() == reflect.Map {
			for _, k := range rv.MapKeys() {
				e, err := c.elem(g, st.Elem, k)
				if err != nil {
					return nil, err
				}
				out.Items = append(out.Items, *e)
			}
			return out, nil
		}
		for i := 0; i < rv.Len(); i++ {
			e, err := c.elem(g, st.Elem, rv.Index(i))
			if err != nil {
				return nil, err
			}
			if e == nil {
				return nil, shape("nil element in set")
			}
			out.Items = append(out.Items, *e)
		}
		return out, nil
	case schema.Map:
		if rv.IsNil() {
			return nil, nil
		}
		out := &schema.Val{Items: []schema.Val{}}
		if rv.Kind() == reflect.Map {
			it := rv.MapRange()
			for it.Next() {
				k, err := c.elem(g, st.Key, it.Key())
				if err != nil {
					return nil, err
				}
				x, err := c.elem(g, st.Elem, it.Value())
				if err != nil {
					return nil, err
				}
				if k == nil || x == nil {
					return nil, shape("nil key or value in map")
				}
				out.Items = append(out.Items, *k, *x)
			}
			return out, nil
		}
		for i := 0; i < rv.Len(); i++ {
			item := rv.Index(i)
			k, err := c.elem(g, st.Key, item.FieldByName("Key"))
			if err != nil {
				return nil, err
			}
			x, err := c.elem(g, st.Elem, item.FieldByName("Value"))
			if err != nil {
				return nil, err
			}
			if k == nil || x == nil {
				return nil, shape("nil key or value in map")
			}
			out.Items = append(out.Items, *k, *x)
		}
		return out, nil
	}
	return nil, shape("unknown kind")
}

// Scramble overwrites, in place, everything reachable from v that could be shared:
// slice elements, map entries, bytes, pointed-to values.
func Scramble(v reflect.Value) { scramble(v, 0) }

func scramble(v reflect.Value, depth int) {
	if depth > 6 || !v.IsValid() {
		return
	}
	switch v.Kind() {
	case reflect.Ptr:
		if !v.IsNil() {
			scramble(v.Elem(), depth+1)
		}
	case reflect.Struct:
		for i := 0; i < v.NumField(); i++ {
			if v.Field(i).CanSet() {
				scramble(v.Field(i), depth+1)
			}
		}
	case reflect.Slice:
		for i := 0; i < v.Len(); i++ {
			el := v.Index(i)
			scramble(el, depth+1)
			switch el.Kind() {
			case reflect.Uint8:
				el.SetUint(uint64(el.Uint()) ^ 0x5a)
			case reflect.Int8, reflect.Int16, reflect.Int32, reflect.Int64:
				el.SetInt(el.Int() ^ 0x2a)
			case reflect.String:
				el.SetString(el.String() + "~")
			case reflect.Float64:
				el.SetFloat(el.Float() + 1)
			case reflect.Bool:
				el.SetBool(!el.Bool())
			}
		}
	case reflect.Map:
		if v.IsNil() {
			return
		}
		for _, k := range v.MapKeys() {
			v.SetMapIndex(k, reflect.Value{}) // delete
		}
		if v.Type().Key().Kind() == reflect.String {
			v.SetMapIndex(reflect.ValueOf("scrambled").Convert(v.Type().Key()), reflect.Zero(v.Type().Elem()))
		} else {
			v.SetMapIndex(reflect.Zero(v.Type().Key()), reflect.Zero(v.Type().Elem()))
		}
	case reflect.Int8, reflect.Int16, reflect.Int32, reflect.Int64:
		if v.CanSet() {
			v.SetInt(v.Int() ^ 0x15)
		}
	case reflect.String:
		if v.CanSet() {
			v.SetString(v.String() + "~")
		}
	}
}
