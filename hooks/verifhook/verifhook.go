//go:build verif

// Package verifhook re-exports internal packages of thriftrw so that the
// external verification module can drive them. It exists only in the build
// overlay generated under /verif (it is never committed to the repository)
// and only under the "verif" build tag. Only exported identifiers of the
// internal packages are used.
package verifhook

import (
	"io"

	"go.uber.org/thriftrw/internal/compare"
	"go.uber.org/thriftrw/internal/concurrent"
	"go.uber.org/thriftrw/internal/envelope"
	"go.uber.org/thriftrw/internal/frame"
	"go.uber.org/thriftrw/internal/git"
	"go.uber.org/thriftrw/internal/multiplex"
	"go.uber.org/thriftrw/internal/plugin"
	"go.uber.org/thriftrw/protocol"
)

// internal/frame
type (
	FrameClient  = frame.Client
	FrameServer  = frame.Server
	FrameReader  = frame.Reader
	FrameWriter  = frame.Writer
	FrameHandler = frame.Handler
)

func NewFrameClient(w io.Writer, r io.Reader) *frame.Client { return frame.NewClient(w, r) }
func NewFrameServer(r io.Reader, w io.Writer) *frame.Server { return frame.NewServer(r, w) }
func NewFrameReader(r io.Reader) *frame.Reader              { return frame.NewReader(r) }
func NewFrameWriter(w io.Writer) *frame.Writer              { return frame.NewWriter(w) }

// internal/envelope
type (
	EnvelopeTransport = envelope.Transport
	EnvelopeClient    = envelope.Client
	EnvelopeHandler   = envelope.Handler
	EnvelopeServer    = envelope.Server
	// EnvelopeErrUnknownMethod is what a handler returns for a method it does not know.
	EnvelopeErrUnknownMethod = envelope.ErrUnknownMethod
)

func NewEnvelopeClient(p protocol.Protocol, t envelope.Transport) envelope.Client {
	return envelope.NewClient(p, t)
}
func NewEnvelopeServer(p protocol.Protocol, h envelope.Handler) envelope.Server {
	return envelope.NewServer(p, h)
}

// internal/multiplex
type MultiplexHandler = multiplex.Handler

func NewMultiplexHandler() multiplex.Handler { return multiplex.NewHandler() }
func NewMultiplexClient(name string, c envelope.Client) envelope.Client {
	return multiplex.NewClient(name, c)
}

// internal/plugin
type (
	PluginHandle                = plugin.Handle
	PluginServiceGenerator      = plugin.ServiceGenerator
	PluginMultiHandle           = plugin.MultiHandle
	PluginMultiServiceGenerator = plugin.MultiServiceGenerator
	PluginFlag                  = plugin.Flag
	PluginFlags                 = plugin.Flags
)

func NewTransportHandle(name string, t envelope.Transport) (plugin.Handle, error) {
	return plugin.NewTransportHandle(name, t)
}

var EmptyHandle = plugin.EmptyHandle

// internal/concurrent
func ConcurrentRange(coll, fn interface{}) error { return concurrent.Range(coll, fn) }

// internal/compare, internal/git
type (
	ComparePass       = compare.Pass
	CompareDiagnostic = compare.Diagnostic
)

func GitCompare(path string) (compare.Pass, error) { return git.Compare(path) }
