//go:build verif

// Package vlog replaces package log where a Fatal call would kill the
// in-process harness: Fatalf panics with a Fatal value instead of exiting.
package vlog

import (
	"fmt"
	"log"
)

// Fatal is the panic value raised by Fatalf.
type Fatal struct{ Msg string }

// Fatalf panics with Fatal.
func Fatalf(format string, a ...interface{}) { panic(Fatal{fmt.Sprintf(format, a...)}) }

// Fatal panics with Fatal.
func FatalLn(a ...interface{}) { panic(Fatal{fmt.Sprint(a...)}) }

// Panicf behaves like log.Panicf.
func Panicf(format string, a ...interface{}) { log.Panicf(format, a...) }

// Printf behaves like log.Printf.
func Printf(format string, a ...interface{}) { log.Printf(format, a...) }

// SetFlags behaves like log.SetFlags.
func SetFlags(f int) { log.SetFlags(f) }
