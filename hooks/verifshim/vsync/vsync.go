//go:build verif

// Package vsync provides drop-in replacements for the parts of package sync
// that thriftrw uses (Mutex, WaitGroup, Once, Pool). Under a controlled
// execution (vsched.Active) every operation is a scheduling point and
// blocking is modelled exactly; otherwise they behave like the originals.
package vsync

import (
	"sync"

	"go.uber.org/thriftrw/verifshim/vsched"
)

// Locker mirrors sync.Locker.
type Locker = sync.Locker

// Mutex replaces sync.Mutex.
type Mutex struct {
	real sync.Mutex
	held bool
}

// Lock locks m.
func (m *Mutex) Lock() {
	if !vsched.Active() {
		m.real.Lock()
		return
	}
	vsched.Point("Mutex.Lock")
	if m.held {
		vsched.Block(func() bool { return !m.held }, "Mutex.Lock")
	}
	m.held = true
}

// Unlock unlocks m.
func (m *Mutex) Unlock() {
	if !vsched.Active() {
		m.real.Unlock()
		return
	}
	if !m.held {
		panic("vsync: unlock of unlocked mutex")
	}
	m.held = false
	vsched.Point("Mutex.Unlock")
}

// WaitGroup replaces sync.WaitGroup.
type WaitGroup struct {
	real sync.WaitGroup
	n    int
}

// Add adds delta.
func (w *WaitGroup) Add(delta int) {
	if !vsched.Active() {
		w.real.Add(delta)
		return
	}
	w.n += delta
	if w.n < 0 {
		panic("vsync: negative WaitGroup counter")
	}
	vsched.Point("WaitGroup.Add")
}

// Done decrements the counter.
func (w *WaitGroup) Done() { w.Add(-1) }

// Wait blocks until the counter is zero.
func (w *WaitGroup) Wait() {
	if !vsched.Active() {
		w.real.Wait()
		return
	}
	vsched.Point("WaitGroup.Wait")
	if w.n > 0 {
		vsched.Block(func() bool { return w.n == 0 }, "WaitGroup.Wait")
	}
}

// Once replaces sync.Once.
type Once struct {
	real sync.Once
	done bool
	m    Mutex
}

// Do runs f once.
func (o *Once) Do(f func()) {
	if !vsched.Active() {
		o.real.Do(f)
		return
	}
	o.m.Lock()
	defer o.m.Unlock()
	if !o.done {
		o.done = true
		f()
	}
}

// Pool replaces sync.Pool. Get is a choice point over the pool's legal
// answers: a fresh object from New (a real pool may drop items at any time),
// or any object currently in the pool.
type Pool struct {
	New func() interface{}

	items      []interface{}
	registered bool
	real       sync.Pool
	name       string
}

var (
	pools []*Pool
	// PoolChooser picks the answer of a Get: n alternatives, 0 = default
	// (most recently put object, or New when the pool is empty), 1..k-1 = the
	// other pooled objects from newest to oldest, k = New.
	PoolChooser func(n int, label string) int
	// Gets, Recycled, CrossThread are vacuity counters.
	Gets, Recycled int
	// DoublePut counts Puts of an object that is already in the pool.
	DoublePut int
)

// ResetPools empties every pool seen so far and the counters.
func ResetPools() {
	for _, p := range pools {
		p.items = nil
	}
	Gets, Recycled, DoublePut = 0, 0, 0
}

func (p *Pool) register() {
	if !p.registered {
		p.registered = true
		pools = append(pools, p)
	}
}

// Get returns an object from the pool.
func (p *Pool) Get() interface{} {
	p.register()
	if vsched.Active() {
		vsched.Point("Pool.Get")
	}
	Gets++
	n := len(p.items)
	if n == 0 {
		if p.New == nil {
			return nil
		}
		return p.New()
	}
	alt := 0
	if PoolChooser != nil {
		k := n + 1
		if p.New == nil {
			k = n
		}
		alt = PoolChooser(k, "Pool.Get")
	}
	if alt >= n {
		return p.New()
	}
	idx := n - 1 - alt
	x := p.items[idx]
	p.items = append(p.items[:idx], p.items[idx+1:]...)
	Recycled++
	return x
}

// Put adds x to the pool.
func (p *Pool) Put(x interface{}) {
	p.register()
	if vsched.Active() {
		vsched.Point("Pool.Put")
	}
	if x == nil {
		return
	}
	for _, y := range p.items {
		if y == x {
			DoublePut++
		}
	}
	p.items = append(p.items, x)
}
