//go:build verif

// Package vio provides harness-supplied I/O objects whose operations are
// scheduling points of the controlled execution.
package vio

import (
	"errors"
	"io"

	"go.uber.org/thriftrw/verifshim/vsched"
)

// Pipe is a unidirectional in-memory byte pipe with an unbounded buffer.
// Read blocks (disables the thread) until data is available or the pipe is
// closed.
type Pipe struct {
	buf      []byte
	wclosed  bool
	rclosed  bool
	Name     string
	Written  int
	ReadOps  int
	WriteOps int
	// MaxRead, if >0, caps the bytes returned by one Read (segmentation).
	MaxRead int
}

// ErrClosed is returned when writing to a pipe whose read end is closed.
var ErrClosed = errors.New("vio: write on closed pipe")

// Read implements io.Reader.
func (p *Pipe) Read(b []byte) (int, error) {
	p.ReadOps++
	if vsched.Active() {
		vsched.Point("Pipe.Read:" + p.Name)
		if len(p.buf) == 0 && !p.wclosed && !p.rclosed {
			vsched.Block(func() bool { return len(p.buf) > 0 || p.wclosed || p.rclosed }, "Pipe.Read:"+p.Name)
		}
	}
	if p.rclosed {
		return 0, io.ErrClosedPipe
	}
	if len(p.buf) == 0 {
		if p.wclosed {
			return 0, io.EOF
		}
		return 0, nil
	}
	n := len(b)
	if n > len(p.buf) {
		n = len(p.buf)
	}
	if p.MaxRead > 0 && n > p.MaxRead {
		n = p.MaxRead
	}
	copy(b, p.buf[:n])
	p.buf = p.buf[n:]
	return n, nil
}

// Write implements io.Writer.
func (p *Pipe) Write(b []byte) (int, error) {
	p.WriteOps++
	if vsched.Active() {
		vsched.Point("Pipe.Write:" + p.Name)
	}
	if p.rclosed || p.wclosed {
		return 0, ErrClosed
	}
	p.buf = append(p.buf, b...)
	p.Written += len(b)
	return len(b), nil
}

// CloseWrite closes the write end (readers see EOF after draining).
func (p *Pipe) CloseWrite() error {
	if vsched.Active() {
		vsched.Point("Pipe.CloseWrite:" + p.Name)
	}
	p.wclosed = true
	return nil
}

// CloseRead closes the read end (writers fail).
func (p *Pipe) CloseRead() error {
	if vsched.Active() {
		vsched.Point("Pipe.CloseRead:" + p.Name)
	}
	p.rclosed = true
	return nil
}

// WriteClosed reports whether the write end was closed.
func (p *Pipe) WriteClosed() bool { return p.wclosed }

// ReadClosed reports whether the read end was closed.
func (p *Pipe) ReadClosed() bool { return p.rclosed }

// WriteEnd adapts a pipe's write end to io.WriteCloser.
type WriteEnd struct{ P *Pipe }

// Write implements io.Writer.
func (w WriteEnd) Write(b []byte) (int, error) { return w.P.Write(b) }

// Close closes the write end.
func (w WriteEnd) Close() error { return w.P.CloseWrite() }

// ReadEnd adapts a pipe's read end to io.ReadCloser.
type ReadEnd struct{ P *Pipe }

// Read implements io.Reader.
func (r ReadEnd) Read(b []byte) (int, error) { return r.P.Read(b) }

// Close closes the read end.
func (r ReadEnd) Close() error { return r.P.CloseRead() }

// YieldWriter inserts a scheduling point before every Write to W.
type YieldWriter struct{ W io.Writer }

// Write implements io.Writer.
func (y YieldWriter) Write(b []byte) (int, error) {
	vsched.Point("Write")
	return y.W.Write(b)
}

// YieldReader inserts a scheduling point before every Read from R.
type YieldReader struct{ R io.Reader }

// Read implements io.Reader.
func (y YieldReader) Read(b []byte) (int, error) {
	vsched.Point("Read")
	return y.R.Read(b)
}

// YieldReaderAt inserts a scheduling point before every ReadAt.
type YieldReaderAt struct{ R io.ReaderAt }

// ReadAt implements io.ReaderAt.
func (y YieldReaderAt) ReadAt(b []byte, off int64) (int, error) {
	vsched.Point("ReadAt")
	return y.R.ReadAt(b, off)
}
