//go:build verif

// Package vmap makes the iteration order of every rewritten
// `for k, v := range m` (m a map) an explicit choice of the explorer. It is
// added to the thriftrw module by the verification build overlay only.
package vmap

import (
	"fmt"
	"reflect"
	"sort"
)

// Chooser returns the index of the order alternative to use for a map with n
// keys at the given site; 0 is the canonical (sorted) order. nAlts is the
// number of alternatives available (see Alternatives).
var Chooser func(site string, n, nAlts int) int

// Sites records every site reached since the last Reset with the largest n.
var Sites = map[string]int{}

// NonDefault counts range executions that used a non-canonical order.
var NonDefault int

// Reset clears the per-execution state.
func Reset() {
	Chooser = nil
	NonDefault = 0
	for k := range Sites {
		delete(Sites, k)
	}
}

// Alternatives is the number of order alternatives offered for n keys:
// all n! permutations for n <= 4; beyond that the generating set
// {identity, reverse, n-1 rotations, n-1 adjacent transpositions}.
func Alternatives(n int) int {
	switch {
	case n <= 1:
		return 1
	case n <= 4:
		f := 1
		for i := 2; i <= n; i++ {
			f *= i
		}
		return f
	}
	return 2 + 2*(n-1)
}

// Perm returns alternative alt for n keys as a permutation of 0..n-1.
func Perm(n, alt int) []int {
	p := make([]int, n)
	for i := range p {
		p[i] = i
	}
	if alt == 0 || n <= 1 {
		return p
	}
	if n <= 4 {
		// alt-th permutation in lexicographic order
		items := append([]int{}, p...)
		f := 1
		for i := 2; i < n; i++ {
			f *= i
		}
		k := alt
		out := make([]int, 0, n)
		for i := n - 1; i >= 0; i-- {
			idx := k / f
			k %= f
			out = append(out, items[idx])
			items = append(items[:idx], items[idx+1:]...)
			if i > 0 {
				f /= i
			}
		}
		return out
	}
	switch {
	case alt == 1: // reverse
		for i := range p {
			p[i] = n - 1 - i
		}
	case alt < 1+n: // rotation by alt-1 (1..n-1)
		r := alt - 1
		for i := range p {
			p[i] = (i + r) % n
		}
	default: // adjacent transposition
		t := alt - (1 + n)
		p[t], p[t+1] = p[t+1], p[t]
	}
	return p
}

func less(a, b reflect.Value) bool {
	switch a.Kind() {
	case reflect.String:
		return a.String() < b.String()
	case reflect.Int, reflect.Int8, reflect.Int16, reflect.Int32, reflect.Int64:
		return a.Int() < b.Int()
	case reflect.Uint, reflect.Uint8, reflect.Uint16, reflect.Uint32, reflect.Uint64:
		return a.Uint() < b.Uint()
	case reflect.Bool:
		return !a.Bool() && b.Bool()
	case reflect.Float32, reflect.Float64:
		return a.Float() < b.Float()
	}
	panic(fmt.Sprintf("vmap: map key kind %v has no canonical order; the range rewrite cannot own this site", a.Kind()))
}

// Keys returns the keys of m in the order chosen for this execution.
func Keys[M ~map[K]V, K comparable, V any](m M, site string) []K {
	n := len(m)
	keys := make([]K, 0, n)
	for k := range m {
		keys = append(keys, k)
	}
	if n > 1 {
		sort.Slice(keys, func(i, j int) bool { return less(reflect.ValueOf(keys[i]), reflect.ValueOf(keys[j])) })
	}
	if n > Sites[site] {
		Sites[site] = n
	}
	if n <= 1 || Chooser == nil {
		return keys
	}
	alt := Chooser(site, n, Alternatives(n))
	if alt == 0 {
		return keys
	}
	NonDefault++
	p := Perm(n, alt)
	out := make([]K, n)
	for i, j := range p {
		out[i] = keys[j]
	}
	return out
}
