//go:build verif

package vmap

import (
	"fmt"
	"os"
	"strconv"
	"strings"
)

// A process built with the range rewrite can be driven from outside: when
// VERIF_VMAP_TRACE names a file, every order choice is answered from the vector
// in VERIF_VMAP_PREFIX (comma separated; 0 beyond its end) and appended to that
// file as "<alternatives> <site>" so that the driver can replay the points into
// its explorer. Used for the real thriftrw command (C10 CLI family).
func init() {
	trace := os.Getenv("VERIF_VMAP_TRACE")
	if trace == "" {
		return
	}
	var prefix []int
	for _, f := range strings.Split(os.Getenv("VERIF_VMAP_PREFIX"), ",") {
		if f == "" {
			continue
		}
		n, err := strconv.Atoi(f)
		if err != nil {
			panic("vmap: bad VERIF_VMAP_PREFIX")
		}
		prefix = append(prefix, n)
	}
	out, err := os.OpenFile(trace, os.O_CREATE|os.O_WRONLY|os.O_APPEND, 0o644)
	if err != nil {
		panic("vmap: " + err.Error())
	}
	i := 0
	Chooser = func(site string, n, nAlts int) int {
		ch := 0
		if i < len(prefix) {
			ch = prefix[i]
		}
		i++
		if ch >= nAlts {
			fmt.Fprintf(out, "DIVERGED %d %s\n", nAlts, site)
			os.Exit(97)
		}
		fmt.Fprintf(out, "%d %s\n", nAlts, site)
		return ch
	}
}
