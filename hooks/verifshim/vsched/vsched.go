//go:build verif

// Package vsched is E2: a cooperative scheduler for controlled execution of
// concurrent code. Managed goroutines run one at a time and hand a baton over
// at scheduling points; which enabled goroutine runs next is decided by the
// Chooser the harness installs (the explorer). It is added to the thriftrw
// module by the verification build overlay only.
package vsched

import (
	"fmt"
	"runtime"
	"sync"
)

// Decision describes one scheduling point to the chooser.
type Decision struct {
	Label   string
	Enabled []int // thread ids in canonical order: the running thread first if still enabled, then ascending ids
	Running int   // id of the thread that reached the point
	// RunningEnabled: the running thread could continue; choosing another
	// thread is then a preemption.
	RunningEnabled bool
}

type thread struct {
	id      int
	wake    chan struct{}
	done    bool
	blocked func() bool // nil = runnable; else runnable when it returns true
	label   string
}

// Sched is one controlled execution.
type Sched struct {
	mu       sync.Mutex
	threads  []*thread
	cur      *thread
	choose   func(Decision) int
	steps    int
	Horizon  int
	finished chan struct{}
	ended    bool
	// results
	Deadlock    bool
	Livelock    bool
	DeadlockMsg string
	Panic       interface{}
	PanicThread int
	Trace       []string // labels of the points executed (bounded)
}

var current *Sched

// Active reports whether the calling code runs under a controlled execution.
func Active() bool { return current != nil }

// Run executes main as thread 0 under the scheduler and returns when all
// threads finished, a deadlock was detected, or the horizon was exceeded.
func Run(main func(), choose func(Decision) int, horizon int) *Sched {
	s := &Sched{choose: choose, Horizon: horizon, finished: make(chan struct{})}
	if horizon <= 0 {
		s.Horizon = 20000
	}
	current = s
	t := &thread{id: 0, wake: make(chan struct{}, 1)}
	s.threads = append(s.threads, t)
	s.cur = t
	go s.body(t, main)
	t.wake <- struct{}{}
	<-s.finished
	current = nil
	return s
}

func (s *Sched) body(t *thread, f func()) {
	<-t.wake
	if s.ended {
		return
	}
	defer func() {
		if r := recover(); r != nil {
			if _, isAbort := r.(abort); !isAbort && s.Panic == nil {
				s.Panic = r
				s.PanicThread = t.id
				buf := make([]byte, 2048)
				n := runtime.Stack(buf, false)
				s.DeadlockMsg = string(buf[:n])
			}
			if _, isAbort := r.(abort); isAbort {
				return
			}
		}
		t.done = true
		s.next(t, "exit")
	}()
	f()
}

type abort struct{}

// Go spawns f as a new managed thread (replacement for the go statement).
func Go(f func()) {
	s := current
	if s == nil {
		go f()
		return
	}
	t := &thread{id: len(s.threads), wake: make(chan struct{}, 1)}
	s.threads = append(s.threads, t)
	go s.body(t, f)
	Point("spawn")
}

// Point is a scheduling point.
func Point(label string) {
	s := current
	if s == nil {
		return
	}
	s.next(s.cur, label)
}

// Block parks the calling thread until cond() holds (evaluated by the
// scheduler while no thread runs).
func Block(cond func() bool, label string) {
	s := current
	if s == nil {
		panic("vsched.Block outside a controlled execution: " + label)
	}
	t := s.cur
	if cond() {
		return
	}
	t.blocked = cond
	t.label = label
	s.next(t, "block:"+label)
}

func (s *Sched) enabled(t *thread) bool {
	if t.done {
		return false
	}
	if t.blocked == nil {
		return true
	}
	// The condition is re-evaluated at every scheduling point and cleared only
	// for the thread that is actually chosen (see next): two threads waiting
	// for the same mutex are both enabled when it is released, but only the
	// one that runs first may proceed.
	return t.blocked()
}

func (s *Sched) end() {
	if !s.ended {
		s.ended = true
		close(s.finished)
	}
}

// next picks the next thread to run; called by the running thread t.
func (s *Sched) next(t *thread, label string) {
	if s.ended {
		if !t.done {
			panic(abort{})
		}
		return
	}
	s.steps++
	if len(s.Trace) < 400 {
		s.Trace = append(s.Trace, fmt.Sprintf("t%d:%s", t.id, label))
	}
	if s.steps > s.Horizon {
		s.Livelock = true
		s.DeadlockMsg = fmt.Sprintf("step horizon %d exceeded", s.Horizon)
		s.end()
		if !t.done {
			panic(abort{})
		}
		return
	}
	var en []int
	runEn := s.enabled(t)
	if runEn {
		en = append(en, t.id)
	}
	for _, o := range s.threads {
		if o != t && s.enabled(o) {
			en = append(en, o.id)
		}
	}
	if len(en) == 0 {
		all := true
		var waiting []string
		for _, o := range s.threads {
			if !o.done {
				all = false
				waiting = append(waiting, fmt.Sprintf("t%d waits on %s", o.id, o.label))
			}
		}
		if !all {
			s.Deadlock = true
			s.DeadlockMsg = fmt.Sprint(waiting)
		}
		s.end()
		if !t.done {
			// park forever: this goroutine can never be resumed
			select {}
		}
		return
	}
	idx := 0
	if len(en) > 1 {
		idx = s.choose(Decision{Label: label, Enabled: en, Running: t.id, RunningEnabled: runEn})
	}
	nt := s.threads[en[idx]]
	nt.blocked = nil
	if nt == t {
		return
	}
	s.cur = nt
	nt.wake <- struct{}{}
	if t.done {
		return
	}
	<-t.wake
	if s.ended {
		panic(abort{})
	}
}

// Steps returns the number of scheduling points executed.
func (s *Sched) Steps() int { return s.steps }

// Threads returns the number of threads created.
func (s *Sched) Threads() int { return len(s.threads) }
