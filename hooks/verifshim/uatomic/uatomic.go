//go:build verif

// Package uatomic replaces go.uber.org/atomic's Bool: every operation is
// preceded by a scheduling point, then performed for real.
package uatomic

import (
	"sync/atomic"

	"go.uber.org/thriftrw/verifshim/vsched"
)

// Bool is an atomic boolean.
type Bool struct{ v int32 }

// NewBool creates a Bool.
func NewBool(initial bool) *Bool {
	b := &Bool{}
	if initial {
		b.v = 1
	}
	return b
}

// Load reads the value.
func (b *Bool) Load() bool {
	vsched.Point("atomic.Load")
	return atomic.LoadInt32(&b.v) != 0
}

// Store writes the value.
func (b *Bool) Store(x bool) {
	vsched.Point("atomic.Store")
	var n int32
	if x {
		n = 1
	}
	atomic.StoreInt32(&b.v, n)
}

// Swap writes the value and returns the previous one.
func (b *Bool) Swap(x bool) bool {
	vsched.Point("atomic.Swap")
	var n int32
	if x {
		n = 1
	}
	return atomic.SwapInt32(&b.v, n) != 0
}

// CAS is compare-and-swap.
func (b *Bool) CAS(old, new bool) bool {
	vsched.Point("atomic.CAS")
	var o, n int32
	if old {
		o = 1
	}
	if new {
		n = 1
	}
	return atomic.CompareAndSwapInt32(&b.v, o, n)
}

// Toggle negates the value and returns the previous one.
func (b *Bool) Toggle() bool {
	for {
		old := b.Load()
		if b.CAS(old, !old) {
			return old
		}
	}
}
