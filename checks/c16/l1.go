package c16

import "verif/engine/ev"

// runL1 is the in-process level (filled in by l1_sched.go when built with the
// scheduler overlay).
var runL1 = func(w *ev.W) {}
