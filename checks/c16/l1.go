package c16

// L1: the host's plugin components and the plugin library, in-process under
// the E2 scheduler. Every interleaving (<= 2 preemptions) of the host thread,
// the goroutines of concurrent.Range and the scripted peers is explored.

import (
	"encoding/binary"
	"errors"
	"fmt"
	"io"
	"sort"
	"strings"

	"go.uber.org/thriftrw/plugin"
	"go.uber.org/thriftrw/plugin/api"
	"go.uber.org/thriftrw/verifhook"
	"go.uber.org/thriftrw/verifshim/vio"
	"go.uber.org/thriftrw/verifshim/vlog"
	"go.uber.org/thriftrw/verifshim/vsched"
	"go.uber.org/thriftrw/verifshim/vsync"
	"verif/engine/choice"
	"verif/engine/ev"
	"verif/ref/tbin"
)

type pipeTransport struct {
	c          *verifhook.FrameClient
	toPlugin   *vio.Pipe
	fromPlugin *vio.Pipe
}

func (t *pipeTransport) Send(b []byte) ([]byte, error) { return t.c.Send(b) }
func (t *pipeTransport) Close() error {
	t.toPlugin.CloseWrite()
	t.fromPlugin.CloseRead()
	return nil
}

func readFrameFrom(r io.Reader) ([]byte, error) {
	var l [4]byte
	if _, err := io.ReadFull(r, l[:]); err != nil {
		return nil, err
	}
	b := make([]byte, binary.BigEndian.Uint32(l[:]))
	_, err := io.ReadFull(r, b)
	return b, err
}

func bs(x string) tbin.Value { return tbin.Value{T: tbin.Binary, B: []byte(x)} }

// peer is the in-process scripted plugin: same behaviour as cmd/fakeplugin.
func peer(name string, sc Script, in, out *vio.Pipe, events *[]string) {
	logf := func(f string, a ...interface{}) { *events = append(*events, fmt.Sprintf(f, a...)) }
	die := func() {
		out.CloseWrite()
		in.CloseRead()
		logf("exit 3")
	}
	logf("start")
	if sc.Handshake.Fault == "exit-before-read" {
		die()
		return
	}
	for {
		req, err := readFrameFrom(in)
		if err != nil {
			if err == io.EOF {
				logf("eof")
			} else {
				logf("read-error %v", err)
			}
			out.CloseWrite()
			logf("exit 0")
			return
		}
		env, _, _, derr := tbin.DecodeEnvelope(req)
		if derr != nil {
			logf("bad-request")
			die()
			return
		}
		method := string(env.Name)
		logf("req %s", method)
		var step Step
		var result tbin.Value
		switch method {
		case "Plugin:handshake":
			step = sc.Handshake
			hsName, ver := name, sc.APIVersion
			var features []tbin.Value
			for _, f := range Features(step.Fault) {
				features = append(features, tbin.Value{T: tbin.I32, I: f})
			}
			switch step.Fault {
			case "wrong-name":
				hsName = name + "-impostor"
			case "wrong-version":
				ver++
			case "older-version":
				ver--
			}
			hs := tbin.Value{T: tbin.Struct, Fields: []tbin.Field{{ID: 1, V: bs(hsName)}, {ID: 2, V: tbin.Value{T: tbin.I32, I: int64(ver)}},
				{ID: 3, V: tbin.Value{T: tbin.List, VT: tbin.I32, Items: features}}, {ID: 4, V: bs("fake")}}}
			result = tbin.Value{T: tbin.Struct, Fields: []tbin.Field{{ID: 0, V: hs}}}
		case "ServiceGenerator:generate":
			step = sc.Generate
			var items []tbin.Value
			for p, c := range sc.Files {
				items = append(items, bs(p), bs(c))
			}
			resp := tbin.Value{T: tbin.Struct, Fields: []tbin.Field{{ID: 1, V: tbin.Value{T: tbin.Map, KT: tbin.Binary, VT: tbin.Binary, Items: items}}}}
			result = tbin.Value{T: tbin.Struct, Fields: []tbin.Field{{ID: 0, V: resp}}}
		case "Plugin:goodbye":
			step = sc.Goodbye
			result = tbin.Value{T: tbin.Struct}
		default:
			logf("unknown-method")
			die()
			return
		}
		if step.Fault == "exit-after-read" {
			die()
			return
		}
		reply := tbin.Envelope{Name: env.Name, Type: 2, SeqID: env.SeqID}
		body := tbin.Encode(result)
		switch step.Fault {
		case "exception":
			reply.Type = 3
			body = tbin.Encode(tbin.Value{T: tbin.Struct, Fields: []tbin.Field{{ID: 1, V: bs("scripted failure")}, {ID: 2, V: tbin.Value{T: tbin.I32, I: 6}}}})
		case "wrong-envelope-type":
			reply.Type = 1
		}
		payload := tbin.EncodeStrict(reply, body)
		if step.Fault == "garbage" {
			payload = []byte{0xde, 0xad, 0xbe, 0xef, 0, 1, 2}
		}
		frame := make([]byte, 4, 4+len(payload))
		binary.BigEndian.PutUint32(frame, uint32(len(payload)))
		frame = append(frame, payload...)
		switch step.Fault {
		case "oversized-length":
			out.Write([]byte{0x7f, 0xff, 0xff, 0xff, 0})
			die()
			return
		case "oversized-length-msb":
			out.Write([]byte{0x80, 0, 0, 0, 0})
			die()
			return
		case "oversized-length-max":
			out.Write([]byte{0xff, 0xff, 0xff, 0xff, 0})
			die()
			return
		case "truncate":
			k := step.Offset
			if k > len(frame) {
				k = len(frame)
			}
			if k > 0 {
				out.Write(frame[:k])
			}
			die()
			return
		case "one-byte-writes":
			for i := range frame {
				out.Write(frame[i : i+1])
			}
		default:
			out.Write(frame)
		}
		if method == "Plugin:handshake" && sc.Generate.Fault == "exit-before-read" {
			die()
			return
		}
		if method == "ServiceGenerator:generate" && sc.Goodbye.Fault == "exit-before-read" {
			die()
			return
		}
	}
}

func minimalRequest() *api.GenerateServiceRequest {
	return &api.GenerateServiceRequest{
		RootServices:  []api.ServiceID{},
		Services:      map[api.ServiceID]*api.Service{},
		Modules:       map[api.ModuleID]*api.Module{},
		PackagePrefix: "x",
		ThriftRoot:    "/m",
	}
}

type l1Result struct {
	hostErr  string
	failed   bool
	events   map[string][]string
	files    []string
	deadlock bool
	livelock bool
	panicMsg string
	msg      string
	preempt  bool
}

func hostScenario(scripts map[string]Script, c *choice.Ctx, allCost bool) l1Result {
	vsync.ResetPools()
	res := l1Result{events: map[string][]string{}}
	names := make([]string, 0, len(scripts))
	for n := range scripts {
		names = append(names, n)
	}
	sort.Strings(names)
	main := func() {
		type spec struct {
			name string
			tr   *pipeTransport
		}
		var specs []spec
		var peers vsync.WaitGroup
		for _, n := range names {
			n := n
			to := &vio.Pipe{Name: n + ":host->plugin"}
			from := &vio.Pipe{Name: n + ":plugin->host"}
			tr := &pipeTransport{c: verifhook.NewFrameClient(vio.WriteEnd{P: to}, vio.ReadEnd{P: from}), toPlugin: to, fromPlugin: from}
			specs = append(specs, spec{n, tr})
			ev := []string{}
			res.events[n] = ev
			peers.Add(1)
			vsched.Go(func() {
				defer peers.Done()
				var e []string
				peer(n, scripts[n], to, from, &e)
				res.events[n] = e
			})
		}
		// the orchestration of main.do / Flags.Handle with the product's parts
		var (
			lock  vsync.Mutex
			multi verifhook.PluginMultiHandle
		)
		err := verifhook.ConcurrentRange(specs, func(_ int, s spec) error {
			h, err := verifhook.NewTransportHandle(s.name, s.tr)
			if err != nil {
				s.tr.Close()
				return err
			}
			lock.Lock()
			defer lock.Unlock()
			multi = append(multi, h)
			return nil
		})
		var errsAll []string
		if err != nil {
			errsAll = append(errsAll, "initialize: "+err.Error())
			if cerr := multi.Close(); cerr != nil {
				errsAll = append(errsAll, "close: "+cerr.Error())
			}
		} else {
			sg := multi.ServiceGenerator()
			gres, gerr := sg.Generate(minimalRequest())
			if gerr != nil {
				errsAll = append(errsAll, "generate: "+gerr.Error())
			} else if gres != nil {
				for p := range gres.Files {
					res.files = append(res.files, p)
				}
				sort.Strings(res.files)
			}
			if cerr := multi.Close(); cerr != nil {
				errsAll = append(errsAll, "close: "+cerr.Error())
			}
		}
		res.hostErr = strings.Join(errsAll, " | ")
		res.failed = len(errsAll) > 0
		peers.Wait()
	}
	s := vsched.Run(main, func(d vsched.Decision) int {
		if c == nil {
			return 0
		}
		costs := make([]int, len(d.Enabled))
		if d.RunningEnabled || allCost {
			for i := 1; i < len(costs); i++ {
				costs[i] = 1
			}
		}
		ch := c.DeviateCost(costs, "sched:"+d.Label)
		if ch != 0 {
			res.preempt = true
		}
		return ch
	}, 30000)
	res.deadlock, res.livelock, res.msg = s.Deadlock, s.Livelock, s.DeadlockMsg
	if s.Panic != nil {
		res.panicMsg = fmt.Sprintf("thread %d: %v", s.PanicThread, s.Panic)
	}
	return res
}

func l1FaultClass(sc Script) string {
	for _, st := range []struct {
		n string
		s Step
	}{{"handshake", sc.Handshake}, {"generate", sc.Generate}, {"goodbye", sc.Goodbye}} {
		if st.s.Fault != "ok" {
			return st.n + "/" + st.s.Fault
		}
	}
	return "ok"
}

func judgeHost(w *ev.W, desc string, scripts map[string]Script, r l1Result, sched string) {
	viol := func(class, detail string) {
		w.Violation("L1:"+class, fmt.Sprintf("L1 %s under schedule [%s]: %s; host error %.300q; events %v", desc, sched, detail, r.hostErr, r.events),
			map[string]interface{}{"scripts": scripts, "schedule": sched})
	}
	switch {
	case r.panicMsg != "":
		viol("panic", r.panicMsg+" "+r.msg)
		return
	case r.deadlock:
		viol("deadlock", r.msg)
		return
	case r.livelock:
		viol("livelock", r.msg)
		return
	}
	exp := expect(scripts)
	anyFailed := false
	var failedNames []string
	for n, e := range exp {
		if e.failed {
			anyFailed = true
			failedNames = append(failedNames, n)
		}
		var reqs []string
		sawEOF := false
		for _, l := range r.events[n] {
			if strings.HasPrefix(l, "req ") {
				reqs = append(reqs, strings.TrimPrefix(l, "req "))
			}
			if l == "eof" {
				sawEOF = true
			}
		}
		if strings.Join(reqs, ",") != strings.Join(e.reqs, ",") {
			viol("history:"+l1FaultClass(scripts[n]), fmt.Sprintf("plugin %s saw requests %v, the protocol automaton allows exactly %v", n, reqs, e.reqs))
		}
		if e.mustSeeEOF && !sawEOF {
			viol("pipe-not-closed:"+l1FaultClass(scripts[n]), fmt.Sprintf("plugin %s never saw EOF", n))
		}
	}
	sort.Strings(failedNames)
	if anyFailed != r.failed {
		viol("status", fmt.Sprintf("host failed=%v but failed plugins = %v", r.failed, failedNames))
	}
	if anyFailed && r.failed {
		named := false
		for _, n := range failedNames {
			if strings.Contains(r.hostErr, "\""+n+"\"") {
				named = true
			}
		}
		if !named {
			viol("failure-does-not-name-plugin", fmt.Sprintf("the host failed without naming any failed plugin %v", failedNames))
		}
	}
	if !anyFailed && !r.failed {
		var want []string
		for n, sc := range scripts {
			if !noGenerate(sc.Handshake.Fault) {
				want = append(want, "fake_"+n+"/out.txt")
			}
		}
		sort.Strings(want)
		if strings.Join(want, ",") != strings.Join(r.files, ",") {
			viol("merged-files", fmt.Sprintf("merged files %v, expected %v", r.files, want))
		}
	}
}

// ---- conforming-plugin direction: the real plugin.Main

type captureSG struct{}

func (captureSG) Generate(*api.GenerateServiceRequest) (*api.GenerateServiceResponse, error) {
	return &api.GenerateServiceResponse{Files: map[string][]byte{"conf/out.txt": []byte("z")}}, nil
}

var reqKinds = []string{"handshake", "generate", "goodbye", "unknown-service", "unknown-method", "garbage"}

func requestFrame(kind string) []byte {
	var payload []byte
	env := func(name string, body tbin.Value) []byte {
		return tbin.EncodeStrict(tbin.Envelope{Name: []byte(name), Type: 1, SeqID: 7}, tbin.Encode(body))
	}
	empty := tbin.Value{T: tbin.Struct}
	switch kind {
	case "handshake":
		payload = env("Plugin:handshake", tbin.Value{T: tbin.Struct, Fields: []tbin.Field{{ID: 1, V: empty}}})
	case "generate":
		req := tbin.Value{T: tbin.Struct, Fields: []tbin.Field{
			{ID: 1, V: tbin.Value{T: tbin.List, VT: tbin.I32}},
			{ID: 2, V: tbin.Value{T: tbin.Map, KT: tbin.I32, VT: tbin.Struct}},
			{ID: 3, V: tbin.Value{T: tbin.Map, KT: tbin.I32, VT: tbin.Struct}},
			{ID: 4, V: bs("x")}, {ID: 5, V: bs("/m")}}}
		payload = env("ServiceGenerator:generate", tbin.Value{T: tbin.Struct, Fields: []tbin.Field{{ID: 1, V: req}}})
	case "goodbye":
		payload = env("Plugin:goodbye", empty)
	case "unknown-service":
		payload = env("Nope:handshake", empty)
	case "unknown-method":
		payload = env("Plugin:nope", empty)
	case "garbage":
		payload = []byte{0xde, 0xad, 0xbe, 0xef, 9}
	}
	f := make([]byte, 4, 4+len(payload))
	binary.BigEndian.PutUint32(f, uint32(len(payload)))
	return append(f, payload...)
}

type confResult struct {
	replies  []string
	mainEnd  string
	deadlock bool
	livelock bool
	panicMsg string
	msg      string
}

func classifyReply(b []byte, err error) string {
	if err != nil {
		return "no-reply(" + errClass(err) + ")"
	}
	env, _, off, derr := tbin.DecodeEnvelope(b)
	if derr != nil {
		return "undecodable-reply"
	}
	body, _, berr := tbin.Decode(tbin.Struct, b[off:])
	if berr != nil {
		return "undecodable-body"
	}
	kind := map[int8]string{2: "reply", 3: "exception"}[env.Type]
	if kind == "" {
		kind = fmt.Sprintf("type%d", env.Type)
	}
	detail := ""
	if env.Type == 2 && string(env.Name) == "Plugin:handshake" && len(body.Fields) == 1 {
		hs := body.Fields[0].V
		for _, f := range hs.Fields {
			switch f.ID {
			case 1:
				detail += " name=" + string(f.V.B)
			case 2:
				detail += fmt.Sprintf(" api=%d", f.V.I)
			case 3:
				detail += fmt.Sprintf(" features=%d", len(f.V.Items))
			}
		}
	}
	if env.Type == 2 && string(env.Name) == "ServiceGenerator:generate" && len(body.Fields) == 1 {
		for _, f := range body.Fields[0].V.Fields {
			if f.ID == 1 {
				detail += fmt.Sprintf(" files=%d", len(f.V.Items)/2)
			}
		}
	}
	return fmt.Sprintf("%s %s seq=%d%s", kind, env.Name, env.SeqID, detail)
}

func errClass(err error) string {
	switch {
	case errors.Is(err, io.EOF), errors.Is(err, io.ErrUnexpectedEOF):
		return "eof"
	case errors.Is(err, io.ErrClosedPipe), errors.Is(err, vio.ErrClosed):
		return "closed"
	}
	return "error"
}

func confScenario(seq []string, withSG bool, maxRead int, c *choice.Ctx) confResult {
	vsync.ResetPools()
	var res confResult
	main := func() {
		to := &vio.Pipe{Name: "host->plugin", MaxRead: maxRead}
		from := &vio.Pipe{Name: "plugin->host", MaxRead: maxRead}
		p := &plugin.Plugin{Name: "conf", Reader: vio.ReadEnd{P: to}, Writer: vio.WriteEnd{P: from}}
		if withSG {
			p.ServiceGenerator = captureSG{}
		}
		var wg vsync.WaitGroup
		wg.Add(1)
		vsched.Go(func() {
			defer wg.Done()
			defer func() {
				if r := recover(); r != nil {
					if f, ok := r.(vlog.Fatal); ok {
						res.mainEnd = "fatal: " + f.Msg
						// a dying process closes its pipes
						from.CloseWrite()
						to.CloseRead()
						return
					}
					panic(r)
				}
			}()
			plugin.Main(p)
			res.mainEnd = "returned"
		})
		for _, k := range seq {
			_, werr := to.Write(requestFrame(k))
			if werr != nil {
				res.replies = append(res.replies, "no-reply(write-"+errClass(werr)+")")
				continue
			}
			b, err := readFrameFrom(from)
			res.replies = append(res.replies, classifyReply(b, err))
		}
		to.CloseWrite()
		wg.Wait()
	}
	s := vsched.Run(main, func(d vsched.Decision) int {
		if c == nil {
			return 0
		}
		costs := make([]int, len(d.Enabled))
		if d.RunningEnabled {
			for i := 1; i < len(costs); i++ {
				costs[i] = 1
			}
		}
		return c.DeviateCost(costs, "sched:"+d.Label)
	}, 30000)
	res.deadlock, res.livelock, res.msg = s.Deadlock, s.Livelock, s.DeadlockMsg
	if s.Panic != nil {
		res.panicMsg = fmt.Sprintf("thread %d: %v", s.PanicThread, s.Panic)
	}
	return res
}

// expectConf is the reference behaviour of a conforming plugin.
func expectConf(seq []string, withSG bool) (replies []string, end string) {
	alive := true
	end = "" // unspecified unless a goodbye was served
	for _, k := range seq {
		if !alive {
			replies = append(replies, "no-reply")
			continue
		}
		switch k {
		case "handshake":
			f := 0
			if withSG {
				f = 1
			}
			replies = append(replies, fmt.Sprintf("reply Plugin:handshake seq=7 name=conf api=%d features=%d", api.APIVersion, f))
		case "generate":
			if withSG {
				replies = append(replies, "reply ServiceGenerator:generate seq=7 files=1")
			} else {
				replies = append(replies, "exception ServiceGenerator:generate seq=7")
			}
		case "goodbye":
			replies = append(replies, "reply Plugin:goodbye seq=7")
			alive = false
			end = "returned"
		case "unknown-service":
			replies = append(replies, "exception Nope:handshake seq=7")
		case "unknown-method":
			replies = append(replies, "exception Plugin:nope seq=7")
		case "garbage":
			replies = append(replies, "no-reply")
			alive = false
		}
	}
	return
}

var runL1 func(w *ev.W)

func init() {
	runL1 = func(w *ev.W) {
		bound := 2
		sched := func(c *choice.Ctx) string {
			var nd []string
			for i, p := range c.Trace {
				if p.Choice != 0 {
					nd = append(nd, fmt.Sprintf("#%d %s=%d/%d", i, p.Label, p.Choice, p.N))
				}
			}
			return strings.Join(nd, "; ")
		}
		account := func(ex *choice.Explorer) {
			w.R.States += ex.Stats.States
			w.R.Transitions += ex.Stats.Transitions
			w.R.Traces += ex.Stats.Executions
			w.Count("L1_executions", ex.Stats.Executions)
			if ex.Stats.Capped {
				w.Cap("time budget reached inside an L1 scenario")
			}
		}
		// host direction
		type hs struct {
			desc    string
			scripts map[string]Script
		}
		var hss []hs
		single := [][2]string{}
		for _, st := range steps {
			for _, f := range faults {
				if applicable(st, f) {
					single = append(single, [2]string{st, f})
				}
			}
		}
		hss = append(hss, hs{"p1 ok", map[string]Script{"p1": okScript("p1")}})
		for _, sf := range single {
			hss = append(hss, hs{fmt.Sprintf("p1 %s/%s", sf[0], sf[1]), map[string]Script{"p1": withFault(okScript("p1"), sf[0], sf[1], 0)}})
		}
		for _, st := range steps {
			for _, off := range []int{0, 2, 5, 30} {
				hss = append(hss, hs{fmt.Sprintf("p1 %s/truncate@%d", st, off), map[string]Script{"p1": withFault(okScript("p1"), st, "truncate", off)}})
			}
		}
		p2s := []Script{okScript("p2"), withFault(okScript("p2"), "handshake", "wrong-name", 0), withFault(okScript("p2"), "generate", "garbage", 0)}
		if !w.Quick() {
			p2s = append(p2s, withFault(okScript("p2"), "handshake", "truncate", 5), withFault(okScript("p2"), "goodbye", "exception", 0), withFault(okScript("p2"), "handshake", "no-feature", 0), withFault(okScript("p2"), "handshake", "other-feature", 0), withFault(okScript("p2"), "generate", "exit-after-read", 0))
		}
		hss = append(hss, hs{"p1 ok p2 ok", map[string]Script{"p1": okScript("p1"), "p2": okScript("p2")}})
		for _, sf := range single {
			for i, p2 := range p2s {
				hss = append(hss, hs{fmt.Sprintf("p1 %s/%s p2 #%d(%s)", sf[0], sf[1], i, l1FaultClass(p2)), map[string]Script{"p1": withFault(okScript("p1"), sf[0], sf[1], 0), "p2": p2}})
			}
		}
		for _, h := range hss {
			if !w.Own() {
				continue
			}
			if w.Expired() {
				w.Cap("time budget reached before all L1 host scenarios were explored")
				break
			}
			h := h
			w.Eval(1)
			w.Progress("L1 host " + h.desc)
			nontrivial := false
			ex := &choice.Explorer{Bound: bound, Stop: w.Expired}
			// one plugin (3 threads): preemption bounding, switches at blocking points are free.
			// two plugins (5 threads): free switches explode, so every departure from the
			// canonical schedule (lowest enabled thread id) costs one deviation.
			allCost := len(h.scripts) > 1
			if allCost && !w.Quick() {
				ex.Bound = 3
			}
			n := 0
			ex.Body = func(c *choice.Ctx) {
				n++
				if n&255 == 0 {
					w.Progress(fmt.Sprintf("L1 host %s (execution %d)", h.desc, n))
				}
				r := hostScenario(h.scripts, c, allCost)
				if r.preempt {
					nontrivial = true
				}
				judgeHost(w, h.desc, h.scripts, r, sched(c))
				if r.failed {
					w.Outcome("L1-host-failed")
				} else {
					w.Outcome("L1-host-ok")
				}
			}
			ex.Run()
			account(ex)
			if nontrivial {
				w.Nontrivial(1)
			}
			if w.WantSample() && w.Idx()%5 == 0 {
				w.Sample(map[string]interface{}{"level": "L1-host", "scripts": h.desc, "executions": ex.Stats.Executions, "max_choice_points": ex.Stats.MaxDepth})
			}
			w.Done()
		}
		// conforming-plugin direction
		maxLen := 3
		var seqs [][]string
		var rec func(cur []string)
		rec = func(cur []string) {
			if len(cur) > 0 {
				seqs = append(seqs, append([]string{}, cur...))
			}
			if len(cur) == maxLen {
				return
			}
			for _, k := range reqKinds {
				rec(append(cur, k))
			}
		}
		rec(nil)
		for _, seq := range seqs {
			for _, withSG := range []bool{true, false} {
				for _, maxRead := range []int{0, 1} {
					if !w.Own() {
						continue
					}
					if w.Expired() {
						w.Cap("time budget reached before all plugin.Main scenarios were explored")
						return
					}
					seq, withSG, maxRead := seq, withSG, maxRead
					desc := fmt.Sprintf("plugin.Main seq=%v serviceGenerator=%v maxRead=%d", seq, withSG, maxRead)
					w.Eval(1)
					w.Nontrivial(1)
					w.Progress("L1 " + desc)
					wantReplies, wantEnd := expectConf(seq, withSG)
					ex := &choice.Explorer{Bound: 1, Stop: w.Expired}
					if maxRead == 0 && len(seq) <= 2 {
						ex.Bound = 2
					}
					nexec := 0
					ex.Body = func(c *choice.Ctx) {
						nexec++
						if nexec&255 == 0 {
							w.Progress(fmt.Sprintf("L1 %s (execution %d)", desc, nexec))
						}
						r := confScenario(seq, withSG, maxRead, c)
						viol := func(class, detail string) {
							w.Violation("L1-conforming:"+class, fmt.Sprintf("%s under schedule [%s]: %s", desc, sched(c), detail), map[string]interface{}{"seq": seq, "withSG": withSG, "maxRead": maxRead})
						}
						switch {
						case r.panicMsg != "":
							viol("panic", r.panicMsg+" "+r.msg)
							return
						case r.deadlock:
							viol("deadlock", r.msg)
							return
						case r.livelock:
							viol("livelock", r.msg)
							return
						}
						got := make([]string, len(r.replies))
						for i, x := range r.replies {
							if strings.HasPrefix(x, "no-reply") {
								x = "no-reply"
							}
							got[i] = x
						}
						if strings.Join(got, " ; ") != strings.Join(wantReplies, " ; ") {
							viol("replies", fmt.Sprintf("replies %v, a conforming plugin answers %v", r.replies, wantReplies))
						}
						if wantEnd != "" && !strings.HasPrefix(r.mainEnd, wantEnd) {
							viol("termination", fmt.Sprintf("plugin.Main ended with %q, expected %q", r.mainEnd, wantEnd))
						}
						w.Outcome("L1-conforming-checked")
					}
					ex.Run()
					account(ex)
					w.Done()
				}
			}
		}
	}
}
