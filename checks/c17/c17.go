// Package c17: generated output is confined, conflict-free and all-or-nothing
// on failure (DESIGN.md §3 C17).
package c17

import (
	"bytes"
	"crypto/sha256"
	"encoding/binary"
	"encoding/hex"
	"encoding/json"
	"fmt"
	"go.uber.org/thriftrw/verifshim/vmap"
	"os"
	"os/exec"
	"path/filepath"
	"sort"
	"strings"
	"time"
	"verif/engine/choice"

	"go.uber.org/thriftrw/compile"
	"go.uber.org/thriftrw/gen"
	"go.uber.org/thriftrw/plugin/api"
	"go.uber.org/thriftrw/verifhook"
	"verif/engine/ev"
	"verif/ref/tbin"
)

// Check is the registered check.
var Check = &ev.Check{
	ID:    "C17",
	Level: "fault_enumeration",
	Rule: "in-process (fake plugins behind the real NewTransportHandle -> MultiHandle.ServiceGenerator -> gen.Generate, real files in a sandbox directory): plugin responses whose file path is every sequence of <=3 segments over {a, b.go, .., ., empty, a..b} with and without a leading '/', " +
		"the core-generated file's own path, and another plugin's path (1..2 plugins); failures: compile error, generation failure in the k-th of n<=3 modules (k=1..n), plugin generate reply faults (exception, garbage, wrong envelope type) and handshake faults (wrong name/version); " +
		"layouts: thrift root = directory of the file, each ancestor, nested; output directory empty or pre-populated with sentinel files. Process level: the real thriftrw binary with fake plugin executables for a subset (normal, '..' path, absolute path, core conflict, two-plugin conflict, generate/handshake faults). " +
		"Oracle: recursive listing+hashes of the sandbox (output dir AND its parent) before/after: every created or modified path lies under the output dir; core files sit at rel(thriftRoot, file)-derived locations; one path from two sources => error; on any listed failure the tree is byte-identical to before. " +
		"A case is one (layout, plugin responses / fault) run; non-trivial = cases with a hostile path, a conflict or a failure.",
	Prepare: prepare,
	Run:     run,
	Budget: func(t string) time.Duration {
		return map[string]time.Duration{"quick": 3 * time.Minute, "thorough": 15 * time.Minute}[t]
	},
	CaseDeadline: 120 * time.Second,
	Assumptions:  []string{"symlinked output trees and failures of the final write loop itself (disk full) are outside the property's list and not injected"},
}

func prepare(s *ev.S) error {
	bin := filepath.Join(s.WorkDir, "bin")
	os.MkdirAll(bin, 0o755)
	build := func(out, pkg string) error {
		cmd := exec.Command("go", "build", "-o", out, pkg)
		cmd.Dir = s.Verif
		cmd.Env = append(os.Environ(), "GOFLAGS=-mod=mod")
		if o, err := cmd.CombinedOutput(); err != nil {
			return fmt.Errorf("building %s: %v: %s", pkg, err, o)
		}
		return nil
	}
	if err := build(filepath.Join(s.WorkDir, "thriftrw"), "go.uber.org/thriftrw"); err != nil {
		return err
	}
	fp := filepath.Join(bin, "fakeplugin")
	if err := build(fp, "./cmd/fakeplugin"); err != nil {
		return err
	}
	raw, _ := os.ReadFile(fp)
	for _, n := range []string{"p1", "p2"} {
		os.WriteFile(filepath.Join(bin, "thriftrw-plugin-"+n), raw, 0o755)
	}
	os.Remove(fp)
	s.Args["thriftrw"] = filepath.Join(s.WorkDir, "thriftrw")
	s.Args["pluginbin"] = bin
	return nil
}

// ---- in-memory plugin transport (independent protocol implementation)

type memPlugin struct {
	name     string
	hsName   string
	ver      int32
	files    map[string]string
	genFault string // "", exception, garbage, wrong-envelope-type
	log      []string
}

func bs(x string) tbin.Value { return tbin.Value{T: tbin.Binary, B: []byte(x)} }

func (m *memPlugin) Send(req []byte) ([]byte, error) {
	env, _, _, err := tbin.DecodeEnvelope(req)
	if err != nil {
		return nil, err
	}
	method := string(env.Name)
	m.log = append(m.log, method)
	reply := tbin.Envelope{Name: env.Name, Type: 2, SeqID: env.SeqID}
	var result tbin.Value
	switch method {
	case "Plugin:handshake":
		hs := tbin.Value{T: tbin.Struct, Fields: []tbin.Field{{ID: 1, V: bs(m.hsName)}, {ID: 2, V: tbin.Value{T: tbin.I32, I: int64(m.ver)}},
			{ID: 3, V: tbin.Value{T: tbin.List, VT: tbin.I32, Items: []tbin.Value{{T: tbin.I32, I: 1}}}}}}
		result = tbin.Value{T: tbin.Struct, Fields: []tbin.Field{{ID: 0, V: hs}}}
	case "ServiceGenerator:generate":
		var items []tbin.Value
		paths := make([]string, 0, len(m.files))
		for p := range m.files {
			paths = append(paths, p)
		}
		sort.Strings(paths)
		for _, p := range paths {
			items = append(items, bs(p), bs(m.files[p]))
		}
		resp := tbin.Value{T: tbin.Struct, Fields: []tbin.Field{{ID: 1, V: tbin.Value{T: tbin.Map, KT: tbin.Binary, VT: tbin.Binary, Items: items}}}}
		result = tbin.Value{T: tbin.Struct, Fields: []tbin.Field{{ID: 0, V: resp}}}
		switch m.genFault {
		case "exception":
			reply.Type = 3
			result = tbin.Value{T: tbin.Struct, Fields: []tbin.Field{{ID: 1, V: bs("scripted")}, {ID: 2, V: tbin.Value{T: tbin.I32, I: 6}}}}
		case "wrong-envelope-type":
			reply.Type = 1
		case "garbage":
			return []byte{0xde, 0xad, 0xbe, 0xef}, nil
		}
	default:
		result = tbin.Value{T: tbin.Struct}
	}
	return tbin.EncodeStrict(reply, tbin.Encode(result)), nil
}

// ---- sandbox

type snap map[string]string

func snapshot(root string) snap {
	s := snap{}
	filepath.Walk(root, func(path string, info os.FileInfo, err error) error {
		if err != nil {
			return nil
		}
		rel, _ := filepath.Rel(root, path)
		if info.IsDir() {
			s[rel+"/"] = "dir"
			return nil
		}
		b, _ := os.ReadFile(path)
		h := sha256.Sum256(b)
		s[rel] = hex.EncodeToString(h[:8])
		return nil
	})
	return s
}

func diff(a, b snap) (changed []string) {
	for k, v := range b {
		if a[k] != v {
			changed = append(changed, k)
		}
	}
	for k := range a {
		if _, ok := b[k]; !ok {
			changed = append(changed, "-"+k)
		}
	}
	sort.Strings(changed)
	return
}

type plugSpec struct {
	Name     string            `json:"name"`
	HsName   string            `json:"hs_name"`
	Ver      int32             `json:"version_delta"`
	Files    map[string]string `json:"files"`
	GenFault string            `json:"generate_fault"`
}

type caseT struct {
	Desc       string            `json:"desc"`
	Thrift     map[string]string `json:"thrift"`      // path relative to sandbox/thrift
	Root       string            `json:"root"`        // file to compile
	ThriftRoot string            `json:"thrift_root"` // relative to sandbox/thrift
	Plugins    []plugSpec        `json:"plugins"`
	Sentinels  bool              `json:"sentinels"`
	// expectations
	WantFail  bool     `json:"want_fail"`
	CoreFiles []string `json:"core_files"` // relative to out, expected on success
	Hostile   bool     `json:"hostile"`
	// Orders: also run under every map-iteration order (<=1 deviating range execution) in gen and internal/plugin
	Orders bool `json:"orders"`
	// InProcessOnly: the fake executables read one script per plugin name, so two instances with different answers exist only in-process
	InProcessOnly bool `json:"in_process_only"`
}

const svcIDL = "struct Req { 1: optional string a }\nservice Svc { Req echo(1: Req r) }\n"

func pathAlphabet() []string {
	segs := []string{"a", "b.go", "..", ".", "", "a..b"}
	var out []string
	var rec func(cur []string)
	rec = func(cur []string) {
		if len(cur) > 0 {
			p := strings.Join(cur, "/")
			// absolute paths point into the sandbox (resolved when the sandbox exists), next to
			// the output directory: a write there is seen by the snapshot and litters nothing
			out = append(out, p, "@SANDBOX@/abs/"+p)
		}
		if len(cur) == 3 {
			return
		}
		for _, s := range segs {
			rec(append(append([]string{}, cur...), s))
		}
	}
	rec(nil)
	return out
}

func cases(quick bool) []caseT {
	var out []caseT
	base := func(desc string) caseT {
		return caseT{Desc: desc, Thrift: map[string]string{"svc/a.thrift": svcIDL}, Root: "svc/a.thrift", ThriftRoot: "svc", CoreFiles: []string{"a/a.go"}}
	}
	ok := func(name string, files map[string]string) plugSpec {
		return plugSpec{Name: name, HsName: name, Files: files}
	}
	// 1. every path of the alphabet from one plugin
	paths := pathAlphabet()
	for i, p := range paths {
		if quick && i%3 != 0 && !strings.Contains(p, "..") {
			continue
		}
		c := base("path " + fmt.Sprintf("%q", p))
		c.Plugins = []plugSpec{ok("p1", map[string]string{p: "payload"})}
		c.Hostile = true
		// the reference rule: a path is acceptable iff, joined to the output dir, it stays inside it and names a file
		c.WantFail = false // decided at run time from the product's answer; confinement is judged either way
		c.Sentinels = i%2 == 0
		out = append(out, c)
	}
	// 1b. absolute paths without any dot segment: next to the output directory, inside a
	// sibling whose name starts like it, and the output directory's own absolute path
	for _, ap := range []string{"@SANDBOX@/escape/evil.go", "@SANDBOX@/work/outside.go", "@SANDBOX@/work/out2/evil.go", "@SANDBOX@/work/out/inside.go", "@SANDBOX@/work/thrift/svc/a.thrift"} {
		c := base("absolute path " + ap)
		c.Plugins = []plugSpec{ok("p1", map[string]string{ap: "payload", "p1/ok.txt": "x"})}
		c.Hostile, c.Sentinels = true, true
		out = append(out, c)
	}
	// 2. conflicts
	c := base("plugin path equals the core-generated file")
	c.Plugins = []plugSpec{ok("p1", map[string]string{"a/a.go": "x"})}
	c.WantFail, c.Hostile = true, true
	out = append(out, c)
	c = base("two plugins produce the same path")
	c.Plugins = []plugSpec{ok("p1", map[string]string{"shared/x.txt": "1", "p1/own.txt": "o"}), ok("p2", map[string]string{"shared/x.txt": "2"})}
	c.WantFail, c.Hostile = true, true
	out = append(out, c)
	// the same path under another spelling (dot segment, doubled separator): still the same file
	for _, sp := range []string{"./a/a.go", "a//a.go", "a/./a.go", ".//a/a.go"} {
		c = base("plugin path " + sp + " names the core-generated file a/a.go")
		c.Plugins = []plugSpec{ok("p1", map[string]string{sp: "x"})}
		c.WantFail, c.Hostile, c.Sentinels = true, true, true
		out = append(out, c)
		c = base("two plugins produce one file under the spellings shared/x.txt and " + strings.Replace(sp, "a/a.go", "shared/x.txt", 1))
		c.Plugins = []plugSpec{ok("p1", map[string]string{"shared/x.txt": "1"}), ok("p2", map[string]string{strings.Replace(sp, "a/a.go", "shared/x.txt", 1): "2"})}
		c.WantFail, c.Hostile = true, true
		out = append(out, c)
	}
	// the same conflicts with further, harmless files around the conflicting path
	// (names sorting before and after it): the verdict must not depend on which file
	// of a response happens to be merged last
	for k := 1; k <= 3; k++ {
		extras := map[string]string{"a/a.go": "x"}
		for _, n := range []string{"a/0.txt", "zz/z.txt", "m/m.txt"}[:k] {
			extras[n] = "e"
		}
		c = base(fmt.Sprintf("plugin path equals the core-generated file, with %d other files", k))
		c.Plugins = []plugSpec{ok("p1", extras)}
		c.WantFail, c.Hostile, c.Sentinels, c.Orders = true, true, k%2 == 1, true
		out = append(out, c)
		f1 := map[string]string{"shared/x.txt": "1"}
		f2 := map[string]string{"shared/x.txt": "2"}
		for i, n := range []string{"0/a.txt", "zz/z.txt", "q/q.txt"}[:k] {
			f1["p1/"+n] = "o"
			if i%2 == 0 {
				f2["p2/"+n] = "o"
			}
		}
		c = base(fmt.Sprintf("two plugins produce the same path, with %d other files each", k))
		c.Plugins = []plugSpec{ok("p1", f1), ok("p2", f2)}
		c.WantFail, c.Hostile, c.Orders = true, true, true
		out = append(out, c)
	}
	// the same plugin requested twice: both instances produce the same path
	c = base("one plugin requested twice, same path")
	c.Plugins = []plugSpec{ok("p1", map[string]string{"dup/x.txt": "1"}), ok("p1", map[string]string{"dup/x.txt": "1"})}
	c.WantFail, c.Hostile = true, true
	out = append(out, c)
	c = base("one plugin requested twice, same path with different content and other files")
	c.Plugins = []plugSpec{ok("p1", map[string]string{"dup/x.txt": "1", "a1/o.txt": "o"}), ok("p1", map[string]string{"dup/x.txt": "2", "zz/o.txt": "o"})}
	c.WantFail, c.Hostile, c.InProcessOnly = true, true, true
	out = append(out, c)
	c = base("two plugins, disjoint paths")
	c.Plugins = []plugSpec{ok("p1", map[string]string{"p1/x.txt": "1"}), ok("p2", map[string]string{"p2/x.txt": "2"})}
	c.CoreFiles = append(c.CoreFiles, "p1/x.txt", "p2/x.txt")
	out = append(out, c)
	// 3. failures
	for _, f := range []string{"exception", "garbage", "wrong-envelope-type"} {
		c = base("generate fault " + f)
		c.Plugins = []plugSpec{ok("p1", map[string]string{"p1/x.txt": "1"}), {Name: "p2", HsName: "p2", Files: map[string]string{"p2/x.txt": "2"}, GenFault: f}}
		c.WantFail, c.Hostile, c.Sentinels = true, true, true
		out = append(out, c)
	}
	c = base("handshake wrong name")
	c.Plugins = []plugSpec{ok("p1", map[string]string{"p1/x.txt": "1"}), {Name: "p2", HsName: "other", Files: map[string]string{"p2/x.txt": "2"}}}
	c.WantFail, c.Hostile = true, true
	out = append(out, c)
	c = base("handshake wrong version")
	c.Plugins = []plugSpec{{Name: "p1", HsName: "p1", Ver: 1, Files: map[string]string{"p1/x.txt": "1"}}}
	c.WantFail, c.Hostile = true, true
	out = append(out, c)
	c = base("compile error")
	c.Thrift["svc/a.thrift"] = "struct S { 1: optional Undefined x }\n"
	c.WantFail, c.Hostile, c.Sentinels = true, true, true
	out = append(out, c)
	// generation failure in the k-th of n modules
	bad := "struct B { 1: optional i32 foo_bar; 2: optional i32 fooBar }\n" // collides after goCase: rejected at generation
	good := func(n string) string { return "struct G" + n + " { 1: optional i32 v }\n" }
	for n := 1; n <= 3; n++ {
		for k := 1; k <= n; k++ {
			c = caseT{Desc: fmt.Sprintf("generation failure in module %d of %d", k, n), Thrift: map[string]string{}, Root: "m/m1.thrift", ThriftRoot: "m", WantFail: true, Hostile: true, Sentinels: true}
			for i := 1; i <= n; i++ {
				body := good(fmt.Sprint(i))
				if i == k {
					body = bad
				}
				inc := ""
				if i < n {
					inc = fmt.Sprintf("include \"./m%d.thrift\"\n", i+1)
				}
				c.Thrift[fmt.Sprintf("m/m%d.thrift", i)] = inc + body
			}
			c.Plugins = []plugSpec{ok("p1", map[string]string{"p1/x.txt": "1"})}
			out = append(out, c)
		}
	}
	// 4. layouts
	lay := func(desc, root, thriftRoot string, thrift map[string]string, core []string) {
		out = append(out, caseT{Desc: "layout " + desc, Thrift: thrift, Root: root, ThriftRoot: thriftRoot, CoreFiles: core, Plugins: []plugSpec{ok("p1", map[string]string{"p1/x.txt": "1"})}, Sentinels: true})
	}
	lay("root = dir of file", "x/y/z.thrift", "x/y", map[string]string{"x/y/z.thrift": svcIDL}, []string{"z/z.go", "p1/x.txt"})
	lay("root = parent", "x/y/z.thrift", "x", map[string]string{"x/y/z.thrift": svcIDL}, []string{"y/z/z.go", "p1/x.txt"})
	lay("root = grandparent", "x/y/z.thrift", "", map[string]string{"x/y/z.thrift": svcIDL}, []string{"x/y/z/z.go", "p1/x.txt"})
	lay("nested includes", "x/y/z.thrift", "x", map[string]string{"x/y/z.thrift": "include \"../w/v.thrift\"\nstruct Z { 1: optional v.V v }\n", "x/w/v.thrift": "struct V { 1: optional i32 i }\n"}, []string{"y/z/z.go", "w/v/v.go", "p1/x.txt"})
	c = caseT{Desc: "layout included file outside the thrift root", Thrift: map[string]string{"x/y/z.thrift": "include \"../../o/v.thrift\"\nstruct Z { 1: optional v.V v }\n", "o/v.thrift": "struct V { 1: optional i32 i }\n"},
		Root: "x/y/z.thrift", ThriftRoot: "x", WantFail: true, Hostile: true, Sentinels: true, Plugins: []plugSpec{ok("p1", map[string]string{"p1/x.txt": "1"})}}
	out = append(out, c)
	// an included file in a sibling directory whose name merely starts with the root's name
	for _, sib := range []string{"x_common", "xy", "x.d", "x-old"} {
		c = caseT{Desc: "layout included file in sibling " + sib + " of thrift root x", Thrift: map[string]string{"x/y/z.thrift": "include \"../../" + sib + "/v.thrift\"\nstruct Z { 1: optional v.V v }\n", sib + "/v.thrift": "struct V { 1: optional i32 i }\n"},
			Root: "x/y/z.thrift", ThriftRoot: "x", WantFail: true, Hostile: true, Sentinels: true, Plugins: []plugSpec{ok("p1", map[string]string{"p1/x.txt": "1"})}}
		out = append(out, c)
	}
	// the thrift root given with a trailing separator / dot segments names the same directory
	for _, tr := range []string{"x/", "x/.", "x/y/.."} {
		out = append(out, caseT{Desc: "layout thrift root spelled " + tr, Thrift: map[string]string{"x/y/z.thrift": svcIDL}, Root: "x/y/z.thrift", ThriftRoot: tr, CoreFiles: []string{"y/z/z.go", "p1/x.txt"},
			Plugins: []plugSpec{ok("p1", map[string]string{"p1/x.txt": "1"})}, Sentinels: true})
	}
	return out
}

type runner struct {
	w   *ev.W
	dir string
}

// resolved replaces the @SANDBOX@ token in plugin file paths by the sandbox root.
func resolved(files map[string]string, root string) map[string]string {
	out := make(map[string]string, len(files))
	for p, c := range files {
		out[strings.ReplaceAll(p, "@SANDBOX@", root)] = c
	}
	return out
}

func (r *runner) sandbox(c caseT) (root, thriftDir, outDir string) {
	root = filepath.Join(r.dir, "sb")
	os.RemoveAll(root)
	thriftDir = filepath.Join(root, "work", "thrift")
	outDir = filepath.Join(root, "work", "out")
	for p, text := range c.Thrift {
		full := filepath.Join(thriftDir, p)
		os.MkdirAll(filepath.Dir(full), 0o755)
		os.WriteFile(full, []byte(text), 0o644)
	}
	os.MkdirAll(outDir, 0o755)
	os.WriteFile(filepath.Join(root, "outside-sentinel.txt"), []byte("do not touch"), 0o644)
	os.WriteFile(filepath.Join(root, "work", "sibling-sentinel.txt"), []byte("do not touch"), 0o644)
	if c.Sentinels {
		os.MkdirAll(filepath.Join(outDir, "a"), 0o755)
		os.WriteFile(filepath.Join(outDir, "a", "existing.txt"), []byte("pre-existing"), 0o644)
		os.WriteFile(filepath.Join(outDir, "keep.txt"), []byte("pre-existing"), 0o644)
	}
	return
}

func (r *runner) judge(c caseT, level string, before, after snap, failed bool, errText string) {
	w := r.w
	changed := diff(before, after)
	viol := func(class, detail string) {
		w.Violation(level+":"+class, fmt.Sprintf("%s [%s]: %s; error=%.200q; changed=%v", c.Desc, level, detail, errText, changed), c)
	}
	outside := []string{}
	for _, p := range changed {
		q := strings.TrimPrefix(p, "-")
		if !strings.HasPrefix(q, "work/out/") && q != "work/out/" {
			outside = append(outside, p)
		}
	}
	if len(outside) > 0 {
		viol("write-outside-output-dir", fmt.Sprintf("paths outside the output directory were created/modified/removed: %v", outside))
	}
	for _, p := range changed {
		if strings.HasPrefix(p, "-") || (before[p] != "" && before[p] != after[p]) {
			if strings.HasPrefix(strings.TrimPrefix(p, "-"), "work/out/") && (strings.HasSuffix(p, "existing.txt") || strings.HasSuffix(p, "keep.txt")) {
				viol("pre-existing-file-touched", p)
			}
		}
	}
	if failed {
		// a failure of the final write loop itself (e.g. a plugin file named like a
		// core directory) is not among the failures the property lists: confinement is
		// still judged above, atomicity is not
		writeLoop := strings.Contains(errText, "failed to write") || strings.Contains(errText, "could not create directory")
		if writeLoop {
			w.Count("write_loop_failures(not judged for atomicity)", 1)
			w.Outcome(level + ":write-loop-failure")
		} else if len(changed) > 0 {
			viol("not-all-or-nothing", "the run failed but the tree changed")
		} else {
			w.Outcome(level + ":failed-cleanly")
		}
		if !c.WantFail && !c.Hostile {
			viol("unexpected-failure", "a valid run failed")
		}
		return
	}
	if c.WantFail {
		viol("failure-not-reported", "the run was expected to fail (conflict / fault / invalid input) but succeeded")
		return
	}
	for _, f := range c.CoreFiles {
		if _, ok := after["work/out/"+f]; !ok {
			viol("core-file-misplaced", "expected generated file "+f+" under the output directory")
		}
	}
	w.Outcome(level + ":succeeded-confined")
}

// inProcessOrders repeats the in-process run under every map-iteration order with at
// most one deviating range execution (gen is built with the
// range rewrite, so the default order is the sorted one).
func (r *runner) inProcessOrders(c caseT) {
	ex := &choice.Explorer{Bound: 1}
	ex.Body = func(cx *choice.Ctx) {
		vmap.Reset()
		vmap.Chooser = func(site string, n, nAlts int) int { return cx.Deviate(nAlts, site) }
		defer func() { vmap.Chooser = nil }()
		cc := c
		var lab []string
		r.inProcess(cc)
		for i, pt := range cx.Trace {
			if pt.Choice != 0 {
				lab = append(lab, fmt.Sprintf("%s#%d=order%d", pt.Label, i, pt.Choice))
			}
		}
		_ = lab
	}
	func() {
		// the two plugins of a case answer concurrently and internal/plugin's own map
		// iterations are not owned here: if that makes a recorded prefix unreplayable the
		// exploration of this case is abandoned (counted), the executions done so far stand
		defer func() {
			if p := recover(); p != nil {
				vmap.Chooser = nil
				r.w.Count("order_explorations_abandoned(replay diverged)", 1)
			}
		}()
		ex.Run()
	}()
	r.w.R.States += ex.Stats.States
	r.w.R.Transitions += ex.Stats.Transitions
	r.w.Count("executions_under_map_orders", ex.Stats.Executions)
}

func (r *runner) inProcess(c caseT) {
	w := r.w
	root, thriftDir, outDir := r.sandbox(c)
	before := snapshot(root)
	var runErr error
	func() {
		defer func() {
			if p := recover(); p != nil {
				if strings.Contains(fmt.Sprint(p), "replay divergence") {
					panic(p) // the explorer's own signal, not the product's: handled in inProcessOrders
				}
				runErr = fmt.Errorf("PANIC %v", p)
			}
		}()
		m, err := compile.Compile(filepath.Join(thriftDir, c.Root))
		if err != nil {
			runErr = err
			return
		}
		var multi verifhook.PluginMultiHandle
		for _, ps := range c.Plugins {
			mp := &memPlugin{name: ps.Name, hsName: ps.HsName, ver: int32(api.APIVersion) + ps.Ver, files: resolved(ps.Files, root), genFault: ps.GenFault}
			h, err := verifhook.NewTransportHandle(ps.Name, mp)
			if err != nil {
				runErr = err
				multi.Close()
				return
			}
			multi = append(multi, h)
		}
		defer multi.Close()
		o := &gen.Options{OutputDir: outDir, PackagePrefix: "x/y", ThriftRoot: filepath.Join(thriftDir, c.ThriftRoot), NoVersionCheck: true,
			Plugin: gen.CodeGenerator{ServiceGenerator: multi.ServiceGenerator()}}
		runErr = gen.Generate(m, o)
	}()
	after := snapshot(root)
	errText := ""
	if runErr != nil {
		errText = runErr.Error()
		if strings.HasPrefix(errText, "PANIC") {
			w.Violation("in-process:panic", c.Desc+": "+errText, c)
			return
		}
	}
	r.judge(c, "in-process", before, after, runErr != nil, errText)
}

func (r *runner) process(c caseT, thriftrw, pluginbin string) {
	root, thriftDir, outDir := r.sandbox(c)
	logs := filepath.Join(r.dir, "logs")
	os.RemoveAll(logs)
	os.MkdirAll(logs, 0o755)
	args := []string{"--out", outDir, "--pkg-prefix", "x/y", "--no-version-check", "--thrift-root", filepath.Join(thriftDir, c.ThriftRoot)}
	for _, ps := range c.Plugins {
		sc := map[string]interface{}{"api_version": int32(api.APIVersion) + ps.Ver, "handshake": map[string]interface{}{"fault": "ok"}, "generate": map[string]interface{}{"fault": "ok"}, "goodbye": map[string]interface{}{"fault": "ok"}, "files": resolved(ps.Files, root)}
		if ps.HsName != ps.Name {
			sc["handshake"] = map[string]interface{}{"fault": "wrong-name"}
		}
		if ps.Ver != 0 {
			sc["api_version"] = int32(api.APIVersion)
			sc["handshake"] = map[string]interface{}{"fault": "wrong-version"}
		}
		if ps.GenFault != "" {
			sc["generate"] = map[string]interface{}{"fault": ps.GenFault}
		}
		b, _ := json.Marshal(sc)
		os.WriteFile(filepath.Join(logs, ps.Name+".json"), b, 0o644)
		args = append(args, "--plugin", ps.Name)
	}
	args = append(args, filepath.Join(thriftDir, c.Root))
	before := snapshot(root)
	cmd := exec.Command(thriftrw, args...)
	cmd.Env = append(os.Environ(), "PATH="+pluginbin+":"+os.Getenv("PATH"), "FAKEPLUGIN_DIR="+logs)
	cmd.Dir = filepath.Join(root, "work")
	var stderr bytes.Buffer
	cmd.Stderr = &stderr
	err := cmd.Run()
	after := snapshot(root)
	r.judge(c, "process", before, after, err != nil, stderr.String())
}

func run(w *ev.W) {
	dir, err := os.MkdirTemp(w.WorkDir, "c17")
	if err != nil {
		w.Note(err.Error())
		return
	}
	defer os.RemoveAll(dir)
	r := &runner{w: w, dir: dir}
	for i, c := range cases(w.Quick()) {
		if !w.Own() {
			continue
		}
		if w.Expired() {
			w.Cap("time budget reached before all cases were run")
			return
		}
		w.Eval(1)
		if c.Hostile {
			w.Nontrivial(1)
		}
		if w.WantSample() && i%41 == 0 {
			w.Sample(c)
		}
		w.Progress("in-process " + c.Desc)
		vmap.Reset()
		r.inProcess(c)
		if c.Orders || c.WantFail {
			// every expected failure also under every map-iteration order of gen: what has
			// been written before the failure is detected may depend on it
			r.inProcessOrders(c)
		}
		// process level: everything that is not one of the bulk path cases, and every 9th path case
		if !c.InProcessOnly && (!strings.HasPrefix(c.Desc, "path ") || i%9 == 0 || strings.Contains(c.Desc, "..") && i%3 == 0) {
			w.Progress("process " + c.Desc)
			r.process(c, w.Args["thriftrw"], w.Args["pluginbin"])
			w.Count("process_level_runs", 1)
		}
		w.Done()
	}
}

var _ = binary.BigEndian
