package c07

import (
	"fmt"
	"regexp"
	"sort"
	"strings"

	"verif/engine/choice"
)

// Non-interference family. A constant (or a default) may be referenced where a
// type other than its own is declared; the reference casts the referenced value
// again. Whatever the referrers do, every definition must come out exactly as it
// does in the program that holds only that definition and what it depends on:
// the oracle is differential (full program against its sub-programs), so no
// expected value is written by hand, and it holds under every map order.

type ifBase struct {
	name string // constant name
	decl string // its declaration
	// targets: type expressions a reference to this constant can be cast to
	targets []string
}

const ifPrelude = "enum E { P = 0, Q = 1, R = 2 }\n" +
	"struct A { 1: optional i32 x = 5; 2: optional double y }\n" +
	"struct B { 1: optional i32 x; 2: optional i32 y }\n" +
	"struct C { 1: optional i64 y; 2: optional string z = \"d\"; 3: optional list<double> l = [7] }\n" +
	"typedef B TB\ntypedef list<i32> TL\ntypedef map<i32, i32> TM\n"

var ifBases = []ifBase{
	{"L", "const list<i32> L = [0, 1, 2]", []string{"list<i32>", "list<i64>", "list<double>", "list<E>", "set<i32>", "set<double>", "TL", "list<i8>"}},
	{"M", "const map<i32, i32> M = {1: 2}", []string{"map<i32, i32>", "map<i32, double>", "map<double, i32>", "map<i64, E>", "TM", "map<E, double>"}},
	{"SB", "const B SB = {\"y\": 2}", []string{"B", "TB", "A", "C"}},
	{"LB", "const list<B> LB = [{\"y\": 2}, {}]", []string{"list<B>", "list<TB>", "list<A>", "list<C>", "set<B>"}},
	{"MS", "const map<i32, B> MS = {1: {\"y\": 2}}", []string{"map<i32, B>", "map<double, A>", "map<i64, C>"}},
	{"LL", "const list<list<i32>> LL = [[1], [2, 0]]", []string{"list<list<i32>>", "list<list<double>>", "list<set<i64>>", "list<TL>"}},
}

// referrer forms: how the reference is used
var ifForms = []string{"const", "default", "element", "field"}

func ifReferrer(form, name, target, base string, k int) (string, bool) {
	switch form {
	case "const":
		return fmt.Sprintf("const %s %s = %s", target, name, base), true
	case "default":
		return fmt.Sprintf("struct %s { 1: optional %s f = %s }", name, target, base), true
	case "element":
		return fmt.Sprintf("const list<%s> %s = [%s, %s]", target, name, base, base), true
	case "field":
		return fmt.Sprintf("struct W%d { 1: optional %s w }\nconst W%d %s = {\"w\": %s}", k, target, k, name, base), true
	}
	return "", false
}

var ifRename = regexp.MustCompile(`\b([RW])0\b`)

// defLines extracts the description lines of the named definitions from a dump.
func defLines(dump string) map[string]string {
	out := map[string]string{}
	for _, l := range strings.Split(dump, "\n") {
		f := strings.Fields(l)
		if len(f) < 2 {
			continue
		}
		switch f[0] {
		case "const", "type":
			out[f[0]+" "+f[1]] = l
		}
	}
	return out
}

func (r *runner) interference() {
	w := r.w
	type ref struct{ form, target string }
	for _, b := range ifBases {
		var refs []ref
		for _, f := range ifForms {
			for _, t := range b.targets {
				refs = append(refs, ref{f, t})
			}
		}
		// the description of every definition in the program that holds the base and ONE referrer
		single := map[ref]map[string]string{}
		prog := func(rs ...ref) map[string]string {
			var sb strings.Builder
			sb.WriteString(ifPrelude)
			sb.WriteString(b.decl + "\n")
			for i, x := range rs {
				d, _ := ifReferrer(x.form, fmt.Sprintf("R%d", i), x.target, b.name, i)
				sb.WriteString(d + "\n")
			}
			return map[string]string{"/m/f0.thrift": sb.String()}
		}
		baseOut, _ := outcomeAt("/m/f0.thrift", prog(), nil)
		if !strings.HasPrefix(baseOut, "OK") {
			w.Note("interference: base program of " + b.name + " does not compile (harness)")
			continue
		}
		baseLines := defLines(baseOut)
		okAlone := map[ref]bool{}
		for _, x := range refs {
			out, _ := outcomeAt("/m/f0.thrift", prog(x), nil)
			okAlone[x] = strings.HasPrefix(out, "OK")
			single[x] = defLines(out)
		}
		for i, x := range refs {
			for j, y := range refs {
				if !w.Own() {
					continue
				}
				if w.Expired() {
					w.Cap("time budget reached inside the non-interference family")
					return
				}
				if w.Quick() && (i+j)%3 != 0 && x.form != "const" && y.form != "const" {
					continue // quick: every pair with a constant referrer, a third of the others
				}
				w.Eval(1)
				w.Nontrivial(1)
				w.Count("interference_programs", 1)
				files := prog(x, y)
				rep := map[string]interface{}{"files": files, "name": "interference:" + b.name}
				desc := fmt.Sprintf("%s referenced as %s %s and as %s %s", b.name, x.form, x.target, y.form, y.target)
				distinct := map[string]bool{}
				reported := false
				ex := &choice.Explorer{Bound: r.bound}
				ex.Body = func(c *choice.Ctx) {
					out, msg := outcomeAt("/m/f0.thrift", files, c)
					distinct[out] = true
					if reported {
						return
					}
					if !strings.HasPrefix(out, "OK") {
						if okAlone[x] && okAlone[y] {
							reported = true
							w.Violation("interference:rejected:"+b.name, fmt.Sprintf("%s: each reference compiles alone, together they are rejected (choices %v): %.300s; program %q", desc, c.Vector(), msg, files["/m/f0.thrift"]), rep)
						}
						return
					}
					if !okAlone[x] || !okAlone[y] {
						return // (a referrer that does not compile alone: nothing to compare)
					}
					got := defLines(out)
					// the second referrer is R1 in the pair program and R0 alone: compare by content after renaming
					exp := map[string]string{}
					for k, v := range baseLines {
						exp[k] = v
					}
					for k, v := range single[x] {
						exp[k] = v
					}
					for k, v := range single[y] {
						exp[ifRename.ReplaceAllString(k, "${1}1")] = ifRename.ReplaceAllString(v, "${1}1")
					}
					var ks []string
					for k := range exp {
						ks = append(ks, k)
					}
					sort.Strings(ks)
					for _, k := range ks {
						if g, ok := got[k]; ok && g != exp[k] {
							reported = true
							w.Violation("interference:value:"+b.name, fmt.Sprintf("%s (choices %v): %q in the program with both references, %q in the program without the other one; program %q", desc, c.Vector(), g, exp[k], files["/m/f0.thrift"]), rep)
							return
						}
					}
				}
				ex.Run()
				w.R.States += ex.Stats.States
				w.R.Transitions += ex.Stats.Transitions
				if len(distinct) > 1 && !reported {
					w.Violation("interference:order-dependent:"+b.name, fmt.Sprintf("%s: %d different results under different map orders; program %q", desc, len(distinct), files["/m/f0.thrift"]), rep)
				} else if !reported {
					w.Outcome("interference:OK")
				}
				w.Done()
			}
		}
	}
}
