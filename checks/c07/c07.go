// Package c07: references resolve to the right definitions, independent of
// ordering (DESIGN.md §3 C07). Built with the E3 map-range overlay on package
// compile, so every `range` over a map in the compiler is an explorer choice.
package c07

import (
	"encoding/json"
	"fmt"
	"os"
	"sort"
	"strings"
	"time"

	"go.uber.org/thriftrw/compile"
	"go.uber.org/thriftrw/verifshim/vmap"
	"verif/bridge/memfs"
	"verif/bridge/moddump"
	"verif/engine/choice"
	"verif/engine/ev"
	"verif/ref/resolve"
)

// Check is the registered check.
var Check = &ev.Check{
	ID:    "C07",
	Level: "model_checking",
	Rule: "programs: every reference graph of n<=3 definitions (named N0..N2; in multi-file layouts also with two definitions of different files sharing one bare name) over kinds {typedef, struct(one optional field, optional default), enum, const, service(optional parent, one function)}, every definition choosing its references from " +
		"{i32, string, each definition expressible from its file (same file or an included one), list<each definition>, one undefined name; constants: int, string, each constant, each enum item}, in layouts {one file; two files f0->f1 with every assignment of definitions to files; two files including each other; chain f0->f1->f2; siblings f0->{f1,f2}, f1->f2; diamond f0->{f1,f2}->f3; samebase f0->{f1,f2}, f2->d/f1.thrift (two files with one base name)}. " +
		"schedules: for each program every map-iteration order at every `range`-over-map execution in package compile (all n! orders for n<=4 keys) with at most 1 (quick) / 2 (thorough) deviating range executions per compile, and every permutation of the definitions within each file. " +
		"A state is a node of the choice tree (a prefix of order choices); a transition is one order choice; every execution is a run of the real compiler built from /repo's tree. " +
		"Oracle: all executions of one program agree on success/failure and on the canonical dump of the module graph, and on success the dump equals ref/resolve's. Plus named single programs (constants whose type leads back to them through includes, literals that spell out a back reference, container constants referenced under other element types) compiled from every file as root under every order: accepted, one description, and the constants have the stated values. distinct_nontrivial = programs with at least one reference between definitions.",
	Run: run,
	Budget: func(t string) time.Duration {
		return map[string]time.Duration{"quick": 4 * time.Minute, "thorough": 25 * time.Minute}[t]
	},
	Assumptions: []string{
		"the overlay's range rewrite preserves semantics (validated per run: default-order results equal the un-instrumented semantics by construction of sorted order being one legal map order)",
		"programs beyond 3 definitions / the stated reference alphabet are not covered",
		"rejection of a program the reference deems valid is C06's business and only counted here",
	},
}

type progCase struct {
	P      resolve.Prog `json:"prog"`
	Layout string       `json:"layout"`
}

func outcomeOf(p *resolve.Prog, files map[string]string, c *choice.Ctx) (string, string) {
	return outcomeAt(resolve.Path(0), files, c)
}

// outcomeAt compiles the program starting from the given spelling of the root path.
func outcomeAt(root string, files map[string]string, c *choice.Ctx) (string, string) {
	vmap.Reset()
	if c != nil {
		vmap.Chooser = func(site string, n, nAlts int) int { return c.Deviate(nAlts, site) }
	}
	fs := memfs.FS(files)
	var m *compile.Module
	var err error
	var pan interface{}
	func() {
		defer func() { pan = recover() }()
		m, err = compile.Compile(root, compile.Filesystem(fs))
	}()
	vmap.Chooser = nil
	if pan != nil {
		return "PANIC", fmt.Sprint(pan)
	}
	if err != nil {
		return "ERROR", err.Error()
	}
	d := ""
	func() {
		defer func() {
			if r := recover(); r != nil {
				d = fmt.Sprintf("DUMP-PANIC %v", r)
			}
		}()
		d = moddump.Dump(m)
	}()
	return "OK\n" + d, ""
}

type runner struct {
	w       *ev.W
	bound   int
	stopped bool
}

func kindSet(p *resolve.Prog) string {
	set := map[string]bool{}
	for _, d := range p.Defs {
		set[d.Kind] = true
	}
	var ks []string
	for k := range set {
		ks = append(ks, k)
	}
	sort.Strings(ks)
	return strings.Join(ks, "+")
}

func firstDiff(a, b string) string {
	la, lb := strings.Split(a, "\n"), strings.Split(b, "\n")
	for i := 0; i < len(la) || i < len(lb); i++ {
		x, y := "", ""
		if i < len(la) {
			x = la[i]
		}
		if i < len(lb) {
			y = lb[i]
		}
		if x != y {
			return fmt.Sprintf("%q vs %q", x, y)
		}
	}
	return ""
}

func (r *runner) one(pc progCase) {
	w := r.w
	p := &pc.P
	files := p.Render()
	exp := p.Resolve()
	w.Eval(1)
	hasRef := false
	for _, d := range p.Defs {
		if (d.Type.Base == "" && !d.Type.Undef) || d.Val.Kind == "const" || d.Val.Kind == "item" || d.Parent >= 0 {
			hasRef = true
		}
	}
	if hasRef {
		w.Nontrivial(1)
	}
	src, _ := json.Marshal(files)
	rep := map[string]interface{}{"files": files, "layout": pc.Layout}

	// baseline: default (sorted) order everywhere
	base, baseErr := outcomeOf(p, files, nil)
	baseClass := strings.SplitN(base, "\n", 2)[0]
	w.Outcome("baseline:" + baseClass)
	if w.WantSample() && w.Idx()%401 == 0 {
		w.Sample(map[string]interface{}{"files": files, "baseline": baseClass, "reference_valid": exp.Valid})
	}
	if baseClass == "PANIC" {
		w.Violation("panic:"+kindSet(p), fmt.Sprintf("compile panicked: %s on %s", baseErr, src), rep)
		return
	}
	// reference comparison
	switch {
	case baseClass == "OK" && exp.Valid:
		if got := strings.TrimPrefix(base, "OK\n"); got != exp.Dump {
			w.Violation("binding:"+kindSet(p), fmt.Sprintf("compiled module differs from the reference resolution on %s: first difference (compiled vs reference): %s", src, firstDiff(got, exp.Dump)), rep)
		} else {
			w.Count("reference_agreements", 1)
		}
	case baseClass == "OK" && !exp.Valid:
		w.Violation("accepted-invalid:"+kindSet(p), fmt.Sprintf("compiled successfully although no valid binding exists (%s): %s", exp.Why, src), rep)
	case exp.Valid:
		w.Count("note_rejected_but_reference_valid", 1)
		if w.R.Counters["note_rejected_but_reference_valid"] <= 3 {
			w.Note(fmt.Sprintf("rejected although the reference deems it valid (C06 territory): %s :: %s", src, baseErr))
		}
	default:
		w.Count("both_reject", 1)
	}

	// other spellings of the root path name the same file: same result, one module per file
	if p.NFiles > 1 {
		for _, root := range []string{"/m/./f0.thrift", "/m/x/../f0.thrift"} {
			out, _ := outcomeAt(root, files, nil)
			w.Count("root_path_spellings", 1)
			if out != base {
				w.Violation("root-path-spelling:"+pc.Layout, fmt.Sprintf("compiling the same program from root path %q gives %s instead of the result for %q; first difference %s; files %s",
					root, strings.SplitN(out, "\n", 2)[0], resolve.Path(0), firstDiff(base, out), src), rep)
				break
			}
		}
	}

	// all map orders within the deviation bound
	distinct := map[string][]int{"": nil}
	delete(distinct, "")
	var firstVec = map[string][]string{}
	ex := &choice.Explorer{Bound: r.bound}
	ex.Body = func(c *choice.Ctx) {
		out, _ := outcomeOf(p, files, c)
		if _, ok := distinct[out]; !ok {
			distinct[out] = c.Vector()
			var lab []string
			for i, pt := range c.Trace {
				if pt.Choice != 0 {
					lab = append(lab, fmt.Sprintf("%s#%d=order%d", pt.Label, i, pt.Choice))
				}
			}
			firstVec[out] = lab
		}
	}
	ex.Stop = func() bool { return false }
	ex.Run()
	w.R.States += ex.Stats.States
	w.R.Transitions += ex.Stats.Transitions
	w.R.Traces += ex.Stats.Executions
	w.Count("executions_with_nondefault_order", ex.Stats.NonDefault)
	if ex.Stats.MaxDepth > int(w.R.Counters["max_choice_depth"]) {
		w.R.Counters["max_choice_depth"] = int64(ex.Stats.MaxDepth)
	}
	if _, ok := distinct[base]; !ok {
		w.Violation("harness-nondeterminism", fmt.Sprintf("the default-order execution under the explorer differs from the plain one on %s", src), rep)
	}
	if len(distinct) > 1 {
		var descr []string
		for out, lab := range firstVec {
			cls := strings.SplitN(out, "\n", 2)[0]
			descr = append(descr, fmt.Sprintf("[%s under %v]", cls, lab))
		}
		sort.Strings(descr)
		var a, b string
		for out := range distinct {
			if out != base {
				a, b = base, out
			}
		}
		rep["orders"] = firstVec
		w.Violation("order-dependent:"+kindSet(p), fmt.Sprintf("%d different results for one program depending on map iteration order: %s; first difference: %s; program %s",
			len(distinct), strings.Join(descr, " "), firstDiff(a, b), src), rep)
		w.Outcome("order-dependent")
	}

	// every permutation of the definitions within each file (default map order)
	perFile := make([][]int, p.NFiles)
	for i, d := range p.Defs {
		perFile[d.File] = append(perFile[d.File], i)
	}
	var permute func(f int, order [][]int)
	permute = func(f int, order [][]int) {
		if f == p.NFiles {
			q := *p
			q.Order = order
			out, _ := outcomeOf(&q, q.Render(), nil)
			w.R.Traces++
			w.Count("definition_permutation_runs", 1)
			if out != base {
				w.Violation("definition-order-dependent:"+kindSet(p), fmt.Sprintf("reordering the definitions changes the result: %s vs baseline; first difference %s; files %v", strings.SplitN(out, "\n", 2)[0], firstDiff(base, out), q.Render()), rep)
			}
			return
		}
		ids := perFile[f]
		n := len(ids)
		for k := 0; k < choice.Fact(n); k++ {
			pm := choice.Perm(n, k)
			o := make([]int, n)
			for i, j := range pm {
				o[i] = ids[j]
			}
			permute(f+1, append(append([][]int{}, order...), o))
		}
	}
	permute(0, nil)
}

// ---- program enumeration

type layout struct {
	name     string
	nfiles   int
	includes [][]int
	// assignments of n definitions to files
	assign func(n int) [][]int
}

func allAssign(nf int, needAll bool) func(n int) [][]int {
	return func(n int) [][]int {
		var out [][]int
		cur := make([]int, n)
		var rec func(i int)
		rec = func(i int) {
			if i == n {
				used := map[int]bool{}
				for _, f := range cur {
					used[f] = true
				}
				if needAll && len(used) < nf && n >= nf {
					return
				}
				if nf > 1 && len(used) == 1 && cur[0] == 0 {
					return // everything in f0 is the one-file layout
				}
				out = append(out, append([]int{}, cur...))
				return
			}
			for f := 0; f < nf; f++ {
				cur[i] = f
				rec(i + 1)
			}
		}
		rec(0)
		return out
	}
}

var layouts = []layout{
	{"one", 1, [][]int{{}}, func(n int) [][]int { return [][]int{make([]int, n)} }},
	{"inc", 2, [][]int{{1}, {}}, allAssign(2, false)},
	{"cyc", 2, [][]int{{1}, {0}}, allAssign(2, true)},
	{"chain3", 3, [][]int{{1}, {2}, {}}, func(n int) [][]int {
		if n != 3 {
			return nil
		}
		return [][]int{{0, 1, 2}}
	}},
	{"siblings", 3, [][]int{{1, 2}, {2}, {}}, func(n int) [][]int {
		if n != 3 {
			return nil
		}
		return [][]int{{1, 2, 2}, {0, 1, 2}}
	}},
	{"diamond", 4, [][]int{{1, 2}, {3}, {3}, {}}, func(n int) [][]int {
		if n != 3 {
			return nil
		}
		return [][]int{{3, 1, 2}, {3, 1, 1}}
	}},
	// f0 -> {f1, f2}, f2 -> d/f1.thrift: two different files with one base name
	{"samebase", 4, [][]int{{1, 2}, {}, {3}, {}}, func(n int) [][]int {
		switch n {
		case 2:
			return [][]int{{1, 3}, {3, 2}}
		case 3:
			return [][]int{{1, 3, 2}, {3, 1, 2}, {1, 3, 0}, {3, 3, 2}}
		}
		return nil
	}},
}

// layoutPaths gives the files of a layout their paths (nil = /m/f<i>.thrift).
var layoutPaths = map[string][]string{"samebase": {"", "", "", "d/f1.thrift"}}

func typeRefs(n int, withList, withString bool, ok func(j int) bool) []resolve.TRef {
	out := []resolve.TRef{{Base: "i32"}}
	if withString {
		out = append(out, resolve.TRef{Base: "string"})
	}
	for j := 0; j < n; j++ {
		if ok(j) {
			out = append(out, resolve.TRef{Def: j})
		}
	}
	if withList {
		for j := 0; j < n; j++ {
			if ok(j) {
				out = append(out, resolve.TRef{Def: j, List: true})
			}
		}
	}
	out = append(out, resolve.TRef{Undef: true})
	return out
}

func variants(kind string, n int, kinds []string, thorough bool, ok func(j int) bool) []resolve.Def {
	var out []resolve.Def
	none := resolve.VRef{Kind: "none"}
	switch kind {
	case resolve.Typedef:
		for _, t := range typeRefs(n, true, false, ok) {
			out = append(out, resolve.Def{Kind: kind, Type: t, Val: none, Parent: -1})
		}
	case resolve.Struct:
		for _, t := range typeRefs(n, true, true, ok) {
			out = append(out, resolve.Def{Kind: kind, Type: t, Val: none, Parent: -1})
			if t.List || t.Undef {
				continue
			}
			for j := 0; j < n; j++ {
				if ok(j) && (kinds[j] == resolve.Const || thorough) {
					out = append(out, resolve.Def{Kind: kind, Type: t, Val: resolve.VRef{Kind: "const", Def: j}, Parent: -1})
				}
			}
		}
	case resolve.Enum:
		out = append(out, resolve.Def{Kind: kind, Val: none, Parent: -1})
	case resolve.Const:
		for _, t := range typeRefs(n, false, true, ok) {
			if t.Undef && !thorough {
				continue
			}
			vals := []resolve.VRef{{Kind: "int", Int: 5}, {Kind: "str", Str: "s"}}
			for j := 0; j < n; j++ {
				if !ok(j) {
					continue
				}
				if kinds[j] == resolve.Const || thorough {
					vals = append(vals, resolve.VRef{Kind: "const", Def: j})
				}
				if kinds[j] == resolve.Enum {
					vals = append(vals, resolve.VRef{Kind: "item", Def: j})
				}
			}
			for _, v := range vals {
				out = append(out, resolve.Def{Kind: kind, Type: t, Val: v, Parent: -1})
			}
		}
	case resolve.Service:
		for par := -1; par < n; par++ {
			if par >= 0 && (!ok(par) || (kinds[par] != resolve.Service && !thorough)) {
				continue
			}
			for _, t := range typeRefs(n, false, false, ok) {
				out = append(out, resolve.Def{Kind: kind, Type: t, Val: none, Parent: par})
			}
		}
	}
	return out
}

func isTypeKind(k string) bool {
	return k == resolve.Typedef || k == resolve.Struct || k == resolve.Enum
}

// Enumerate yields the C07 program family (also used by C10).
func Enumerate(quick bool, yield func(p resolve.Prog, layout string)) {
	enumerateQ(quick, func(pc progCase) { yield(pc.P, pc.Layout) })
}

func enumerate(w *ev.W, yield func(progCase)) { enumerateQ(w.Quick(), yield) }

func enumerateQ(quick bool, yield func(progCase)) {
	kindAlpha := []string{resolve.Typedef, resolve.Struct, resolve.Enum, resolve.Const, resolve.Service}
	for _, lay := range layouts {
		for n := 1; n <= 3; n++ {
			maxN := 3

			if lay.name == "diamond" || lay.name == "chain3" || lay.name == "siblings" {
				maxN = 3
			}
			if n > maxN {
				continue
			}
			assigns := lay.assign(n)
			if len(assigns) == 0 {
				continue
			}
			// kind vectors
			kv := make([]int, n)
			for {
				kinds := make([]string, n)
				for i, k := range kv {
					kinds[i] = kindAlpha[k]
				}
				for _, as := range assigns {
					as := as
					vs := make([][]resolve.Def, n)
					for i := range kinds {
						i := i
						// only expressible references: same file, or a file this one includes
						reach := func(j int) bool {
							if as[i] == as[j] {
								return true
							}
							for _, inc := range lay.includes[as[i]] {
								if inc == as[j] {
									return true
								}
							}
							return false
						}
						vs[i] = variants(kinds[i], n, kinds, n < 3, reach)
					}
					idx := make([]int, n)
					for {
						defs := make([]resolve.Def, n)
						for i := range defs {
							defs[i] = vs[i][idx[i]]
							defs[i].File = as[i]
						}
						yield(progCase{Layout: lay.name, P: resolve.Prog{Defs: defs, NFiles: lay.nfiles, Includes: lay.includes, Paths: layoutPaths[lay.name]}})
						// the same program with two definitions of different files sharing one bare name
						for i := 0; i < n; i++ {
							for j := i + 1; j < n; j++ {
								if as[i] != as[j] && (n <= 2 || !quick || (isTypeKind(kinds[i]) && isTypeKind(kinds[j]))) {
									names := make([]int, n)
									for k := range names {
										names[k] = k
									}
									names[j] = i
									yield(progCase{Layout: lay.name + "+samename", P: resolve.Prog{Defs: defs, NFiles: lay.nfiles, Includes: lay.includes, Names: names, Paths: layoutPaths[lay.name]}})
								}
							}
						}
						k := n - 1
						for k >= 0 {
							idx[k]++
							if idx[k] < len(vs[k]) {
								break
							}
							idx[k] = 0
							k--
						}
						if k < 0 {
							break
						}
					}
				}
				k := n - 1
				for k >= 0 {
					kv[k]++
					if kv[k] < len(kindAlpha) {
						break
					}
					kv[k] = 0
					k--
				}
				if k < 0 {
					break
				}
			}
		}
	}
}

func run(w *ev.W) {
	r := &runner{w: w, bound: 1}
	if !w.Quick() {
		r.bound = 2
	}
	if rp := w.Args["replay"]; rp != "" {
		raw, _ := os.ReadFile(rp)
		var f struct {
			First struct {
				Replay struct {
					Files map[string]string `json:"files"`
				} `json:"replay"`
			} `json:"first"`
		}
		json.Unmarshal(raw, &f)
		w.Note("replay re-runs the recorded files under all map orders")
		replayFiles(w, f.First.Replay.Files, r.bound)
		return
	}
	w.Count("max_choice_depth", 0)
	r.namedPrograms()
	r.interference()
	r.structFamily()
	n := 0
	enumerate(w, func(pc progCase) {
		if r.stopped || !w.Own() {
			return
		}
		n++
		if n&63 == 0 && w.Expired() {
			w.Cap("time budget reached before the program space was exhausted (layouts in order one, inc, cyc, diamond; n ascending)")
			r.stopped = true
			return
		}
		r.one(pc)
		w.Count("programs:"+pc.Layout, 1)
		w.Done()
	})
	// proof of ownership: the range sites reached in this worker
	var sites []string
	for s := range vmap.Sites {
		sites = append(sites, s)
	}
	sort.Strings(sites)
	if w.Shard == 0 {
		w.Note("map-range sites reached by the last execution: " + strings.Join(sites, " "))
	}
}

func constLines(dump string) string {
	var out []string
	for _, l := range strings.Split(dump, "\n") {
		if strings.HasPrefix(l, "const ") {
			out = append(out, l)
		}
	}
	return strings.Join(out, " ; ")
}

func replayFiles(w *ev.W, files map[string]string, bound int) {
	outs := map[string]bool{}
	ex := &choice.Explorer{Bound: bound}
	ex.Body = func(c *choice.Ctx) {
		vmap.Reset()
		vmap.Chooser = func(site string, n, nAlts int) int { return c.Deviate(nAlts, site) }
		m, err := compile.Compile(resolve.Path(0), compile.Filesystem(memfs.FS(files)))
		vmap.Chooser = nil
		if err != nil {
			outs["ERROR"] = true
			w.Note(fmt.Sprintf("replay outcome: ERROR %v", err))
			return
		}
		w.Note("replay outcome: OK")
		outs["OK\n"+moddump.Dump(m)] = true
	}
	ex.Run()
	w.Eval(1)
	w.R.States += ex.Stats.States
	w.R.Transitions += ex.Stats.Transitions
	w.R.Traces += ex.Stats.Executions
	w.Sample(files)
	if len(outs) > 1 {
		w.Violation("order-dependent:replay", fmt.Sprintf("%d different results under different map orders", len(outs)), map[string]interface{}{"files": files})
	}
}

// namedPrograms: single programs outside the systematic families, each valid by
// construction, compiled from every file of the program as root under every map
// order: accepted from every root, with the same result.
func (r *runner) namedPrograms() {
	w := r.w
	progs := []struct {
		name  string
		files map[string]string
		// want: substrings that the description of the module compiled from f0 must contain
		want []string
	}{
		// the TYPE of constant X leads, through an include cycle, to a default that refers
		// to X; X's value does not depend on itself
		{"const-type-cycle-through-include", map[string]string{
			"/m/f0.thrift": "include \"./f1.thrift\"\nconst list<f1.S> X = []\n",
			"/m/f1.thrift": "include \"./f0.thrift\"\nstruct S { 1: optional list<S> l = f0.X }\n"}, nil},
		{"const-struct-type-cycle-through-include", map[string]string{
			"/m/f0.thrift": "include \"./f1.thrift\"\nconst f1.S X = {}\n",
			"/m/f1.thrift": "include \"./f0.thrift\"\nstruct S { 1: optional i32 a = 1; 2: optional list<S> l }\nstruct T { 1: optional S s = f0.X }\n"}, nil},
		{"const-type-cycle-same-file", map[string]string{
			"/m/f0.thrift": "const list<S> X = []\nstruct S { 1: optional list<S> l = X }\n"}, nil},
		// a literal that spells out the field leading back to the struct being linked
		{"literal-names-back-reference", map[string]string{
			"/m/f0.thrift": "struct S { 1: optional T t }\nstruct T { 1: optional S s = {\"t\": {\"s\": {}}} }\n"}, nil},
		{"literal-names-back-reference-through-include", map[string]string{
			"/m/f0.thrift": "include \"./f1.thrift\"\nstruct S { 1: optional f1.T t }\n",
			"/m/f1.thrift": "include \"./f0.thrift\"\nstruct T { 1: optional f0.S s = {\"t\": {\"s\": {}}} }\n"}, nil},
		// a container constant referenced under other element types: every referrer has its
		// own cast value and the referenced constant keeps the one of its declared type
		{"list-constant-referenced-under-other-element-types", map[string]string{
			"/m/f0.thrift": "include \"./f1.thrift\"\nconst list<double> W = f1.SIZES\nconst list<i64> L = f1.SIZES\nconst list<bool> B = f1.BITS\nstruct H { 1: optional list<double> w = f1.SIZES; 2: optional list<f1.E> e = f1.SIZES }\n",
			"/m/f1.thrift": "enum E { A = 1, B = 2, C = 3 }\nconst list<i32> SIZES = [1, 2, 3]\nconst list<i32> BITS = [0, 1]\nconst list<i32> AGAIN = SIZES\n"},
			[]string{
				"f1.thrift:SIZES type=list<i32> value=[int:1,int:2,int:3]",
				"f1.thrift:AGAIN type=list<i32> value=[int:1,int:2,int:3]",
				"f1.thrift:BITS type=list<i32> value=[int:0,int:1]",
				"f0.thrift:W type=list<double> value=[double:1,double:2,double:3]",
				"f0.thrift:L type=list<i64> value=[int:1,int:2,int:3]",
			}},
		// a struct constant referenced where another struct type (or the same type under a
		// typedef) is declared: the referrer gets its own cast value, with the defaults of ITS
		// type; the referenced constant keeps the value of its own declared type
		{"struct-constant-referenced-under-another-struct-type", map[string]string{
			"/m/f0.thrift": "struct A { 1: optional i32 x = 5; 2: optional double y }\nstruct B { 1: optional i32 x; 2: optional i32 y }\ntypedef B TB\nconst B b = {\"y\": 2}\nconst A a = b\nconst TB t = b\nconst B b2 = b\n"},
			[]string{
				"f0.thrift:b type=/m/f0.thrift:B(struct) value=struct{y=int:2}",
				"f0.thrift:b2 type=/m/f0.thrift:B(struct) value=struct{y=int:2}",
				"f0.thrift:a type=/m/f0.thrift:A(struct) value=struct{x=int:5;y=double:2}",
			}},
		{"struct-default-taken-from-a-constant-of-another-struct-type", map[string]string{
			"/m/f0.thrift": "include \"./f1.thrift\"\nstruct A { 1: optional i32 x = 5 }\nstruct H { 1: optional A a = f1.b }\n",
			"/m/f1.thrift": "struct B { 1: optional i32 x }\nconst B b = {}\nconst B c = b\n"},
			[]string{
				"f1.thrift:b type=/m/f1.thrift:B(struct) value=struct{}",
				"f1.thrift:c type=/m/f1.thrift:B(struct) value=struct{}",
			}},
		{"set-and-map-constants-referenced-under-other-element-types", map[string]string{
			"/m/f0.thrift": "const set<i32> S = [1, 2]\nconst set<double> SD = S\nconst map<i32, i32> M = {1: 2}\nconst map<i32, double> MD = M\nconst map<double, i32> DM = M\nconst set<i32> S2 = S\nconst map<i32, i32> M2 = M\n"},
			[]string{
				"f0.thrift:S type=set<i32> value=set[int:1,int:2]",
				"f0.thrift:S2 type=set<i32> value=set[int:1,int:2]",
				"f0.thrift:M type=map<i32,i32> value=map{int:1:int:2}",
				"f0.thrift:M2 type=map<i32,i32> value=map{int:1:int:2}",
				"f0.thrift:SD type=set<double> value=set[double:1,double:2]",
				"f0.thrift:MD type=map<i32,double> value=map{int:1:double:2}",
				"f0.thrift:DM type=map<double,i32> value=map{double:1:int:2}",
			}},
	}
	for _, p := range progs {
		if !w.Own() {
			continue
		}
		w.Eval(1)
		w.Nontrivial(1)
		w.Count("named_programs", 1)
		rep := map[string]interface{}{"files": p.files, "name": p.name}
		results := map[string]string{}
		for root := range p.files {
			distinct := map[string]bool{}
			dumps := map[string]bool{}
			ex := &choice.Explorer{Bound: r.bound}
			ex.Body = func(c *choice.Ctx) {
				out, _ := outcomeAt(root, p.files, c)
				distinct[strings.SplitN(out, "\n", 2)[0]] = true
				dumps[out] = true
				if root == "/m/f0.thrift" && strings.HasPrefix(out, "OK") {
					for _, want := range p.want {
						if !strings.Contains(out, want+"\n") && !strings.HasSuffix(out, want) {
							w.Violation("wrong-value:named:"+p.name, fmt.Sprintf("compiled module does not contain %q (choice vector %v); constants: %.600s", want, c.Vector(), constLines(out)), rep)
						}
					}
				}
			}
			ex.Run()
			if len(dumps) > 1 {
				w.Violation("order-dependent:named:"+p.name, fmt.Sprintf("root %s: %d different results under different map orders", root, len(dumps)), rep)
			}
			w.R.States += ex.Stats.States
			w.R.Transitions += ex.Stats.Transitions
			var ks []string
			for k := range distinct {
				ks = append(ks, k)
			}
			sort.Strings(ks)
			results[root] = strings.Join(ks, "|")
		}
		bad := false
		for _, v := range results {
			if v != "OK" {
				bad = true
			}
		}
		if bad {
			_, msg := outcomeAt("/m/f0.thrift", p.files, nil)
			w.Violation("rejected-valid:named:"+p.name, fmt.Sprintf("a valid program is not accepted from every root under every order: results by root %v; error from f0: %.300s; files %v", results, msg, p.files), rep)
		} else {
			w.Outcome("named:OK")
		}
		w.Done()
	}
}
