package c07

// Struct-default family: two structs with two fields each, an enum, an integer
// constant and (optionally) a struct-typed constant; every field ranges over
// {i32, double, E, S0, S1} x the defaults that are legal for that type (none, an
// integer literal, an enum item, a constant reference, the empty struct literal
// {}). The empty struct literal is cast to the struct type, which fills in the
// declared defaults of that struct - a value that depends on another
// definition having been resolved, and on the scope of another file. Reference:
// a default is valid unless its expansion re-enters a default being expanded.

import (
	"encoding/json"
	"fmt"
	"sort"
	"strings"

	"verif/engine/choice"
	"verif/engine/ev"
	"verif/ref/resolve"
)

type sfField struct {
	Type string // "i32", "double", "E", "S0", "S1"
	Def  string // "", "1", "E.A", "K", "{}"
}

type sfProg struct {
	Fields       [2][2]sfField // struct index, field index
	Typedefs     bool          // typedef S0 A0; typedef S1 A1
	TypedefCross bool          // A0 is declared in S1's file and A1 in S0's file
	Const        bool          // const S0 C0 = {}
	Layout       int           // 0: one file; 1: S1,E,K in f1; 2: S1 in f1, E,K in f2
}

var sfOptions = []sfField{
	{"i32", ""}, {"i32", "1"}, {"i32", "K"},
	{"double", ""}, {"double", "1"},
	{"E", ""}, {"E", "E.A"}, {"E", "1"},
	{"S0", ""}, {"S0", "{}"},
	{"S1", ""}, {"S1", "{}"},
}

// sfOptionsTypedef: the struct types also through typedefs (A0 = typedef S0, A1 =
// typedef S1, declared next to their structs).
var sfOptionsTypedef = []sfField{
	{"i32", ""}, {"E", "E.A"},
	{"S0", ""}, {"S0", "{}"}, {"S1", ""}, {"S1", "{}"},
	{"A0", ""}, {"A0", "{}"}, {"A1", ""}, {"A1", "{}"},
	// container-typed fields whose element type is another definition, with a non-empty default
	{"list<E>", "[1]"}, {"list<S1>", "[{}]"},
	// ... and a typedef of such a container (L1 = typedef list<S1>, declared next to S1)
	{"L1", "[{}]"},
}

// fileOf says where a name lives under the layout.
func (p *sfProg) fileOf(name string) int {
	if name == "L1" {
		name = "S1"
	}
	if name == "A0" || name == "A1" {
		// a typedef lives next to its struct, or (TypedefCross) next to the OTHER struct
		if p.TypedefCross {
			name = "S" + string('0'+('1'-name[1]))
		} else {
			name = "S" + name[1:]
		}
	}
	switch p.Layout {
	case 1:
		if name == "S1" || name == "E" || name == "K" {
			return 1
		}
	case 2:
		if name == "S1" {
			return 1
		}
		if name == "E" || name == "K" {
			return 2
		}
	}
	return 0
}

func (p *sfProg) nfiles() int { return p.Layout + 1 }

func (p *sfProg) render() map[string]string {
	n := p.nfiles()
	body := make([]string, n)
	incl := make([]map[int]bool, n)
	for i := range incl {
		incl[i] = map[int]bool{}
	}
	ref := func(from int, name string) string {
		f := p.fileOf(name)
		if f == from {
			return name
		}
		incl[from][f] = true
		return fmt.Sprintf("f%d.%s", f, name)
	}
	for si := 0; si < 2; si++ {
		sn := fmt.Sprintf("S%d", si)
		f := p.fileOf(sn)
		var fs []string
		for fi, fd := range p.Fields[si] {
			t := fd.Type
			if strings.HasPrefix(t, "list<") {
				t = "list<" + ref(f, t[5:len(t)-1]) + ">"
			} else if t != "i32" && t != "double" {
				t = ref(f, t)
			}
			d := ""
			switch fd.Def {
			case "":
			case "E.A":
				d = " = " + ref(f, "E") + ".A"
			case "K":
				d = " = " + ref(f, "K")
			default:
				d = " = " + fd.Def
			}
			fs = append(fs, fmt.Sprintf("%d: optional %s %c%s", fi+1, t, 'a'+fi, d))
		}
		body[f] += fmt.Sprintf("struct %s { %s }\n", sn, strings.Join(fs, "; "))
	}
	if p.Typedefs {
		body[p.fileOf("A0")] += "typedef " + ref(p.fileOf("A0"), "S0") + " A0\n"
		body[p.fileOf("A1")] += "typedef " + ref(p.fileOf("A1"), "S1") + " A1\n"
		body[p.fileOf("L1")] += "typedef list<S1> L1\n"
	}
	body[p.fileOf("E")] += "enum E { A = 1, B = 5 }\n"
	body[p.fileOf("K")] += "const i32 K = 7\n"
	if p.Const {
		body[0] += "const S0 C0 = {}\n"
	}
	// the root must reach every file
	for f := 1; f < n; f++ {
		incl[0][f] = true
	}
	out := map[string]string{}
	for f := 0; f < n; f++ {
		h := ""
		for g := 0; g < n; g++ {
			if incl[f][g] {
				h += fmt.Sprintf("include \"./f%d.thrift\"\n", g)
			}
		}
		out[resolve.Path(f)] = h + body[f]
	}
	return out
}

func (p *sfProg) typeRepr(t string) string {
	if strings.HasPrefix(t, "list<") {
		return "list<" + p.typeRepr(t[5:len(t)-1]) + ">"
	}
	switch t {
	case "i32", "double":
		return t
	case "E":
		return fmt.Sprintf("%s:E(enum)", resolve.Path(p.fileOf("E")))
	case "A0", "A1", "L1":
		return fmt.Sprintf("%s:%s(typedef)", resolve.Path(p.fileOf(t)), t)
	}
	return fmt.Sprintf("%s:%s(struct)", resolve.Path(p.fileOf(t)), t)
}

// value renders the expected cast default of field (si, fi); stack holds the
// defaults being expanded.
func (p *sfProg) value(si, fi int, stack map[[2]int]bool) (string, bool) {
	fd := p.Fields[si][fi]
	switch fd.Def {
	case "":
		return "<nil>", true
	case "1":
		switch fd.Type {
		case "i32":
			return "int:1", true
		case "double":
			return "double:1", true
		case "E":
			return fmt.Sprintf("item:%s:E.A=1", resolve.Path(p.fileOf("E"))), true
		}
	case "K":
		return "int:7", true
	case "E.A":
		return fmt.Sprintf("item:%s:E.A=1", resolve.Path(p.fileOf("E"))), true
	case "[1]":
		return fmt.Sprintf("[item:%s:E.A=1]", resolve.Path(p.fileOf("E"))), true
	case "[{}]":
		key := [2]int{si, fi}
		if stack[key] {
			return "", false
		}
		stack[key] = true
		defer delete(stack, key)
		v, ok := p.structValue(1, stack)
		return "[" + v + "]", ok
	case "{}":
		key := [2]int{si, fi}
		if stack[key] {
			return "", false
		}
		stack[key] = true
		defer delete(stack, key)
		return p.structValue(int(fd.Type[1]-'0'), stack) // S<k> and A<k> (typedef of S<k>) alike
	}
	return "", false
}

// structValue renders {} cast to struct ti.
func (p *sfProg) structValue(ti int, stack map[[2]int]bool) (string, bool) {
	var xs []string
	for fi := range p.Fields[ti] {
		if p.Fields[ti][fi].Def == "" {
			continue
		}
		key := [2]int{ti, fi}
		if stack[key] {
			return "", false
		}
		v, ok := p.value(ti, fi, stack)
		if !ok {
			return "", false
		}
		xs = append(xs, fmt.Sprintf("%c=%s", 'a'+fi, v))
	}
	sort.Strings(xs)
	return "struct{" + strings.Join(xs, ";") + "}", true
}

// expect returns the expected dump lines of the structs and the constant, or
// valid=false.
func (p *sfProg) expect() (lines []string, valid bool) {
	for si := 0; si < 2; si++ {
		var fs []string
		for fi, fd := range p.Fields[si] {
			v, ok := p.value(si, fi, map[[2]int]bool{})
			if !ok {
				return nil, false
			}
			fs = append(fs, fmt.Sprintf("%d %c %s required=false default=%s", fi+1, 'a'+fi, p.typeRepr(fd.Type), v))
		}
		lines = append(lines, fmt.Sprintf("type %s:S%d struct fields[%s]", resolve.Path(p.fileOf(fmt.Sprintf("S%d", si))), si, strings.Join(fs, ";")))
	}
	if p.Const {
		v, ok := p.structValue(0, map[[2]int]bool{})
		if !ok {
			return nil, false
		}
		lines = append(lines, fmt.Sprintf("const %s:C0 type=%s value=%s", resolve.Path(0), p.typeRepr("S0"), v))
	}
	return lines, true
}

func (r *runner) structFamily() {
	r.structAlphabet(sfOptions, false)
	r.structAlphabet(sfOptionsTypedef, true)
}

func (r *runner) structAlphabet(opts []sfField, typedefs bool) {
	w := r.w
	n := len(opts)
	total := n * n * n * n
	for code := 0; code < total; code++ {
		var p sfProg
		p.Typedefs = typedefs
		c := code
		needed := !typedefs
		for si := 0; si < 2; si++ {
			for fi := 0; fi < 2; fi++ {
				p.Fields[si][fi] = opts[c%n]
				c /= n
				if t := p.Fields[si][fi].Type[0]; t == 'A' || t == 'l' || t == 'L' {
					needed = true // the second alphabet only adds programs that use a typedef or a container
				}
			}
		}
		// at least one struct-typed field, otherwise nothing depends on another definition's defaults
		hasStruct := false
		for si := 0; si < 2; si++ {
			for fi := 0; fi < 2; fi++ {
				if t := p.Fields[si][fi].Type[0]; t == 'S' || t == 'A' || t == 'l' || t == 'L' {
					hasStruct = true
				}
			}
		}
		if !hasStruct || !needed {
			continue
		}
		for _, withConst := range []bool{false, true} {
			for layout := 0; layout < 3; layout++ {
				if w.Quick() && layout == 2 && withConst {
					continue
				}
				if !w.Own() {
					continue
				}
				if r.stopped || w.Expired() {
					if !r.stopped {
						w.Cap("time budget reached inside the struct-default family")
						r.stopped = true
					}
					return
				}
				p.Const, p.Layout = withConst, layout
				p.TypedefCross = false
				r.structOne(p)
				w.Done()
				if typedefs && layout > 0 && !withConst {
					// the same program with each typedef declared in the other struct's file
					p.TypedefCross = true
					r.structOne(p)
					p.TypedefCross = false
				}
			}
		}
	}
}

func (r *runner) structOne(p sfProg) {
	w := r.w
	files := p.render()
	w.Eval(1)
	w.Nontrivial(1)
	w.Count("struct_default_programs", 1)
	src, _ := json.Marshal(files)
	rep := map[string]interface{}{"files": files, "family": "struct-defaults"}
	base, baseErr := outcomeAt(resolve.Path(0), files, nil)
	baseClass := strings.SplitN(base, "\n", 2)[0]
	w.Outcome("struct-defaults:" + baseClass)
	if baseClass == "PANIC" {
		w.Violation("panic:struct-defaults", fmt.Sprintf("compile panicked: %s on %s", baseErr, src), rep)
		return
	}
	lines, valid := p.expect()
	switch {
	case baseClass == "OK" && valid:
		have := map[string]bool{}
		for _, l := range strings.Split(base, "\n") {
			have[l] = true
		}
		for _, l := range lines {
			if !have[l] {
				got := ""
				prefix := l[:strings.Index(l, " struct fields[")+1]
				if strings.HasPrefix(l, "const ") {
					prefix = l[:strings.Index(l, " type=")+1]
				}
				for h := range have {
					if strings.HasPrefix(h, prefix) {
						got = h
					}
				}
				w.Violation("binding:struct-defaults", fmt.Sprintf("compiled module differs from the reference on %s: expected %q, compiled %q", src, l, got), rep)
				break
			}
		}
		if strings.Contains(base, "COPIED-") || strings.Contains(base, "DUPLICATE-MODULE") || strings.Contains(base, "UNLINKED<") {
			w.Violation("identity:struct-defaults", fmt.Sprintf("compiled module graph is not well-formed on %s: %s", src, base), rep)
		}
	case baseClass == "OK" && !valid:
		w.Violation("accepted-invalid:struct-defaults", fmt.Sprintf("compiled successfully although a default is defined in terms of itself: %s", src), rep)
	case valid:
		w.Violation("rejected-valid:struct-defaults", fmt.Sprintf("a program whose defaults are all finite and well-typed was rejected (%s): %s", baseErr, src), rep)
	default:
		w.Count("both_reject", 1)
	}

	distinct := map[string][]string{}
	ex := &choice.Explorer{Bound: r.bound}
	ex.Body = func(c *choice.Ctx) {
		out, _ := outcomeAt(resolve.Path(0), files, c)
		if _, ok := distinct[out]; !ok {
			var lab []string
			for i, pt := range c.Trace {
				if pt.Choice != 0 {
					lab = append(lab, fmt.Sprintf("%s#%d=order%d", pt.Label, i, pt.Choice))
				}
			}
			distinct[out] = lab
		}
	}
	ex.Run()
	w.R.States += ex.Stats.States
	w.R.Transitions += ex.Stats.Transitions
	w.R.Traces += ex.Stats.Executions
	w.Count("executions_with_nondefault_order", ex.Stats.NonDefault)
	if len(distinct) > 1 {
		var descr []string
		other := ""
		for out, lab := range distinct {
			descr = append(descr, fmt.Sprintf("[%s under %v]", strings.SplitN(out, "\n", 2)[0], lab))
			if out != base {
				other = out
			}
		}
		sort.Strings(descr)
		rep["orders"] = distinct
		w.Violation("order-dependent:struct-defaults", fmt.Sprintf("%d different results for one program depending on map iteration order: %s; first difference: %s; program %s",
			len(distinct), strings.Join(descr, " "), firstDiff(base, other), src), rep)
	}
}

var _ = ev.Main

// StructPrograms yields a sub-family of the struct-default programs for C10
// (deterministic generation): fields over {E = E.A, S0, S1 = {}, A1 = {}, list<E> =
// [1]} (thorough: also S0 = {}, list<S1> = [{}]), single file (thorough: also two
// files), reference-valid programs only.
func StructPrograms(quick bool, yield func(files map[string]string, desc string)) {
	opts := []sfField{{"E", "E.A"}, {"S0", ""}, {"S1", "{}"}, {"A1", "{}"}, {"list<E>", "[1]"}}
	layouts := 1
	if !quick {
		opts = append(opts, sfField{"S0", "{}"}, sfField{"list<S1>", "[{}]"})
		layouts = 2
	}
	n := len(opts)
	for code := 0; code < n*n*n*n; code++ {
		var p sfProg
		p.Typedefs = true
		c := code
		for si := 0; si < 2; si++ {
			for fi := 0; fi < 2; fi++ {
				p.Fields[si][fi] = opts[c%n]
				c /= n
			}
		}
		if _, valid := p.expect(); !valid {
			continue
		}
		for l := 0; l < layouts; l++ {
			p.Layout = l
			yield(p.render(), fmt.Sprintf("struct-defaults:%v:layout%d", p.Fields, l))
		}
	}
}
