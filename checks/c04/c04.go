// Package c04: value-based and streaming paths of generated code agree on
// every input (DESIGN.md §3 C04).
package c04

import (
	"encoding/hex"
	"fmt"
	"reflect"
	"sort"
	"time"

	"verif/bridge/chunk"
	"verif/cells"
	"verif/cells/reg"
	"verif/checks/cellutil"
	"verif/engine/ev"
	"verif/ref/schema"
	"verif/ref/tbin"
)

// Check is the registered check.
var Check = &ev.Check{
	ID:    "C04",
	Level: "exploration",
	Rule: "for every struct-like type of the cell universe: inputs = the reference encoding of every value with <=1 (quick) / <=2 (thorough) deviating fields, and every single-deviation mutant of those encodings " +
		"(truncate at i, set byte i to each of 8 symbols, set the 4 bytes at i to each of 5 length values, delete byte i, insert each of 4 symbols at i; quick: mutants of the baseline and of single-field deviations only); " +
		"each input decoded by FromWire(Decode(b)) and by Decode(stream) under read segmentations whole, all-1-byte, zero-length reads, and every single cut for inputs <=48 bytes. " +
		"Oracle: the two paths never yield two different values; whatever the value path accepts the stream path accepts with an equal value; the stream result is the same under every segmentation. " +
		"For every Go value (incl. schema-violating ones) both serializers fail together or produce encodings that decode to equal values. A case is (type, input bytes); non-trivial = inputs at least one path accepts.",
	Prepare: func(s *ev.S) error {
		_, err := cells.Prepare(s, cells.Options{Slim: s.Tier != "thorough"})
		return err
	},
	Run:        run,
	MemLimitKB: 8 << 20,
	Budget: func(t string) time.Duration {
		return map[string]time.Duration{"quick": 4 * time.Minute, "thorough": 25 * time.Minute}[t]
	},
	Assumptions: []string{
		"cells that do not compile are C06's verdict and are skipped here",
		"values are compared through reflection (ref/reflectval), independently of both codec paths",
	},
}

var symbols = []byte{0x00, 0x01, 0x02, 0x08, 0x0b, 0x0c, 0x0f, 0xff}
var insertSyms = []byte{0x00, 0x0b, 0x0c, 0xff}

// length values stay small: what huge declared lengths cost is C13's property
var lenVals = []uint32{0xffffffff, 0, 1, 2, 0x100}

func mutants(e []byte, yield func([]byte)) {
	n := len(e)
	for i := 0; i < n; i++ {
		yield(append([]byte{}, e[:i]...))
	}
	for i := 0; i < n; i++ {
		for _, s := range symbols {
			if e[i] != s {
				m := append([]byte{}, e...)
				m[i] = s
				yield(m)
			}
		}
	}
	for i := 0; i+4 <= n; i++ {
		for _, lv := range lenVals {
			m := append([]byte{}, e...)
			m[i], m[i+1], m[i+2], m[i+3] = byte(lv>>24), byte(lv>>16), byte(lv>>8), byte(lv)
			yield(m)
		}
	}
	for i := 0; i < n; i++ {
		yield(append(append([]byte{}, e[:i]...), e[i+1:]...))
	}
	for i := 0; i <= n; i++ {
		for _, s := range insertSyms {
			yield(append(append(append([]byte{}, e[:i]...), s), e[i:]...))
		}
	}
}

func run(w *ev.W) {
	env := cellutil.Load(w)
	env.Each(func(cell cells.Cell, ent reg.Entry, f *schema.File, d *schema.Def) {
		t := schema.Named(d.Name)
		k := 1
		if !w.Quick() {
			k = 2
		}
		seen := map[string]bool{}
		one := func(b []byte) {
			key := string(b)
			if seen[key] {
				return
			}
			seen[key] = true
			// inputs declaring a length/count above 2^16 are C13's domain: the known
			// pre-sizing of generated stream decoders would only exhaust memory here
			if tbin.MaxDeclared(tbin.Struct, b) > 1<<16 {
				w.Count("inputs_left_to_C13(declared length > 2^16)", 1)
				return
			}
			input(env, cell, ent, f, t, b)
		}
		serializers(env, cell, ent, f, d, t)
		kk := k
		if len(d.Fields) > 10 {
			kk = 1
		}
		for vi, v := range env.P.Deviations(f, d, kk) {
			held := v
			if !env.P.Valid(f, t, v) {
				continue
			}
			enc := tbin.Encode(env.P.ToWire(f, t, held))
			one(enc)
			if vi == 0 {
				// the baseline with an unknown field holding a deeply nested value (what an
				// evolved writer may send): both paths must still agree
				for _, depth := range []int{70, 300} {
					for _, shape := range []string{"struct", "list", "map"} {
						deep := tbin.Value{T: tbin.I32, I: 1}
						for i := 0; i < depth; i++ {
							switch shape {
							case "struct":
								deep = tbin.Value{T: tbin.Struct, Fields: []tbin.Field{{ID: 1, V: deep}}}
							case "list":
								deep = tbin.Value{T: tbin.List, VT: deep.T, Items: []tbin.Value{deep}}
							case "map":
								deep = tbin.Value{T: tbin.Map, KT: tbin.I8, VT: deep.T, Items: []tbin.Value{{T: tbin.I8, I: 1}, deep}}
							}
						}
						wv := env.P.ToWire(f, t, held)
						wv.Fields = append(append([]tbin.Field{}, wv.Fields...), tbin.Field{ID: 32000, V: deep})
						w.Count("deep_unknown_field_inputs", 1)
						input(env, cell, ent, f, t, tbin.Encode(wv))
					}
				}
			}
			if len(enc) > 96 {
				continue
			}
			if w.Quick() && vi > 1+2*len(d.Fields) {
				continue
			}
			mutants(enc, one)
			if w.Expired() {
				return
			}
		}
	})
}

// serializers: for every Go value of the type (every value with <=1 deviating
// field; schema-violating ones: each pointer/container field set to nil, unions with
// no and with two members) the value-based and the streaming serializer either both
// fail or both produce encodings that the spec decoder reads as equal values.
func serializers(env *cellutil.Env, cell cells.Cell, ent reg.Entry, f *schema.File, d *schema.Def, t *schema.Type) {
	w := env.W
	vals := env.P.Deviations(f, d, 1)
	if d.Kind == "union" {
		vals = append(vals, schema.Rec(nil))
		if len(d.Fields) >= 2 {
			a, b := env.P.D(f, d.Fields[0].Type), env.P.D(f, d.Fields[1].Type)
			if len(a) > 0 && len(b) > 0 {
				vals = append(vals, schema.Rec(map[string]*schema.Val{d.Fields[0].Name: a[0], d.Fields[1].Name: b[0]}))
			}
		}
	}
	compare := func(rv reflect.Value, what string) {
		x, ok := rv.Interface().(cellutil.Codec)
		if !ok {
			return
		}
		w.Count("serializer_pairs", 1)
		b1, e1 := cellutil.EncodeValue(x)
		b2, e2 := cellutil.EncodeStream(x)
		rep := map[string]string{"cell": cell.Pkg + "." + cell.Def, "value": what}
		for _, e := range []error{e1, e2} {
			if cellutil.IsPanic(e) {
				w.Violation("panic-serializer:"+cell.Kind, fmt.Sprintf("%s.%s %s: %v", cell.Pkg, cell.Def, what, e), rep)
				return
			}
		}
		if (e1 == nil) != (e2 == nil) {
			w.Violation("serializers-disagree-on-failure:"+cell.Kind, fmt.Sprintf("%s.%s %s: ToWire+Encode gives err=%v, Encode(stream) gives err=%v", cell.Pkg, cell.Def, what, e1, e2), rep)
			return
		}
		if e1 != nil {
			w.Outcome("serializers-both-fail")
			return
		}
		v1, n1, d1 := tbin.Decode(tbin.Struct, b1)
		v2, n2, d2 := tbin.Decode(tbin.Struct, b2)
		if d1 != nil || d2 != nil || n1 != len(b1) || n2 != len(b2) {
			w.Violation("serializer-malformed:"+cell.Kind, fmt.Sprintf("%s.%s %s: outputs %x / %x are not both well-formed structs (%v, %v)", cell.Pkg, cell.Def, what, b1, b2, d1, d2), rep)
			return
		}
		l1, ok1 := env.P.FromWire(f, t, v1)
		l2, ok2 := env.P.FromWire(f, t, v2)
		if !ok1 || !ok2 || env.P.Key(f, t, l1) != env.P.Key(f, t, l2) {
			w.Violation("serializers-disagree:"+cell.Kind, fmt.Sprintf("%s.%s %s: ToWire+Encode wrote %s, Encode(stream) wrote %s", cell.Pkg, cell.Def, what, v1.Key(), v2.Key()), rep)
			return
		}
		w.Outcome("serializers-agree")
	}
	for _, v := range vals {
		rv, err := env.Conv.FromLogical(f, t, v, reflect.PtrTo(ent.Type))
		if err != nil {
			continue // shape problems are C01's to report
		}
		key := env.P.Key(f, t, v)
		compare(rv, key)
		// each nillable field set to nil in turn (unset pointer, nil slice, nil map)
		for i := 0; i < ent.Type.NumField(); i++ {
			sf := rv.Elem().Field(i)
			switch sf.Kind() {
			case reflect.Ptr, reflect.Slice, reflect.Map:
			default:
				continue
			}
			if sf.IsNil() || !sf.CanSet() {
				continue
			}
			if sf.Kind() != reflect.Ptr && sf.Len() > 0 {
				continue // only empty containers become nil containers
			}
			nv := reflect.New(ent.Type)
			nv.Elem().Set(rv.Elem())
			nv.Elem().Field(i).Set(reflect.Zero(sf.Type()))
			compare(nv, key+" with "+ent.Type.Field(i).Name+"=nil")
		}
		// a nil element inside a container (first list/set element, the value under the
		// smallest map key, the Value of the first key/value pair of an unhashable-key map)
		for i := 0; i < ent.Type.NumField(); i++ {
			sf := rv.Elem().Field(i)
			if !sf.CanSet() {
				continue
			}
			nillable := func(t reflect.Type) bool {
				return t.Kind() == reflect.Ptr || t.Kind() == reflect.Slice || t.Kind() == reflect.Map
			}
			var repl reflect.Value
			switch sf.Kind() {
			case reflect.Slice:
				if sf.Len() == 0 {
					continue
				}
				et := sf.Type().Elem()
				switch {
				case nillable(et) && !(et.Kind() == reflect.Slice && et.Elem().Kind() == reflect.Uint8 && false):
					repl = reflect.MakeSlice(sf.Type(), sf.Len(), sf.Len())
					reflect.Copy(repl, sf)
					repl.Index(0).Set(reflect.Zero(et))
				case et.Kind() == reflect.Struct && et.NumField() == 2 && et.Field(1).Name == "Value" && nillable(et.Field(1).Type):
					repl = reflect.MakeSlice(sf.Type(), sf.Len(), sf.Len())
					reflect.Copy(repl, sf)
					repl.Index(0).Field(1).Set(reflect.Zero(et.Field(1).Type))
				default:
					continue
				}
			case reflect.Map:
				if sf.Len() == 0 || !nillable(sf.Type().Elem()) {
					continue
				}
				keys := sf.MapKeys()
				sort.Slice(keys, func(a, b int) bool { return fmt.Sprint(keys[a].Interface()) < fmt.Sprint(keys[b].Interface()) })
				repl = reflect.MakeMapWithSize(sf.Type(), sf.Len())
				for _, k := range keys {
					repl.SetMapIndex(k, sf.MapIndex(k))
				}
				repl.SetMapIndex(keys[0], reflect.Zero(sf.Type().Elem()))
			default:
				continue
			}
			nv := reflect.New(ent.Type)
			nv.Elem().Set(rv.Elem())
			nv.Elem().Field(i).Set(repl)
			w.Count("nil_element_variants", 1)
			compare(nv, key+" with a nil element inside "+ent.Type.Field(i).Name)
		}
	}
}

func input(env *cellutil.Env, cell cells.Cell, ent reg.Entry, f *schema.File, t *schema.Type, b []byte) {
	w := env.W
	w.Eval(1)
	viol := func(class, detail string) {
		w.Violation(class+":"+cell.Kind, fmt.Sprintf("%s.%s input %s: %s", cell.Pkg, cell.Def, hex.EncodeToString(b), detail),
			map[string]string{"cell": cell.Pkg + "." + cell.Def, "input": hex.EncodeToString(b)})
	}
	keyOf := func(rv reflect.Value) string {
		v, err := env.Conv.ToLogical(f, t, rv)
		if err != nil {
			return "UNREADABLE " + err.Error()
		}
		return env.P.Key(f, t, v)
	}
	vv, verr := cellutil.DecodeValue(ent.Type, b)
	if cellutil.IsPanic(verr) {
		viol("panic-value-path", verr.Error())
		return
	}
	vkey := ""
	if verr == nil {
		vkey = keyOf(vv)
	}
	var first string
	firstSet := false
	var firstErr error
	accepted := verr == nil
	for _, ck := range chunk.All(len(b), len(b) <= 48, false) {
		sv, serr := cellutil.DecodeStream(ent.Type, ck.New(b))
		if cellutil.IsPanic(serr) {
			viol("panic-stream-path", fmt.Sprintf("(reads: %s) %v", ck.Name, serr))
			return
		}
		cur := "ERR"
		if serr == nil {
			cur = keyOf(sv)
			accepted = true
		}
		if !firstSet {
			first, firstSet, firstErr = cur, true, serr
		} else if cur != first {
			viol("stream-depends-on-segmentation", fmt.Sprintf("whole read gives %.200s (err %v), reads %s give %.200s (err %v)", first, firstErr, ck.Name, cur, serr))
			return
		}
		if verr == nil && serr != nil {
			viol("stream-rejects-what-value-path-accepts", fmt.Sprintf("value path decoded %.200s but the stream path (reads: %s) failed: %v", vkey, ck.Name, serr))
			return
		}
		if verr == nil && cur != vkey {
			viol("paths-disagree", fmt.Sprintf("value path %.200s, stream path (reads: %s) %.200s", vkey, ck.Name, cur))
			return
		}
	}
	if accepted {
		w.Nontrivial(1)
		w.Outcome("accepted-consistently")
	} else {
		w.Outcome("both-reject")
	}
	if w.WantSample() && accepted && len(b) > 4 && w.R.Evaluations%997 == 0 {
		w.Sample(map[string]string{"type": cell.Pkg + "." + cell.Def, "input": hex.EncodeToString(b), "value": vkey})
	}
}
