// Package c02: binary protocol round-trips every wire value byte-exactly
// (DESIGN.md §3 C02).
package c02

import (
	"bytes"
	"encoding/hex"
	"fmt"
	"io"
	"time"

	"go.uber.org/thriftrw/protocol/binary"
	"go.uber.org/thriftrw/wire"
	"verif/bridge/chunk"
	"verif/bridge/wirex"
	"verif/engine/ev"
	"verif/ref/tbin"
)

// Check is the registered check.
var Check = &ev.Check{
	ID:    "C02",
	Level: "exploration",
	Rule: "every wire value of the C02 domain (all 11 wire types; scalars over boundary alphabets incl. 8 double bit patterns; " +
		"containers/structs of width<=2 over the full scalar alphabet at depth 1 and over representatives of the previous level at depth 2 (quick) / 3 (thorough); " +
		"field ids from {1,-1,0,32767,-32768}; empty containers of every element type; thorough adds binaries of 1MiB-1, 1MiB, 1MiB+1); values holding three binaries above 1 MiB; values nested 63..66, 100 and 300 levels deep (list in list, map in map, struct in struct, struct/set alternation, struct chain held in a list). " +
		"Values are distinct by construction; non-trivial = every value (each has its own byte image). Per value the value encoder, the stream writer, Decode, ReadValue, Decode over a short-reading ReaderAt and the primitive stream walk under read segmentations (whole, all-1-byte, first-read-1-byte, zero-length reads, every single cut for encodings <=24 bytes) are compared with the independent spec codec; a decoded value is then encoded twice more and read again (it must survive being encoded).",
	Run: run,
	Budget: func(t string) time.Duration {
		return map[string]time.Duration{"quick": 3 * time.Minute, "thorough": 25 * time.Minute}[t]
	},
	Assumptions: []string{
		"ref/tbin is a faithful transcription of the Thrift binary protocol specification (cross-checked by its own encode/decode identity on the whole domain in this run)",
		"values outside the stated alphabets/widths/depths are not covered (no sampling in this family)",
	},
}

func short(b []byte) string {
	if len(b) > 48 {
		return hex.EncodeToString(b[:48]) + fmt.Sprintf("..(%d bytes)", len(b))
	}
	return hex.EncodeToString(b)
}

func run(w *ev.W) {
	depth := 2
	big := false
	if !w.Quick() {
		depth = 3
		big = true
	}
	levelCount := map[int]int64{}
	// several binaries above the 1 MiB allocation threshold inside ONE value, with
	// different contents and decreasing / increasing sizes (a reader that recycles a
	// large buffer would hand out slices that later reads overwrite)
	{
		mk := func(n int, seed byte) tbin.Value {
			b := make([]byte, n)
			for i := range b {
				b[i] = byte(i)*seed + seed
			}
			return tbin.Value{T: tbin.Binary, B: b}
		}
		b1, b2, b3 := mk(1<<20+9, 3), mk(1<<20+1, 5), mk(1<<20+5, 7)
		for _, v := range []tbin.Value{
			{T: tbin.Struct, Fields: []tbin.Field{{ID: 1, V: b1}, {ID: 2, V: b2}, {ID: 3, V: b3}}},
			{T: tbin.List, VT: tbin.Binary, Items: []tbin.Value{b1, b2, b3}},
			{T: tbin.Map, KT: tbin.Binary, VT: tbin.Binary, Items: []tbin.Value{b2, b1, b3, b2}},
		} {
			if w.Own() {
				levelCount[1]++
				w.Count("values_with_several_large_binaries", 1)
				one(w, v)
				w.Done()
			}
		}
	}
	// deeply nested values (a decoder or Skip with a nesting limit below what the
	// encoder writes does not round-trip them): list in list, struct chain held in
	// a list, map in map, struct in struct
	for _, d := range []int{63, 64, 65, 66, 100, 300} {
		for _, v := range deepValues(d) {
			if w.Own() {
				levelCount[1]++
				w.Count("deeply_nested_values", 1)
				one(w, v)
				w.Done()
			}
		}
	}
	tbin.Enumerate(depth, big, func(level int, v tbin.Value) {
		if !w.Own() {
			return
		}
		if w.Idx()&1023 == 0 && w.Expired() {
			w.Cap("time budget reached before the domain was exhausted")
			return
		}
		if len(w.R.Caps) > 0 {
			return
		}
		levelCount[level]++
		one(w, v)
		w.Done()
	})
	for l, c := range levelCount {
		w.Count(fmt.Sprintf("values_depth_%d", l), c)
	}
}

func deepValues(d int) []tbin.Value {
	leaf := tbin.Value{T: tbin.I8, I: 7}
	l, m, st, sl := leaf, leaf, leaf, leaf
	for i := 0; i < d; i++ {
		l = tbin.Value{T: tbin.List, VT: l.T, Items: []tbin.Value{l}}
		m = tbin.Value{T: tbin.Map, KT: tbin.I8, VT: m.T, Items: []tbin.Value{{T: tbin.I8, I: int64(i & 1)}, m}}
		st = tbin.Value{T: tbin.Struct, Fields: []tbin.Field{{ID: 1, V: st}}}
		if i&1 == 0 {
			sl = tbin.Value{T: tbin.Struct, Fields: []tbin.Field{{ID: 2, V: sl}}}
		} else {
			sl = tbin.Value{T: tbin.Set, VT: sl.T, Items: []tbin.Value{sl}}
		}
	}
	return []tbin.Value{l, m, st, sl, {T: tbin.List, VT: tbin.Struct, Items: []tbin.Value{st}}}
}

// One checks a single value (also used by replay): with the []byte flavour of the
// binary type and, for values holding a binary, once more with the string flavour.
func one(w *ev.W, v tbin.Value) {
	w.Eval(1)
	w.Nontrivial(1)
	oneFlavour(w, v, "")
	if hasBinary(v) {
		wirex.BinaryAsString = true
		defer func() { wirex.BinaryAsString = false }()
		w.Count("string_flavour_values", 1)
		oneFlavour(w, v, "[string flavour]")
	}
}

func hasBinary(v tbin.Value) bool {
	if v.T == tbin.Binary {
		return true
	}
	for _, f := range v.Fields {
		if hasBinary(f.V) {
			return true
		}
	}
	for _, it := range v.Items {
		if hasBinary(it) {
			return true
		}
	}
	return (v.T == tbin.List || v.T == tbin.Set) && v.VT == tbin.Binary
}

func oneFlavour(w0 *ev.W, v tbin.Value, flavour string) {
	w := &flavW{W: w0, suffix: flavour}
	ref := tbin.Encode(v)
	key := v.Key()
	rep := map[string]string{"value": key, "ref_bytes": short(ref)}
	if w.WantSample() && w.Idx()%97 == 0 {
		w.Sample(rep)
	}
	// reference self-check (not a verdict on the product)
	if rv, n, err := tbin.Decode(v.T, ref); err != nil || n != len(ref) || rv.Key() != key {
		w.Note("REFERENCE SELF-CHECK FAILED for " + key)
	}
	wv := wirex.ToWire(v)

	// 1. value encoder
	var buf bytes.Buffer
	if err := binary.Default.Encode(wv, &buf); err != nil {
		w.Violation("encode-error:"+v.T.String(), fmt.Sprintf("Encode(%s) failed: %v", key, err), rep)
	} else if !bytes.Equal(buf.Bytes(), ref) {
		w.Violation("encode-bytes:"+v.T.String(), fmt.Sprintf("Encode(%s) = %s, spec says %s", key, short(buf.Bytes()), short(ref)), rep)
	} else {
		w.Outcome("encode-ok:" + v.T.String())
	}

	// 2. stream writer
	var sbuf bytes.Buffer
	sw := binary.Default.Writer(&sbuf)
	err := wirex.StreamWrite(sw, v)
	sw.Close()
	if err != nil {
		w.Violation("stream-write-error:"+v.T.String(), fmt.Sprintf("stream writer calls for %s failed: %v", key, err), rep)
	} else if !bytes.Equal(sbuf.Bytes(), ref) {
		w.Violation("stream-write-bytes:"+v.T.String(), fmt.Sprintf("stream writer for %s = %s, spec says %s", key, short(sbuf.Bytes()), short(ref)), rep)
	} else {
		w.Outcome("swrite-ok:" + v.T.String())
	}

	// 3. random-access decoder
	dv, err := binary.Default.Decode(bytes.NewReader(ref), wire.Type(v.T))
	if err != nil {
		w.Violation("decode-error:"+v.T.String(), fmt.Sprintf("Decode(spec bytes of %s) failed: %v", key, err), rep)
	} else {
		got, ferr := wirex.FromWire(dv)
		if ferr != nil {
			w.Violation("decode-force-error:"+v.T.String(), fmt.Sprintf("forcing Decode(spec bytes of %s) failed: %v", key, ferr), rep)
		} else if got.Key() != key {
			w.Violation("decode-value:"+v.T.String(), fmt.Sprintf("Decode(spec bytes of %s) = %s", key, got.Key()), rep)
		} else {
			w.Outcome("decode-ok:" + v.T.String())
		}
	}
	// 3a. a decoded value is still usable after it has been encoded: encode it
	// twice and read it once more (an encoder that releases the lazy collections
	// it walks leaves the caller with a dead value)
	func() {
		defer func() {
			if r := recover(); r != nil {
				w.Violation("decoded-value-reuse-panic:"+v.T.String(), fmt.Sprintf("Decode(%s) then Encode twice then read: panic %v", key, r), rep)
			}
		}()
		dv, err := binary.Default.Decode(bytes.NewReader(ref), wire.Type(v.T))
		if err != nil {
			return
		}
		for round := 1; round <= 2; round++ {
			var b bytes.Buffer
			if err := binary.Default.Encode(dv, &b); err != nil {
				w.Violation("reencode-error:"+v.T.String(), fmt.Sprintf("Encode #%d of Decode(%s) failed: %v", round, key, err), rep)
				return
			} else if !bytes.Equal(b.Bytes(), ref) {
				w.Violation("reencode-bytes:"+v.T.String(), fmt.Sprintf("Encode #%d of Decode(%s) = %s, spec says %s", round, key, short(b.Bytes()), short(ref)), rep)
				return
			}
		}
		if got, ferr := wirex.FromWire(dv); ferr != nil || got.Key() != key {
			w.Violation("decoded-value-after-encode:"+v.T.String(), fmt.Sprintf("Decode(%s), after two Encodes, reads as %s err=%v", key, got.Key(), ferr), rep)
		}
	}()
	// 3b. ReadValue offset
	rd := binary.NewReader(bytes.NewReader(ref))
	if rvv, off, err := rd.ReadValue(wire.Type(v.T), 0); err == nil {
		if off != int64(len(ref)) {
			w.Violation("readvalue-offset:"+v.T.String(), fmt.Sprintf("ReadValue(%s) offset %d, encoding is %d bytes", key, off, len(ref)), rep)
		}
		if got, ferr := wirex.FromWire(rvv); ferr != nil || got.Key() != key {
			w.Violation("readvalue-value:"+v.T.String(), fmt.Sprintf("ReadValue(%s) = %s err=%v", key, got.Key(), ferr), rep)
		}
	} else {
		w.Violation("readvalue-error:"+v.T.String(), fmt.Sprintf("ReadValue(%s): %v", key, err), rep)
	}

	// 3c. ReadValue behind a ReaderAt that returns the final bytes together with io.EOF
	rd3 := binary.NewReader(shortReaderAt{ref})
	if rvv, off, err := rd3.ReadValue(wire.Type(v.T), 0); err != nil {
		w.Violation("readvalue-eof-with-data:"+v.T.String(), fmt.Sprintf("ReadValue(%s) behind a ReaderAt that reports io.EOF with the last bytes: %v", key, err), rep)
	} else if got, ferr := wirex.FromWire(rvv); ferr != nil || got.Key() != key || off != int64(len(ref)) {
		w.Violation("readvalue-eof-with-data:"+v.T.String(), fmt.Sprintf("ReadValue(%s) behind a ReaderAt that reports io.EOF with the last bytes = %s err=%v offset %d of %d", key, got.Key(), ferr, off, len(ref)), rep)
	}
	// 4. stream reader over a non-seekable reader, under read segmentations:
	// whole, all-1-byte, first read 1 byte, zero-length reads; every single
	// cut for encodings <= 24 bytes.
	for _, ck := range chunk.All(len(ref), len(ref) <= 24, false) {
		cr := ck.New(ref)
		sr := binary.Default.Reader(cr)
		sv, err := wirex.StreamRead(sr, v.T)
		sr.Close()
		w.Count("stream_read_runs", 1)
		if err != nil {
			w.Violation("stream-read-error:"+v.T.String(), fmt.Sprintf("stream reader walk of %s (reads: %s) failed: %v", key, ck.Name, err), rep)
			break
		} else if sv.Key() != key {
			w.Violation("stream-read-value:"+v.T.String(), fmt.Sprintf("stream reader walk of %s (reads: %s) = %s", key, ck.Name, sv.Key()), rep)
			break
		} else if cr.Pos != len(ref) {
			w.Violation("stream-read-length:"+v.T.String(), fmt.Sprintf("stream reader walk of %s (reads: %s) drew %d of %d bytes", key, ck.Name, cr.Pos, len(ref)), rep)
			break
		}
		w.Outcome("sread-ok:" + v.T.String())
	}
	// 4b. the same walk with one child passed over by Skip (first and last child):
	// the remaining children must come out unchanged and exactly the encoding consumed
	if nc := children(v); nc > 0 {
		idxs := []int{0}
		if nc > 1 {
			idxs = append(idxs, nc-1)
		}
		for _, skip := range idxs {
			want := without(v, skip).Key()
			// (reads: whole and 1-byte from a plain reader; whole from a reader that can seek -
			// Skip becomes Seek - and from one whose Seek method always fails, as on a pipe)
			cks := append([]chunk.Chunking{}, chunk.All(len(ref), false, false)[:2]...)
			cks = append(cks, chunk.Chunking{Name: "whole[seekable]"}, chunk.Chunking{Name: "whole[pipe-like]"})
			for _, ck := range cks {
				cr := ck.New(ref)
				var rd io.Reader = cr
				switch ck.Name {
				case "whole[seekable]":
					rd = chunk.Seekable{Reader: cr}
				case "whole[pipe-like]":
					rd = chunk.PipeLike{Reader: cr}
				}
				sr := binary.Default.Reader(rd)
				sv, err := wirex.StreamReadSkipping(sr, v.T, skip)
				sr.Close()
				w.Count("stream_skip_runs", 1)
				if err != nil {
					w.Violation("stream-skip-error:"+v.T.String(), fmt.Sprintf("stream reader walk of %s skipping child %d (reads: %s) failed: %v", key, skip, ck.Name, err), rep)
				} else if sv.Key() != want {
					w.Violation("stream-skip-value:"+v.T.String(), fmt.Sprintf("stream reader walk of %s skipping child %d (reads: %s) = %s, expected %s", key, skip, ck.Name, sv.Key(), want), rep)
				} else if cr.Pos != len(ref) {
					w.Violation("stream-skip-length:"+v.T.String(), fmt.Sprintf("stream reader walk of %s skipping child %d (reads: %s) drew %d of %d bytes", key, skip, ck.Name, cr.Pos, len(ref)), rep)
				} else {
					continue
				}
				break
			}
		}
	}
	// 5. random-access decoder over a ReaderAt that serves short reads
	dv2, err := binary.Default.Decode(shortReaderAt{ref}, wire.Type(v.T))
	if err != nil {
		w.Violation("decode-short-readat:"+v.T.String(), fmt.Sprintf("Decode(%s) over a ReaderAt failed: %v", key, err), rep)
	} else if got, ferr := wirex.FromWire(dv2); ferr != nil || got.Key() != key {
		w.Violation("decode-short-readat:"+v.T.String(), fmt.Sprintf("Decode(%s) over a ReaderAt = %s err=%v", key, got.Key(), ferr), rep)
	}
}

// children counts the direct children of a composite value (map: entries).
func children(v tbin.Value) int {
	switch v.T {
	case tbin.Struct:
		return len(v.Fields)
	case tbin.Map:
		return len(v.Items) / 2
	case tbin.List, tbin.Set:
		return len(v.Items)
	}
	return 0
}

// without returns v without child i.
func without(v tbin.Value, i int) tbin.Value {
	out := v
	switch v.T {
	case tbin.Struct:
		out.Fields = append(append([]tbin.Field{}, v.Fields[:i]...), v.Fields[i+1:]...)
	case tbin.Map:
		out.Items = append(append([]tbin.Value{}, v.Items[:2*i]...), v.Items[2*i+2:]...)
	default:
		out.Items = append(append([]tbin.Value{}, v.Items[:i]...), v.Items[i+1:]...)
	}
	return out
}

// flavW tags violations of the string-flavour pass.
type flavW struct {
	*ev.W
	suffix string
}

func (f *flavW) Violation(sig, detail string, rep interface{}) {
	f.W.Violation(sig+f.suffix, f.suffix+detail, rep)
}

// shortReaderAt is a conforming io.ReaderAt (ReadAt fills p or returns an
// error) that returns io.EOF together with the final bytes, which the
// io.ReaderAt contract allows.
type shortReaderAt struct{ b []byte }

func (s shortReaderAt) ReadAt(p []byte, off int64) (int, error) {
	if off >= int64(len(s.b)) {
		return 0, io.EOF
	}
	n := copy(p, s.b[off:])
	if n < len(p) || off+int64(n) == int64(len(s.b)) {
		return n, io.EOF
	}
	return n, nil
}
