// Package c02: binary protocol round-trips every wire value byte-exactly
// (DESIGN.md §3 C02).
package c02

import (
	"bytes"
	"encoding/hex"
	"fmt"
	"time"

	"go.uber.org/thriftrw/protocol/binary"
	"go.uber.org/thriftrw/wire"
	"verif/bridge/wirex"
	"verif/engine/ev"
	"verif/ref/tbin"
)

// Check is the registered check.
var Check = &ev.Check{
	ID:    "C02",
	Level: "exploration",
	Rule: "every wire value of the C02 domain (all 11 wire types; scalars over boundary alphabets incl. 8 double bit patterns; " +
		"containers/structs of width<=2 over the full scalar alphabet at depth 1 and over representatives of the previous level at depth 2 (quick) / 3 (thorough); " +
		"field ids from {1,-1,0,32767,-32768}; empty containers of every element type; thorough adds binaries of 1MiB-1, 1MiB, 1MiB+1). " +
		"Values are distinct by construction; non-trivial = every value (each has its own byte image). Per value 5 product paths are compared with the independent spec codec.",
	Run:    run,
	Budget: func(t string) time.Duration { return map[string]time.Duration{"quick": 3 * time.Minute, "thorough": 25 * time.Minute}[t] },
	Assumptions: []string{
		"ref/tbin is a faithful transcription of the Thrift binary protocol specification (cross-checked by its own encode/decode identity on the whole domain in this run)",
		"values outside the stated alphabets/widths/depths are not covered (no sampling in this family)",
	},
}

func short(b []byte) string {
	if len(b) > 48 {
		return hex.EncodeToString(b[:48]) + fmt.Sprintf("..(%d bytes)", len(b))
	}
	return hex.EncodeToString(b)
}

func run(w *ev.W) {
	depth := 2
	big := false
	if !w.Quick() {
		depth = 3
		big = true
	}
	levelCount := map[int]int64{}
	tbin.Enumerate(depth, big, func(level int, v tbin.Value) {
		if !w.Own() {
			return
		}
		if w.Idx()&1023 == 0 && w.Expired() {
			w.Cap("time budget reached before the domain was exhausted")
			return
		}
		if len(w.R.Caps) > 0 {
			return
		}
		levelCount[level]++
		one(w, v)
		w.Done()
	})
	for l, c := range levelCount {
		w.Count(fmt.Sprintf("values_depth_%d", l), c)
	}
}

// One checks a single value (also used by replay).
func one(w *ev.W, v tbin.Value) {
	w.Eval(1)
	w.Nontrivial(1)
	ref := tbin.Encode(v)
	key := v.Key()
	rep := map[string]string{"value": key, "ref_bytes": short(ref)}
	if w.WantSample() && w.Idx()%97 == 0 {
		w.Sample(rep)
	}
	// reference self-check (not a verdict on the product)
	if rv, n, err := tbin.Decode(v.T, ref); err != nil || n != len(ref) || rv.Key() != key {
		w.Note("REFERENCE SELF-CHECK FAILED for " + key)
	}
	wv := wirex.ToWire(v)

	// 1. value encoder
	var buf bytes.Buffer
	if err := binary.Default.Encode(wv, &buf); err != nil {
		w.Violation("encode-error:"+v.T.String(), fmt.Sprintf("Encode(%s) failed: %v", key, err), rep)
	} else if !bytes.Equal(buf.Bytes(), ref) {
		w.Violation("encode-bytes:"+v.T.String(), fmt.Sprintf("Encode(%s) = %s, spec says %s", key, short(buf.Bytes()), short(ref)), rep)
	} else {
		w.Outcome("encode-ok:" + v.T.String())
	}

	// 2. stream writer
	var sbuf bytes.Buffer
	sw := binary.Default.Writer(&sbuf)
	err := wirex.StreamWrite(sw, v)
	sw.Close()
	if err != nil {
		w.Violation("stream-write-error:"+v.T.String(), fmt.Sprintf("stream writer calls for %s failed: %v", key, err), rep)
	} else if !bytes.Equal(sbuf.Bytes(), ref) {
		w.Violation("stream-write-bytes:"+v.T.String(), fmt.Sprintf("stream writer for %s = %s, spec says %s", key, short(sbuf.Bytes()), short(ref)), rep)
	} else {
		w.Outcome("swrite-ok:" + v.T.String())
	}

	// 3. random-access decoder
	dv, err := binary.Default.Decode(bytes.NewReader(ref), wire.Type(v.T))
	if err != nil {
		w.Violation("decode-error:"+v.T.String(), fmt.Sprintf("Decode(spec bytes of %s) failed: %v", key, err), rep)
	} else {
		got, ferr := wirex.FromWire(dv)
		if ferr != nil {
			w.Violation("decode-force-error:"+v.T.String(), fmt.Sprintf("forcing Decode(spec bytes of %s) failed: %v", key, ferr), rep)
		} else if got.Key() != key {
			w.Violation("decode-value:"+v.T.String(), fmt.Sprintf("Decode(spec bytes of %s) = %s", key, got.Key()), rep)
		} else {
			w.Outcome("decode-ok:" + v.T.String())
		}
	}
	// 3b. ReadValue offset
	rd := binary.NewReader(bytes.NewReader(ref))
	if rvv, off, err := rd.ReadValue(wire.Type(v.T), 0); err == nil {
		if off != int64(len(ref)) {
			w.Violation("readvalue-offset:"+v.T.String(), fmt.Sprintf("ReadValue(%s) offset %d, encoding is %d bytes", key, off, len(ref)), rep)
		}
		if got, ferr := wirex.FromWire(rvv); ferr != nil || got.Key() != key {
			w.Violation("readvalue-value:"+v.T.String(), fmt.Sprintf("ReadValue(%s) = %s err=%v", key, got.Key(), ferr), rep)
		}
	} else {
		w.Violation("readvalue-error:"+v.T.String(), fmt.Sprintf("ReadValue(%s): %v", key, err), rep)
	}

	// 4. stream reader over a non-seekable reader
	sr := binary.Default.Reader(onlyReader{bytes.NewReader(ref)})
	sv, err := wirex.StreamRead(sr, v.T)
	sr.Close()
	if err != nil {
		w.Violation("stream-read-error:"+v.T.String(), fmt.Sprintf("stream reader walk of %s failed: %v", key, err), rep)
	} else if sv.Key() != key {
		w.Violation("stream-read-value:"+v.T.String(), fmt.Sprintf("stream reader walk of %s = %s", key, sv.Key()), rep)
	} else {
		w.Outcome("sread-ok:" + v.T.String())
	}
}

type onlyReader struct{ r *bytes.Reader }

func (o onlyReader) Read(p []byte) (int, error) { return o.r.Read(p) }
