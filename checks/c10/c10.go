// Package c10: code generation is deterministic (DESIGN.md §3 C10). Built
// with the E3 map-range overlay on compile, gen, internal/plugin and plugin.
package c10

import (
	"crypto/sha256"
	"encoding/hex"
	"encoding/json"
	"fmt"
	"os"
	"os/exec"
	"path/filepath"
	"sort"
	"strings"
	"syscall"
	"time"

	"go.uber.org/thriftrw/compile"
	"go.uber.org/thriftrw/gen"
	"go.uber.org/thriftrw/plugin/api"
	"go.uber.org/thriftrw/verifshim/vmap"
	"verif/bridge/memfs"
	"verif/checks/c07"
	"verif/engine/choice"
	"verif/engine/ev"
	"verif/ref/resolve"
)

// Check is the registered check.
var Check = &ev.Check{
	ID:    "C10",
	Level: "model_checking",
	Rule: "programs: (B) every valid program of C07's systematic family (reference graphs of <=3 definitions over {typedef, struct, enum, const, service} in 7 include layouts; quick: <=2 definitions, plus the 3-definition programs of the 3/4-file layouts in which a non-root file refers to a constant or enum item of another file) under default options, (C) the struct-default sub-family of C07 (structs whose defaults are struct literals, typedefs of structs and containers of other definitions), and (A) a collision family of multi-file programs built so that order can matter (k<=4 includes with equal base names in different directories, unreferenced includes, types whose helper names collide across files, " +
		"files named like imported runtime packages (fmt, wire, strings), constants of map/set/struct/list type, 5 services with inheritance across files, enums/unions/exceptions/typedef chains) x option sets {default, NoZap, EnumTextMarshalStrict, OutputFile, NoRecurse, NoEmbedIDL}. " +
		"schedules: every map-iteration order (all n! for n<=4 keys; {reverse, rotations, adjacent transpositions} beyond) at every range-over-map execution in compile, gen, internal/plugin and plugin with at most 1 deviating execution (thorough: 2 on the small programs). " +
		"A state is a node of the choice tree, a transition one order choice; every execution is a real compile+generate into a scratch directory with an in-process ServiceGenerator capturing the plugin request. " +
		"first-generation family: every small collision program as the FIRST generation of a brand-new process, one process per execution, under every map order with <=1 deviating execution (package-level generator state is pristine only there), compared with the result inside the long-running worker. history family: per program the option sequence default, NoZap, NoEmbedIDL, OutputFile, default, NoRecurse, default, and every (p, q, p) of small programs, into ONE output directory that is not emptied: every file of the fresh-directory result is there with the same bytes. " +
		"Oracle: identical success/failure, identical path->sha256 map of the output tree, identical plugin request after renumbering ids by (thrift path, service name). distinct_nontrivial = (program, options) pairs whose exploration had at least 2 executions.",
	Run:    run,
	Finish: finish,
	Prepare: func(s *ev.S) error {
		// the real thriftrw command, built with the same range rewrite and the vmap
		// environment hook (hooks/verifshim/vmap/env.go), for the CLI family
		bin := filepath.Join(s.WorkDir, "thriftrw-vmap")
		cmd := exec.Command("go", "build", "-tags", "verif", "-overlay", filepath.Join(s.Verif, "bin", "overlay-C10.json"), "-o", bin, "go.uber.org/thriftrw")
		cmd.Dir = s.Verif
		cmd.Env = append(os.Environ(), "GOFLAGS=-mod=mod")
		if out, err := cmd.CombinedOutput(); err != nil {
			return fmt.Errorf("building thriftrw with the range rewrite: %v: %s", err, out)
		}
		s.Args["thriftrw"] = bin
		return nil
	},
	Cleanup: func(*ev.S) {
		if ds, _ := filepath.Glob(fmt.Sprintf("/dev/shm/verif-C10-%d-*", os.Getpid())); len(ds) > 0 {
			for _, d := range ds {
				os.RemoveAll(d)
			}
		}
	},
	Workers: func(string) int { return 16 },
	Budget: func(t string) time.Duration {
		return map[string]time.Duration{"quick": 4 * time.Minute, "thorough": 25 * time.Minute}[t]
	},
	Assumptions: []string{
		"cross-process determinism is covered through the owned sources of nondeterminism (map order); there is no other clock/random/env input on the path (scanned by overlaygen: all map ranges rewritten, none left)",
		"the range rewrite offers a generating set of orders, not all n!, for maps with more than 4 keys",
	},
}

// finish compares the default-order outputs computed by the worker processes.
func finish(s *ev.S, m *ev.Result) {
	files, _ := filepath.Glob(filepath.Join(s.WorkDir, "baseline-*.json"))
	sort.Strings(files)
	var first map[string]string
	firstName := ""
	for _, f := range files {
		var cur map[string]string
		b, err := os.ReadFile(f)
		if err != nil || json.Unmarshal(b, &cur) != nil {
			continue
		}
		if first == nil {
			first, firstName = cur, filepath.Base(f)
			continue
		}
		for k, v := range cur {
			if first[k] != v {
				sig := "cross-process:" + strings.SplitN(k, "/", 2)[0]
				if m.ViolCount == nil {
					m.ViolCount = map[string]int64{}
				}
				m.ViolCount[sig]++
				if m.ViolCount[sig] <= 2 {
					m.Violations = append(m.Violations, ev.Violation{Sig: sig, Detail: fmt.Sprintf("%s: output hash %s in worker process %s but %s in %s (the workers visit the programs in rotated orders: state leaks between generations inside one process, or the output depends on the process)", k, first[k], firstName, v, filepath.Base(f)),
						Replay: map[string]string{"case": k}})
				}
			}
		}
	}
	if m.Counters == nil {
		m.Counters = map[string]int64{}
	}
	m.Counters["worker_processes_compared"] = int64(len(files))
}

type program struct {
	Name  string            `json:"name"`
	Root  string            `json:"root"`
	Files map[string]string `json:"files"`
	Small bool              `json:"-"`
}

func programs() []program {
	var ps []program
	foo := func(pkg string) string {
		return fmt.Sprintf("struct Foo { 1: optional string %s }\nenum Kind { A = 1, B = 2 }\ntypedef list<Foo> Foos\nconst Foo DEFAULT = {\"%s\": \"x\"}\n", pkg, pkg)
	}
	// 1. equal base names in different directories (reached through distinct includes)
	ps = append(ps, program{Name: "same-base-names", Root: "root.thrift", Small: true, Files: map[string]string{
		"root.thrift": "include \"./a/x.thrift\"\ninclude \"./b/y.thrift\"\ninclude \"./c/z.thrift\"\n" +
			"struct R { 1: optional list<x.T> xs; 2: optional map<string, y.T> m; 3: optional set<z.K> ks; 4: optional x.Ts fs }\n" +
			"const list<x.T> ALL = [x.D]\n",
		"a/x.thrift":   "include \"./foo.thrift\"\ntypedef foo.Foo T\ntypedef foo.Foos Ts\nconst T D = foo.DEFAULT\n",
		"b/y.thrift":   "include \"./foo.thrift\"\ntypedef foo.Foo T\n",
		"c/z.thrift":   "include \"./foo.thrift\"\ntypedef foo.Kind K\n",
		"a/foo.thrift": foo("a"), "b/foo.thrift": foo("b"), "c/foo.thrift": foo("c"),
	}})
	// same, but reaching the equally named packages through distinct include names
	ps = append(ps, program{Name: "helper-collisions", Root: "root.thrift", Small: true, Files: map[string]string{
		"root.thrift": "include \"./a.thrift\"\ninclude \"./b.thrift\"\ninclude \"./c.thrift\"\ninclude \"./unused.thrift\"\n" +
			"struct R { 1: optional list<a.Foo> xs; 2: optional list<b.Foo> ys; 3: optional map<string, c.Foo> m; 4: optional set<a.Kind> ks; 5: optional map<b.Kind, list<c.Foo>> n }\n" +
			"union U { 1: a.Foos fa; 2: b.Foos fb }\n",
		"a.thrift": foo("a"), "b.thrift": foo("b"), "c.thrift": foo("c"), "unused.thrift": "struct Unused {}\n",
	}})
	// 2. packages named like imported runtime packages
	ps = append(ps, program{Name: "import-alias-collisions", Root: "root.thrift", Small: true, Files: map[string]string{
		"root.thrift": "include \"./fmt.thrift\"\ninclude \"./wire.thrift\"\ninclude \"./strings.thrift\"\ninclude \"./errors.thrift\"\n" +
			"struct R { 1: optional fmt.T a; 2: optional wire.T b; 3: optional strings.T c; 4: optional errors.T d; 5: required list<fmt.T> e }\n" +
			"exception X { 1: optional wire.T b }\nservice S { fmt.T f(1: wire.T a) throws (1: X x) }\n",
		"fmt.thrift": "struct T { 1: optional string s }\n", "wire.thrift": "struct T { 1: optional i32 s }\n",
		"strings.thrift": "struct T { 1: optional binary s }\n", "errors.thrift": "enum T { A, B }\n",
	}})
	// 2b. includes whose names are bare version elements (v1, v2, v3) below equally named
	// directories, used only in service signatures or not at all: their imports happen late
	ps = append(ps, program{Name: "versioned-includes", Root: "root.thrift", Small: true, Files: map[string]string{
		"root.thrift": "include \"./api/v1.thrift\"\ninclude \"./api/v2.thrift\"\ninclude \"./api/v3.thrift\"\ninclude \"./lib/v1/types.thrift\"\n" +
			"service S { v1.T a(1: v2.T x) throws (1: v3.X e) }\nstruct Local { 1: optional i32 v }\n",
		"api/v1.thrift": "struct T { 1: optional string s }\n", "api/v2.thrift": "struct T { 1: optional i32 s }\n", "api/v3.thrift": "exception X { 1: optional string m }\n",
		"lib/v1/types.thrift": "struct Unused { 1: optional i32 u }\n",
	}})
	// 2b'. includes whose aliases interact with each other and with imported runtime packages
	// (errors / errors2, fmt / fmt2, wire / wire2), used only in service signatures
	ps = append(ps, program{Name: "interacting-aliases", Root: "root.thrift", Small: true, Files: map[string]string{
		"root.thrift": "include \"./errors.thrift\"\ninclude \"./errors2.thrift\"\ninclude \"./fmt.thrift\"\ninclude \"./fmt2.thrift\"\ninclude \"./wire2.thrift\"\ninclude \"./wire.thrift\"\n" +
			"struct Local { 1: required string s; 2: optional list<i32> l }\nexception LocalX { 1: optional string m }\nenum LocalE { A }\n" +
			"service S { errors.T a(1: errors2.T x, 2: fmt.T y, 3: fmt2.T z) throws (1: LocalX e)\n wire.T b(1: wire2.T w) }\n",
		"errors.thrift": "struct T { 1: optional string s }\n", "errors2.thrift": "struct T { 1: optional i32 s }\n", "fmt.thrift": "struct T { 1: optional i64 s }\n",
		"fmt2.thrift": "struct T { 1: optional bool s }\n", "wire.thrift": "struct T { 1: optional double s }\n", "wire2.thrift": "struct T { 1: optional binary s }\n",
	}})
	// 2c. set literals that repeat an item (accepted by the compiler)
	ps = append(ps, program{Name: "set-literals-with-repeats", Root: "root.thrift", Small: true, Files: map[string]string{
		"root.thrift": "const set<string> S = [\"a\", \"b\", \"c\", \"a\", \"d\", \"b\"]\nconst set<double> D = [1, 1.0, 2, 3, 2]\nconst set<i32> I = [5, 4, 5, 3, 4, 2]\nconst set<bool> B = [true, false, true]\n" +
			"struct H { 1: optional set<string> s = [\"x\", \"y\", \"x\", \"z\"]; 2: optional set<i64> (go.type = \"slice\") t = [9, 8, 9, 7] }\nservice Sv { void f(1: set<i32> a = [1, 2, 1, 3]) }\n",
	}})
	// 3. constants of container/struct type
	ps = append(ps, program{Name: "container-constants", Root: "root.thrift", Small: true, Files: map[string]string{
		"root.thrift": "struct P { 1: optional string a; 2: optional i32 b; 3: optional list<string> c; 4: optional map<string, i32> d; 5: optional set<i32> e }\n" +
			"const map<string, i32> M = {\"a\": 1, \"b\": 2, \"c\": 3, \"d\": 4, \"e\": 5}\n" +
			"const set<string> S = [\"x\", \"y\", \"z\", \"w\", \"v\"]\n" +
			"const map<string, list<i32>> ML = {\"a\": [1, 2], \"b\": [3]}\n" +
			"const P PV = {\"a\": \"s\", \"b\": 2, \"c\": [\"q\"], \"d\": {\"k\": 1, \"j\": 2}, \"e\": [3, 2, 1]}\n" +
			"const map<P, string> MP = {{\"a\": \"k1\"}: \"v1\", {\"a\": \"k2\"}: \"v2\"}\n" +
			"const list<P> LP = [PV, {\"b\": 7}]\n" +
			"struct D { 1: optional map<string, i32> m = {\"x\": 1, \"y\": 2}; 2: optional P p = {\"a\": \"dflt\", \"b\": 1} ; 3: optional set<string> s = [\"b\", \"a\"] }\n",
	}})
	// 4. many services with inheritance across files
	svc := func(name, parent string) string {
		ext := ""
		if parent != "" {
			ext = " extends " + parent
		}
		return fmt.Sprintf("service %s%s {\n  void a(1: i32 x)\n  string b(1: string y) throws (1: Err e)\n  oneway void c()\n  list<i32> d(1: map<string, i32> m)\n  Err e()\n}\n", name, ext)
	}
	ps = append(ps, program{Name: "services", Root: "root.thrift", Files: map[string]string{
		"root.thrift": "include \"./base.thrift\"\ninclude \"./mid.thrift\"\nexception Err { 1: optional string m }\n" +
			svc("S1", "base.Base") + svc("S2", "mid.Mid") + svc("S3", "S1") + svc("S4", "") + svc("S5", "S4"),
		"base.thrift": "exception Err { 1: optional string m }\n" + svc("Base", ""),
		"mid.thrift":  "include \"./base.thrift\"\nexception Err { 1: optional string m }\n" + svc("Mid", "base.Base"),
	}})
	// 5. a bit of everything in one module and an include diamond
	ps = append(ps, program{Name: "diamond-mixed", Root: "root.thrift", Files: map[string]string{
		"root.thrift": "include \"./l.thrift\"\ninclude \"./r.thrift\"\n" +
			"typedef l.LT A\ntypedef r.RT B\ntypedef A AA\nstruct Z { 1: optional A a; 2: optional B b; 3: optional AA aa; 4: optional list<l.LT> ls }\n" +
			"enum E1 { X, Y }\nenum E2 { X, Y }\nunion U1 { 1: E1 a; 2: E2 b }\nconst E1 CE = E1.Y\nconst l.LT CL = l.DEF\n",
		"l.thrift":      "include \"./shared.thrift\"\ntypedef shared.S LT\nconst LT DEF = {\"v\": 1}\n",
		"r.thrift":      "include \"./shared.thrift\"\ntypedef shared.S RT\n",
		"shared.thrift": "struct S { 1: optional i32 v }\n",
	}})
	// 6. one shared include whose package name collides with a standard import in
	// one including module and not in another
	ps = append(ps, program{Name: "shared-include-alias", Root: "root.thrift", Small: true, Files: map[string]string{
		"root.thrift":    "include \"./a.thrift\"\ninclude \"./b.thrift\"\ninclude \"./c.thrift\"\nstruct R { 1: optional a.A x; 2: optional b.B y; 3: optional c.C z }\n",
		"a.thrift":       "include \"./errors.thrift\"\ninclude \"./strings.thrift\"\nstruct A { 1: required errors.T t; 2: required string s; 3: optional strings.S q }\n",
		"b.thrift":       "include \"./errors.thrift\"\ntypedef errors.T B\n",
		"c.thrift":       "include \"./strings.thrift\"\ninclude \"./errors.thrift\"\nstruct C { 1: optional strings.S s; 2: optional errors.T t }\nconst errors.T CT = {\"m\": \"x\"}\n",
		"errors.thrift":  "struct T { 1: optional string m }\n",
		"strings.thrift": "struct S { 1: optional string v }\nenum E { A }\n",
	}})
	// 7. inheritance chains whose upper links are only reachable through other files' includes
	ps = append(ps, program{Name: "deep-inheritance", Root: "root.thrift", Small: true, Files: map[string]string{
		"root.thrift": "include \"./x.thrift\"\ninclude \"./m.thrift\"\ninclude \"./y.thrift\"\nservice Root extends x.X { void r() }\n",
		"x.thrift":    "include \"./m.thrift\"\nservice X extends m.M { void x() }\n",
		"y.thrift":    "include \"./x.thrift\"\nservice Y extends x.X { void y() }\n",
		"m.thrift":    "include \"./n.thrift\"\nservice M extends n.N { void m() }\n",
		"n.thrift":    "include \"./o.thrift\"\nservice N extends o.O { void n() }\n",
		"o.thrift":    "service O { void o() }\n",
	}})
	ps = append(ps, program{Name: "deep-inheritance-siblings", Root: "root.thrift", Small: true, Files: map[string]string{
		"root.thrift": "include \"./x.thrift\"\ninclude \"./m.thrift\"\ninclude \"./z.thrift\"\nstruct Only { 1: optional i32 a }\n",
		"x.thrift":    "include \"./m.thrift\"\nservice X extends m.M { void x() }\n",
		"z.thrift":    "include \"./x.thrift\"\nservice Z extends x.X { void z() }\n",
		"m.thrift":    "include \"./n.thrift\"\nservice M extends n.N { void m() }\n",
		"n.thrift":    "service N { void n() }\n",
	}})
	// 8. method names that only some kinds of generated types have (Error/ErrorName on
	// exceptions, MethodName/EnvelopeType on argument and result structs) as FIELD names of
	// plain structs, next to an exception and a service in sibling includes
	ps = append(ps, program{Name: "kind-specific-method-names", Root: "root.thrift", Small: true, Files: map[string]string{
		"root.thrift": "include \"./a.thrift\"\ninclude \"./b.thrift\"\ninclude \"./c.thrift\"\nstruct R { 1: optional a.P p; 2: optional b.X x; 3: optional c.Q q }\n",
		"a.thrift":    "struct P { 1: optional string error; 2: optional string methodName; 3: optional string envelopeType; 4: optional string errorName }\n",
		"b.thrift":    "exception X { 1: optional string msg }\nservice S { void f(1: string a) throws (1: X x) }\n",
		"c.thrift":    "struct Q { 1: optional string error_name; 2: optional string method_name; 3: optional i32 envelope_type }\nunion U { 1: string error }\n",
	}})
	// 9. struct constants (and struct-typed defaults, nested literals) that set several
	// optional fields of distinct enum / typedef-of-primitive types: every such field needs a
	// helper of its own that is declared when first used
	ps = append(ps, program{Name: "struct-constant-pointer-helpers", Root: "root.thrift", Small: true, Files: map[string]string{
		"root.thrift": "include \"./t.thrift\"\nenum E1 { A, B }\nenum E2 { C, D }\nenum E3 { F, G }\ntypedef i32 T1\ntypedef string T2\ntypedef double T3\ntypedef i8 T4\n" +
			"struct S { 1: optional E1 a; 2: optional E2 b; 3: optional T1 c; 4: optional T2 d; 5: optional t.X e; 6: optional t.TX f; 7: optional E3 g; 8: optional T3 h; 9: optional bool i; 10: optional i64 j; 11: optional T4 k }\n" +
			"struct N { 1: optional S s = {\"g\": 1, \"h\": 2.5, \"a\": 0}; 2: optional list<S> l = [{\"d\": \"x\", \"c\": 7}] }\n" +
			"const S K = {\"a\": 1, \"b\": 0, \"c\": 5, \"d\": \"s\", \"e\": 1, \"f\": 9, \"i\": true, \"j\": 6, \"k\": 3}\n" +
			"const map<string, S> M = {\"k\": {\"f\": 3, \"e\": 0, \"b\": 1}}\n",
		"t.thrift": "enum X { P, Q }\ntypedef i16 TX\n",
	}})
	return ps
}

type optSet struct {
	name string
	set  func(o *gen.Options)
}

var optSets = []optSet{
	{"default", func(o *gen.Options) {}},
	{"NoZap", func(o *gen.Options) { o.NoZap = true }},
	{"EnumTextMarshalStrict", func(o *gen.Options) { o.EnumTextMarshalStrict = true }},
	{"OutputFile", func(o *gen.Options) { o.OutputFile = "out.go" }},
	{"NoRecurse", func(o *gen.Options) { o.NoRecurse = true }},
	{"NoEmbedIDL", func(o *gen.Options) { o.NoEmbedIDL = true }},
}

// capture is the in-process ServiceGenerator.
type capture struct{ req string }

func (c *capture) Generate(r *api.GenerateServiceRequest) (*api.GenerateServiceResponse, error) {
	c.req = normalizeRequest(r)
	return &api.GenerateServiceResponse{Files: map[string][]byte{"plugin/out.txt": []byte("x"), "plugin/b.txt": []byte("y")}}, nil
}

func normalizeRequest(r *api.GenerateServiceRequest) string {
	modKey := map[api.ModuleID]string{}
	var lines []string
	for id, m := range r.Modules {
		modKey[id] = m.ThriftFilePath
		lines = append(lines, fmt.Sprintf("module %s import=%s dir=%s", m.ThriftFilePath, m.ImportPath, m.Directory))
	}
	svcKey := map[api.ServiceID]string{}
	for id, s := range r.Services {
		svcKey[id] = modKey[s.ModuleID] + ":" + s.ThriftName
	}
	for _, s := range r.Services {
		par := "-"
		if s.ParentID != nil {
			par = svcKey[*s.ParentID]
		}
		fb, _ := json.Marshal(s.Functions)
		ab, _ := json.Marshal(s.Annotations)
		lines = append(lines, fmt.Sprintf("service %s name=%s parent=%s functions=%s annotations=%s", modKey[s.ModuleID]+":"+s.ThriftName, s.Name, par, fb, ab))
	}
	var roots, rootMods []string
	for _, id := range r.RootServices {
		roots = append(roots, svcKey[id])
	}
	for _, id := range r.RootModules {
		rootMods = append(rootMods, modKey[id])
	}
	sort.Strings(roots)
	sort.Strings(rootMods)
	sort.Strings(lines)
	return fmt.Sprintf("prefix=%s root=%s\nrootServices=%v\nrootModules=%v\n%s", r.PackagePrefix, r.ThriftRoot, roots, rootMods, strings.Join(lines, "\n"))
}

func execute(p program, os_ optSet, out string, c *choice.Ctx) string {
	return executeIn(p, os_, out, c, false)
}

// executeIn: with reuse, the output directory is used as it stands (whatever an
// earlier generation left there) and only the paths of want are reported.
func executeIn(p program, os_ optSet, out string, c *choice.Ctx, reuse bool) string {
	vmap.Reset()
	if c != nil {
		vmap.Chooser = func(site string, n, nAlts int) int { return c.Deviate(nAlts, site) }
	}
	defer func() { vmap.Chooser = nil }()
	fs := memfs.FS{}
	for k, v := range p.Files {
		fs["/m/"+k] = v
	}
	if !reuse {
		os.RemoveAll(out)
	}
	var res string
	func() {
		defer func() {
			if r := recover(); r != nil {
				res = fmt.Sprintf("PANIC %v", r)
			}
		}()
		m, err := compile.Compile("/m/"+p.Root, compile.Filesystem(fs))
		if err != nil {
			res = "COMPILE-ERROR"
			return
		}
		cp := &capture{}
		o := &gen.Options{OutputDir: out, PackagePrefix: "x/y", ThriftRoot: "/m", NoVersionCheck: true, Plugin: gen.CodeGenerator{ServiceGenerator: cp}}
		os_.set(o)
		if err := gen.Generate(m, o); err != nil {
			res = "GENERATE-ERROR"
			return
		}
		vmap.Chooser = nil
		var lines []string
		filepath.Walk(out, func(path string, info os.FileInfo, err error) error {
			if err == nil && !info.IsDir() {
				b, _ := os.ReadFile(path)
				h := sha256.Sum256(b)
				rel, _ := filepath.Rel(out, path)
				lines = append(lines, rel+" "+hex.EncodeToString(h[:8]))
			}
			return nil
		})
		sort.Strings(lines)
		rh := sha256.Sum256([]byte(cp.req))
		res = "OK\n" + strings.Join(lines, "\n") + "\nrequest " + hex.EncodeToString(rh[:8])
	}()
	return res
}

func diffLines(a, b string) string {
	la, lb := strings.Split(a, "\n"), strings.Split(b, "\n")
	var d []string
	for i := 0; i < len(la) || i < len(lb); i++ {
		x, y := "", ""
		if i < len(la) {
			x = la[i]
		}
		if i < len(lb) {
			y = lb[i]
		}
		if x != y {
			d = append(d, fmt.Sprintf("%q vs %q", x, y))
		}
		if len(d) >= 3 {
			break
		}
	}
	return strings.Join(d, "; ")
}

// crossModuleConst selects the three-definition programs of the three- and four-file
// layouts in which a definition outside the root file refers to a constant or an
// enum item of yet another file (the value is linked through a sibling module).
func crossModuleConst(p *resolve.Prog, layout string) bool {
	if layout != "siblings" && layout != "chain3" && layout != "diamond" {
		return false
	}
	for _, d := range p.Defs {
		if d.File != 0 && (d.Val.Kind == "const" || d.Val.Kind == "item") && p.Defs[d.Val.Def].File != d.File {
			return true
		}
	}
	return false
}

// freshSpec describes one generation to be run as the FIRST generation of a new
// process (VERIF_C10_FRESH names the file holding it).
type freshSpec struct {
	Program program `json:"program"`
	Option  string  `json:"option"`
	Prefix  []int   `json:"prefix"`
	Out     string  `json:"out"`
	Result  string  `json:"result"`
}

type freshResult struct {
	Result string         `json:"result"`
	Trace  []choice.Point `json:"trace"`
}

// runFresh is the child side: one generation, nothing before it.
func runFresh(specPath string) {
	var sp freshSpec
	b, err := os.ReadFile(specPath)
	if err != nil || json.Unmarshal(b, &sp) != nil {
		return
	}
	var o optSet
	for _, x := range optSets {
		if x.name == sp.Option {
			o = x
		}
	}
	c := choice.Replay(sp.Prefix)
	res := freshResult{}
	func() {
		defer func() {
			if r := recover(); r != nil {
				res.Result = fmt.Sprintf("HARNESS-PANIC %v", r)
			}
		}()
		res.Result = execute(sp.Program, o, sp.Out, c)
	}()
	res.Trace = c.Trace
	os.RemoveAll(sp.Out)
	b, _ = json.Marshal(res)
	os.WriteFile(sp.Result, b, 0o644)
}

// firstGeneration runs (p, o) under the order choices of c as the first generation of
// a new process and feeds the points it met back into c.
func firstGeneration(w *ev.W, p program, o optSet, out string, c *choice.Ctx) string {
	specPath := filepath.Join(w.WorkDir, fmt.Sprintf("fresh-%d.json", w.Shard))
	sp := freshSpec{Program: p, Option: o.name, Prefix: c.Prefix(), Out: out + "-fresh", Result: specPath + ".result"}
	b, _ := json.Marshal(sp)
	os.WriteFile(specPath, b, 0o644)
	os.Remove(sp.Result)
	cmd := exec.Command(os.Args[0], "C10", "--tier", w.Tier, "--worker", "0/1", "--workdir", w.WorkDir, "--out", specPath+".ckpt")
	cmd.Env = append(os.Environ(), "VERIF_C10_FRESH="+specPath, "GOMAXPROCS=1")
	cmd.SysProcAttr = &syscall.SysProcAttr{Pdeathsig: syscall.SIGKILL}
	outb, err := cmd.CombinedOutput()
	var res freshResult
	rb, rerr := os.ReadFile(sp.Result)
	if err != nil || rerr != nil || json.Unmarshal(rb, &res) != nil {
		panic(fmt.Sprintf("fresh-process generation did not report: %v %v %.300s", err, rerr, outb))
	}
	for _, pt := range res.Trace {
		c.Deviate(pt.N, pt.Label)
	}
	return res.Result
}

func run(w *ev.W) {
	if sp := os.Getenv("VERIF_C10_FRESH"); sp != "" {
		runFresh(sp)
		return
	}
	// generated output goes to memory-backed scratch space when there is one
	// (thousands of small generations; removed by the worker, and by the
	// supervisor's Cleanup if a worker dies)
	out, err := os.MkdirTemp("/dev/shm", fmt.Sprintf("verif-C10-%d-", os.Getppid()))
	if err != nil {
		out, err = os.MkdirTemp(w.WorkDir, "c10out")
	}
	if err != nil {
		w.Note(err.Error())
		return
	}
	defer os.RemoveAll(out)
	ps := programs()
	// Each worker is a fresh process. Before anything else it computes the
	// default-order output of every (program, options) pair, visiting the
	// programs in an order rotated by its shard number, and records the hashes;
	// the supervisor compares them across processes (state leaking between
	// runs inside one process shows up as a difference between workers).
	{
		base := map[string]string{}
		n := len(ps)
		for i := 0; i < n; i++ {
			p := ps[(i+w.Shard)%n]
			for _, o := range optSets {
				h := sha256.Sum256([]byte(execute(p, o, out, nil)))
				base[p.Name+"/"+o.name] = hex.EncodeToString(h[:8])
			}
		}
		b, _ := json.Marshal(base)
		os.WriteFile(filepath.Join(w.WorkDir, fmt.Sprintf("baseline-%d.json", w.Shard)), b, 0o644)
		w.Count("cross_process_baselines", int64(len(base)))
	}
	// one (program, options) pair per case; the exploration of one pair is
	// additionally sharded over workers by level-1 subtree
	for _, p := range ps {
		for _, o := range optSets {
			if w.Shard == 0 {
				w.Eval(1)
			}
			base := execute(p, o, out, nil)
			baseClass := strings.SplitN(base, "\n", 2)[0]
			distinct := map[string][]string{}
			bound := 1
			if !w.Quick() && p.Small && (o.name == "default" || o.name == "NoRecurse") {
				bound = 2
			}
			ex := &choice.Explorer{Bound: bound, Shard: w.Shard, Of: w.Of}
			ex.Body = func(c *choice.Ctx) {
				r := execute(p, o, out, c)
				if _, ok := distinct[r]; !ok {
					var lab []string
					for i, pt := range c.Trace {
						if pt.Choice != 0 {
							lab = append(lab, fmt.Sprintf("%s#%d=order%d/%d", pt.Label, i, pt.Choice, pt.N))
						}
					}
					distinct[r] = lab
				}
			}
			ex.Stop = w.Expired
			ex.Run()
			if ex.Stats.Capped {
				w.Cap("time budget reached inside the exploration of " + p.Name + "/" + o.name)
			}
			w.R.States += ex.Stats.States
			w.R.Transitions += ex.Stats.Transitions
			w.R.Traces += ex.Stats.Executions
			w.Count("executions", ex.Stats.Executions)
			w.Count("executions_with_nondefault_order", ex.Stats.NonDefault)
			if ex.Stats.MaxDepth > int(w.R.Counters["max_choice_depth"]) {
				w.R.Counters["max_choice_depth"] = int64(ex.Stats.MaxDepth)
			}
			if w.Shard == 0 {
				w.Outcome("baseline:" + baseClass)
				if ex.Stats.MaxDepth > 0 {
					w.Nontrivial(1)
				}
				w.Sample(map[string]interface{}{"program": p.Name, "options": o.name, "baseline": baseClass, "choice_points": ex.Stats.MaxDepth, "files": len(p.Files)})
			}
			distinct[base] = append(distinct[base], []string{}...)
			if len(distinct) > 1 {
				var descr []string
				var other string
				for r, lab := range distinct {
					descr = append(descr, fmt.Sprintf("[%s under %v]", strings.SplitN(r, "\n", 2)[0], lab))
					if r != base {
						other = r
					}
				}
				sort.Strings(descr)
				w.Violation("nondeterministic:"+p.Name, fmt.Sprintf("program %s options %s: %d different outputs depending on map iteration order: %s; differences: %s",
					p.Name, o.name, len(distinct), strings.Join(descr, " "), diffLines(base, other)),
					map[string]interface{}{"program": p, "options": o.name, "orders": distinct})
			}
			if baseClass == "COMPILE-ERROR" && w.Shard == 0 {
				w.Note("HARNESS: collision program " + p.Name + " does not compile (" + o.name + "): it contributes nothing")
				w.Cap("collision program " + p.Name + " does not compile")
			}
			if strings.HasPrefix(baseClass, "PANIC") {
				w.Violation("panic:"+p.Name, base, map[string]interface{}{"program": p, "options": o.name})
			}
		}
	}
	// history family: generations into ONE output directory that is not cleaned in
	// between (regenerating in place after the sources or the options changed): for every
	// program the option sequence default, NoZap, NoEmbedIDL, OutputFile, default, and every
	// program after every other small program. What a generation writes must not depend on
	// what the directory held before: every file of the fresh-directory result is there with
	// the same bytes.
	{
		fresh := map[string]string{}
		freshOf := func(p program, o optSet) string {
			k := p.Name + "/" + o.name
			if r, ok := fresh[k]; ok {
				return r
			}
			fresh[k] = execute(p, o, out, nil)
			return fresh[k]
		}
		reused := out + "-reused"
		defer os.RemoveAll(reused)
		type step struct {
			p program
			o optSet
		}
		check := func(hist []step) {
			os.RemoveAll(reused)
			var names []string
			for _, st := range hist {
				names = append(names, st.p.Name+"/"+st.o.name)
				got := executeIn(st.p, st.o, reused, nil, true)
				want := freshOf(st.p, st.o)
				w.Count("generations_into_a_reused_directory", 1)
				have := map[string]bool{}
				for _, l := range strings.Split(got, "\n") {
					have[l] = true
				}
				for i, l := range strings.Split(want, "\n") {
					if i == 0 && strings.SplitN(got, "\n", 2)[0] != l {
						w.Violation("reused-directory:outcome:"+st.p.Name, fmt.Sprintf("history %v: outcome %q in the reused directory, %q in a fresh one", names, strings.SplitN(got, "\n", 2)[0], l), map[string]interface{}{"history": names})
						break
					}
					if !have[l] {
						w.Violation("reused-directory:"+st.p.Name, fmt.Sprintf("history %v: the fresh-directory result has %q, the reused directory does not (it keeps bytes of the previous generation): %s", names, l, diffLines(want, got)), map[string]interface{}{"history": names})
						break
					}
				}
			}
		}
		byName := map[string]optSet{}
		for _, o := range optSets {
			byName[o.name] = o
		}
		idx := 0
		for _, p := range ps {
			idx++
			if idx%w.Of != w.Shard {
				continue
			}
			w.Eval(1)
			w.Nontrivial(1)
			var hist []step
			for _, on := range []string{"default", "NoZap", "NoEmbedIDL", "OutputFile", "default", "NoRecurse", "default"} {
				hist = append(hist, step{p, byName[on]})
			}
			check(hist)
			w.Outcome("history:options")
		}
		for _, p := range ps {
			for _, q := range ps {
				if !p.Small || !q.Small || p.Name == q.Name {
					continue
				}
				idx++
				if idx%w.Of != w.Shard {
					continue
				}
				w.Eval(1)
				w.Nontrivial(1)
				check([]step{{p, optSets[0]}, {q, optSets[0]}, {p, optSets[0]}})
				w.Outcome("history:programs")
			}
		}
	}
	// first-generation family: the same (program, default options) run as the FIRST
	// generation of a brand-new process, one process per execution, under every map order
	// with <=1 deviating execution. Everything above runs thousands of generations inside
	// one worker process, where package-level state of the generator is whatever earlier
	// generations left; here it is pristine. All results agree with each other and with the
	// result computed in this (long-running) worker process.
	for i, p := range ps {
		if !p.Small || i%w.Of != w.Shard {
			continue
		}
		if w.Expired() {
			w.Cap("time budget reached inside the first-generation family")
			break
		}
		o := optSets[0]
		w.Eval(1)
		w.Nontrivial(1)
		inproc := execute(p, o, out, nil)
		distinct := map[string][]int{}
		ex := &choice.Explorer{Bound: 1}
		ex.Body = func(c *choice.Ctx) {
			r := firstGeneration(w, p, o, out, c)
			if _, ok := distinct[r]; !ok {
				distinct[r] = c.Vector()
			}
		}
		ex.Stop = w.Expired
		ex.Run()
		if ex.Stats.Capped {
			w.Cap("time budget reached inside the first-generation family")
		}
		w.R.States += ex.Stats.States
		w.R.Transitions += ex.Stats.Transitions
		w.R.Traces += ex.Stats.Executions
		w.Count("first_generation_processes", ex.Stats.Executions)
		w.Outcome("first-generation:" + strings.SplitN(inproc, "\n", 2)[0])
		if _, ok := distinct[inproc]; !ok || len(distinct) > 1 {
			var descr []string
			other := ""
			for r, v := range distinct {
				descr = append(descr, fmt.Sprintf("[%s as first generation of a process under choices %v]", strings.SplitN(r, "\n", 2)[0], v))
				if r != inproc {
					other = r
				}
			}
			sort.Strings(descr)
			w.Violation("first-generation:"+p.Name, fmt.Sprintf("program %s: in a process that has generated other programs before the result is %s; %s; differences: %s",
				p.Name, strings.SplitN(inproc, "\n", 2)[0], strings.Join(descr, " "), diffLines(inproc, other)), map[string]interface{}{"program": p})
		}
	}
	// CLI family: the real thriftrw command (built with the range rewrite) WITHOUT
	// --thrift-root, so that it infers the root from the files involved (main.go), on
	// directory layouts with sibling directories whose names are prefixes of one another;
	// one process per execution, every map order with <=1 deviating execution.
	r := cliFamily(w, out)
	_ = r
	// family B: the systematic program family of C07 (every reference graph of <=3
	// definitions over 5 kinds in 7 layouts), restricted to programs the reference
	// resolver deems valid; default options; every map order with <=1 deviating execution
	optDefault := optSets[0]
	nB := 0
	c07.Enumerate(w.Quick(), func(rp resolve.Prog, layout string) {
		if len(w.R.Caps) > 0 || !w.Own() {
			return
		}
		if w.Quick() && len(rp.Defs) == 3 && !crossModuleConst(&rp, layout) {
			return // quick: three definitions only where a non-root file refers to a constant or enum item of another file
		}
		if !rp.Resolve().Valid {
			return
		}
		nB++
		if nB&15 == 0 && w.Expired() {
			w.Cap("time budget reached inside the systematic program family")
			return
		}
		p := program{Name: "systematic:" + layout, Root: "f0.thrift", Files: map[string]string{}}
		for path, text := range rp.Render() {
			p.Files[strings.TrimPrefix(path, "/m/")] = text
		}
		w.Eval(1)
		base := execute(p, optDefault, out, nil)
		distinct := map[string][]string{}
		ex := &choice.Explorer{Bound: 1}
		ex.Body = func(c *choice.Ctx) {
			r := execute(p, optDefault, out, c)
			if _, ok := distinct[r]; !ok {
				var lab []string
				for i, pt := range c.Trace {
					if pt.Choice != 0 {
						lab = append(lab, fmt.Sprintf("%s#%d=order%d/%d", pt.Label, i, pt.Choice, pt.N))
					}
				}
				distinct[r] = lab
			}
		}
		ex.Run()
		w.R.States += ex.Stats.States
		w.R.Transitions += ex.Stats.Transitions
		w.R.Traces += ex.Stats.Executions
		w.Count("systematic_programs", 1)
		w.Count("executions", ex.Stats.Executions)
		if ex.Stats.MaxDepth > 0 {
			w.Nontrivial(1)
		}
		w.Outcome("systematic:" + strings.SplitN(base, "\n", 2)[0])
		distinct[base] = append(distinct[base], []string{}...)
		if len(distinct) > 1 {
			var descr []string
			var other string
			for r, lab := range distinct {
				descr = append(descr, fmt.Sprintf("[%s under %v]", strings.SplitN(r, "\n", 2)[0], lab))
				if r != base {
					other = r
				}
			}
			sort.Strings(descr)
			w.Violation("nondeterministic:systematic:"+layout, fmt.Sprintf("program %v: %d different outputs depending on map iteration order: %s; differences: %s",
				p.Files, len(distinct), strings.Join(descr, " "), diffLines(base, other)), map[string]interface{}{"program": p, "orders": distinct})
		}
		w.Done()
	})
	// family C: struct-default programs (defaults that are struct literals, typedefs of
	// structs and containers of other definitions; see C07), every map order, <=1 deviation
	c07.StructPrograms(w.Quick(), func(files map[string]string, desc string) {
		if len(w.R.Caps) > 0 || !w.Own() {
			return
		}
		if w.Expired() {
			w.Cap("time budget reached inside the struct-default family")
			return
		}
		p := program{Name: desc, Root: "f0.thrift", Files: map[string]string{}}
		for path, text := range files {
			p.Files[strings.TrimPrefix(path, "/m/")] = text
		}
		w.Eval(1)
		base := execute(p, optDefault, out, nil)
		distinct := map[string][]string{}
		ex := &choice.Explorer{Bound: 1}
		ex.Body = func(c *choice.Ctx) {
			r := execute(p, optDefault, out, c)
			if _, ok := distinct[r]; !ok {
				var lab []string
				for i, pt := range c.Trace {
					if pt.Choice != 0 {
						lab = append(lab, fmt.Sprintf("%s#%d=order%d/%d", pt.Label, i, pt.Choice, pt.N))
					}
				}
				distinct[r] = lab
			}
		}
		ex.Run()
		w.R.States += ex.Stats.States
		w.R.Transitions += ex.Stats.Transitions
		w.R.Traces += ex.Stats.Executions
		w.Count("struct_default_programs", 1)
		w.Count("executions", ex.Stats.Executions)
		if ex.Stats.MaxDepth > 0 {
			w.Nontrivial(1)
		}
		w.Outcome("struct-defaults:" + strings.SplitN(base, "\n", 2)[0])
		distinct[base] = append(distinct[base], []string{}...)
		if len(distinct) > 1 {
			var descr []string
			var other string
			for r, lab := range distinct {
				descr = append(descr, fmt.Sprintf("[%s under %v]", strings.SplitN(r, "\n", 2)[0], lab))
				if r != base {
					other = r
				}
			}
			sort.Strings(descr)
			w.Violation("nondeterministic:struct-defaults", fmt.Sprintf("program %v: %d different outputs depending on map iteration order: %s; differences: %s",
				p.Files, len(distinct), strings.Join(descr, " "), diffLines(base, other)), map[string]interface{}{"program": p, "orders": distinct})
		}
		w.Done()
	})
	if w.Shard == 0 {
		var sites []string
		for s := range vmap.Sites {
			sites = append(sites, s)
		}
		sort.Strings(sites)
		w.Note("map-range sites reached by the last execution: " + strings.Join(sites, " "))
	}
}

type cliLayout struct {
	name  string
	root  string
	files map[string]string
}

func cliLayouts() []cliLayout {
	var out []cliLayout
	out = append(out, cliLayout{"svc-and-svc_common", "idl/svc/api/service.thrift", map[string]string{
		"idl/svc/api/service.thrift":  "include \"../shared.thrift\"\ninclude \"../../svc_common/types.thrift\"\nstruct Req { 1: optional shared.S s; 2: optional types.T t }\nservice Api { void f(1: Req r) }\n",
		"idl/svc/shared.thrift":       "struct S { 1: optional i32 v }\n",
		"idl/svc_common/types.thrift": "struct T { 1: optional string v }\n"}})
	for _, pair := range [][2]string{{"api", "api_v2"}, {"api_v2", "api"}, {"x", "xy"}, {"a.b", "a"}} {
		out = append(out, cliLayout{"siblings-" + pair[0] + "-" + pair[1], "idl/" + pair[0] + "/sub/a.thrift", map[string]string{
			"idl/" + pair[0] + "/sub/a.thrift": "include \"../c.thrift\"\ninclude \"../../" + pair[1] + "/b.thrift\"\nstruct A { 1: optional b.B b; 2: optional c.C c }\nservice SA extends b.SB { void a() }\n",
			"idl/" + pair[0] + "/c.thrift":     "struct C { 1: optional i32 v }\n",
			"idl/" + pair[1] + "/b.thrift":     "struct B { 1: optional i32 v }\nservice SB { void b() }\n"}})
	}
	out = append(out, cliLayout{"three-includes-three-depths", "idl/p/q/a.thrift", map[string]string{
		"idl/p/q/a.thrift": "include \"./b.thrift\"\ninclude \"../c.thrift\"\ninclude \"../../pp/d.thrift\"\nstruct A { 1: optional b.B b; 2: optional c.C c; 3: optional d.D d }\n",
		"idl/p/q/b.thrift": "struct B { 1: optional i32 v }\n", "idl/p/c.thrift": "struct C { 1: optional i32 v }\n", "idl/pp/d.thrift": "struct D { 1: optional i32 v }\n"}})
	return out
}

func cliFamily(w *ev.W, scratch string) int {
	bin := w.Args["thriftrw"]
	if bin == "" {
		w.Note("CLI family skipped: no thriftrw binary")
		return 0
	}
	n := 0
	for li, lay := range cliLayouts() {
		for oi, extra := range [][]string{nil, {"--no-recurse"}} {
			if (li*2+oi)%w.Of != w.Shard {
				continue
			}
			if w.Expired() {
				w.Cap("time budget reached inside the CLI family")
				return n
			}
			n++
			w.Eval(1)
			w.Nontrivial(1)
			dir := filepath.Join(w.WorkDir, fmt.Sprintf("cli-%d-%d", li, oi))
			os.RemoveAll(dir)
			for p, text := range lay.files {
				full := filepath.Join(dir, "src", p)
				os.MkdirAll(filepath.Dir(full), 0o755)
				os.WriteFile(full, []byte(text), 0o644)
			}
			distinct := map[string][]int{}
			ex := &choice.Explorer{Bound: 1}
			ex.Body = func(c *choice.Ctx) {
				outDir := filepath.Join(dir, "out")
				os.RemoveAll(outDir)
				trace := filepath.Join(dir, "trace")
				os.Remove(trace)
				var pf []string
				for _, x := range c.Prefix() {
					pf = append(pf, fmt.Sprint(x))
				}
				args := append([]string{"--out", outDir, "--pkg-prefix", "x/y", "--no-version-check"}, extra...)
				args = append(args, filepath.Join(dir, "src", lay.root))
				cmd := exec.Command(bin, args...)
				cmd.Env = append(os.Environ(), "VERIF_VMAP_TRACE="+trace, "VERIF_VMAP_PREFIX="+strings.Join(pf, ","), "GOMAXPROCS=1")
				cmd.SysProcAttr = &syscall.SysProcAttr{Pdeathsig: syscall.SIGKILL}
				ob, err := cmd.CombinedOutput()
				tb, _ := os.ReadFile(trace)
				for _, l := range strings.Split(string(tb), "\n") {
					var k int
					var site string
					if strings.HasPrefix(l, "DIVERGED") {
						panic(choice.ErrReplay{Msg: "the command diverged from the recorded prefix: " + l})
					}
					if _, e := fmt.Sscanf(l, "%d %s", &k, &site); e == nil {
						c.Deviate(k, site)
					}
				}
				res := "OK"
				if err != nil {
					msg := strings.ReplaceAll(string(ob), dir, "<dir>")
					if len(msg) > 200 {
						msg = msg[:200]
					}
					res = "FAILED " + strings.TrimSpace(msg)
				}
				var lines []string
				filepath.Walk(outDir, func(path string, info os.FileInfo, err error) error {
					if err == nil && !info.IsDir() {
						b, _ := os.ReadFile(path)
						h := sha256.Sum256(b)
						rel, _ := filepath.Rel(outDir, path)
						lines = append(lines, rel+" "+hex.EncodeToString(h[:8]))
					}
					return nil
				})
				sort.Strings(lines)
				res += "\n" + strings.Join(lines, "\n")
				if _, ok := distinct[res]; !ok {
					distinct[res] = c.Vector()
				}
			}
			ex.Stop = w.Expired
			ex.Run()
			w.R.States += ex.Stats.States
			w.R.Transitions += ex.Stats.Transitions
			w.R.Traces += ex.Stats.Executions
			w.Count("cli_processes", ex.Stats.Executions)
			if ex.Stats.MaxDepth == 0 {
				w.Note("HARNESS: the CLI run of " + lay.name + " met no order choice (the binary was not built with the rewrite?)")
				w.Cap("CLI family met no choice point")
			}
			if len(distinct) > 1 {
				var descr []string
				for r, v := range distinct {
					descr = append(descr, fmt.Sprintf("[%.120s under choices %v]", strings.ReplaceAll(r, "\n", " "), v))
				}
				sort.Strings(descr)
				w.Violation("cli-nondeterministic:"+lay.name, fmt.Sprintf("thriftrw %v on layout %s (no --thrift-root): %d different results depending on map iteration order: %s", extra, lay.name, len(distinct), strings.Join(descr, " ")), map[string]interface{}{"layout": lay.name, "files": lay.files, "args": extra})
			} else {
				for r := range distinct {
					w.Outcome("cli:" + strings.SplitN(r, "\n", 2)[0][:2])
				}
			}
			os.RemoveAll(dir)
		}
	}
	return n
}
