// Package c20: thriftbreak flags exactly the documented breaking changes
// (DESIGN.md §3 C20). Built with the E3 map-range overlay on internal/compare
// and compile; the real thriftbreak binary is built from /repo's tree too.
package c20

import (
	"bytes"
	"encoding/json"
	"fmt"
	"os"
	"os/exec"
	"path/filepath"
	"regexp"
	"sort"
	"strings"
	"time"

	git "github.com/go-git/go-git/v5"
	"github.com/go-git/go-git/v5/plumbing/object"
	"go.uber.org/thriftrw/verifhook"
	"go.uber.org/thriftrw/verifshim/vmap"
	"verif/engine/choice"
	"verif/engine/ev"
	"verif/ref/breakref"
)

// Check is the registered check.
var Check = &ev.Check{
	ID:    "C20",
	Level: "exploration",
	Rule: "histories: 4 base programs (single file; root + included file in a subdirectory; two independent files, one two directories deep; two independent files sharing a base name in different directories) x every edit script of length<=2 over 19 edit kinds at every applicable position " +
		"(remove service/method, add required/optional field, remove a field, drop the last field and add a required one in one commit, optional<->required, change field type to i64 / list<i32> / a typedef of the old type, add method/service/struct/const+typedef+enum/file, delete unused struct, delete file, reorder fields/definitions), " +
		"each committed as HEAD~/HEAD of a scratch git repository. Each history is checked in-process through git.Compare under every map-iteration order (<=1 deviating range execution) in internal/compare and compile, and through the real thriftbreak binary in readable and JSON mode (single edits: under six spellings of the repository directory - absolute, trailing separator, dot segments, relative, '.', default) (quick: scripts of 2 edits are judged in-process under the default order only). " +
		"Oracle: the multiset of diagnostics reduced to (file, quoted names) equals ref/breakref's; exit status non-zero iff non-empty; identical across orders. Cases are distinct (base, script) pairs; non-trivial = scripts containing at least one breaking edit.",
	Prepare: prepare,
	Run:     run,
	Budget: func(t string) time.Duration {
		return map[string]time.Duration{"quick": 4 * time.Minute, "thorough": 25 * time.Minute}[t]
	},
	Assumptions: []string{
		"renames detected by go-git's similarity heuristic, merge commits and scripts longer than 2 edits are out of reach",
		"wording of diagnostics is ignored; only the file and the quoted identifiers are compared",
	},
}

func prepare(s *ev.S) error {
	bin := filepath.Join(s.WorkDir, "thriftbreak")
	cmd := exec.Command("go", "build", "-o", bin, "go.uber.org/thriftrw/cmd/thriftbreak")
	cmd.Dir = s.Verif
	cmd.Env = append(os.Environ(), "GOFLAGS=-mod=mod")
	if out, err := cmd.CombinedOutput(); err != nil {
		return fmt.Errorf("building thriftbreak: %v: %s", err, out)
	}
	s.Args["thriftbreak"] = bin
	return nil
}

var quoted = regexp.MustCompile(`"([^"]*)"`)

// reduce keeps the file and the quoted identifiers. For a type-change
// diagnostic (4 quoted names: field, struct, old type, new type) only the
// field and struct are identifiers of the program; how the two types are
// spelled (qualified or not) is wording, so they are replaced by a marker.
func reduce(file, msg string) breakref.Diag {
	var names []string
	for _, m := range quoted.FindAllStringSubmatch(msg, -1) {
		names = append(names, m[1])
	}
	if len(names) == 4 {
		names = []string{names[0], names[1], "<type-changed>"}
	}
	return breakref.Diag{File: file, Names: strings.Join(names, ",")}
}

func diagsKey(ds []breakref.Diag) string {
	ss := make([]string, len(ds))
	for i, d := range ds {
		ss[i] = d.String()
	}
	sort.Strings(ss)
	return strings.Join(ss, " ")
}

func makeRepo(dir string, from, to map[string]string) error {
	os.RemoveAll(dir)
	if err := os.MkdirAll(dir, 0o755); err != nil {
		return err
	}
	repo, err := git.PlainInit(dir, false)
	if err != nil {
		return err
	}
	wt, err := repo.Worktree()
	if err != nil {
		return err
	}
	write := func(files map[string]string) error {
		for name, content := range files {
			p := filepath.Join(dir, name)
			os.MkdirAll(filepath.Dir(p), 0o755)
			if err := os.WriteFile(p, []byte(content), 0o644); err != nil {
				return err
			}
		}
		return nil
	}
	sig := &object.Signature{Name: "v", Email: "v@example.com", When: time.Unix(1700000000, 0)}
	if err := write(from); err != nil {
		return err
	}
	if err := wt.AddWithOptions(&git.AddOptions{All: true}); err != nil {
		return err
	}
	if _, err := wt.Commit("base", &git.CommitOptions{Author: sig}); err != nil {
		return err
	}
	for name := range from {
		if _, ok := to[name]; !ok {
			os.Remove(filepath.Join(dir, name))
		}
	}
	if err := write(to); err != nil {
		return err
	}
	if err := wt.AddWithOptions(&git.AddOptions{All: true}); err != nil {
		return err
	}
	sig2 := &object.Signature{Name: "v", Email: "v@example.com", When: time.Unix(1700000100, 0)}
	_, err = wt.Commit("head", &git.CommitOptions{Author: sig2, AllowEmptyCommits: true})
	return err
}

type history struct {
	Base   int               `json:"base"`
	Script []string          `json:"script"`
	From   map[string]string `json:"from"`
	To     map[string]string `json:"to"`
}

func inProcess(dir string, c *choice.Ctx) (string, string) {
	vmap.Reset()
	if c != nil {
		vmap.Chooser = func(site string, n, nAlts int) int { return c.Deviate(nAlts, site) }
	}
	defer func() { vmap.Chooser = nil }()
	var res, errs string
	func() {
		defer func() {
			if r := recover(); r != nil {
				res, errs = "PANIC", fmt.Sprint(r)
			}
		}()
		pass, err := verifhook.GitCompare(dir)
		if err != nil {
			res, errs = "ERROR", err.Error()
			return
		}
		var ds []breakref.Diag
		for _, l := range pass.Lints() {
			ds = append(ds, reduce(l.FilePath, l.Message))
		}
		res = "OK " + diagsKey(ds)
	}()
	return res, errs
}

// onlyBasenameOfDeletedService reports whether got and want differ only in
// that deleted-service diagnostics (one quoted name) carry the base name of
// the file instead of its repository-relative path.
func onlyBasenameOfDeletedService(got, want string) bool {
	g, w := strings.Fields(strings.TrimPrefix(got, "OK ")), strings.Fields(strings.TrimPrefix(want, "OK "))
	if len(g) != len(w) {
		return false
	}
	norm := func(xs []string) []string {
		out := make([]string, len(xs))
		for i, x := range xs {
			j := strings.Index(x, ":[")
			if j >= 0 && !strings.Contains(x[j:], ",") {
				x = filepath.Base(x[:j]) + x[j:]
			}
			out[i] = x
		}
		sort.Strings(out)
		return out
	}
	a, b := norm(g), norm(w)
	for i := range a {
		if a[i] != b[i] {
			return false
		}
	}
	return true
}

func sigOf(script []string, class string) string {
	kinds := map[string]bool{}
	for _, s := range script {
		kinds[strings.SplitN(s, " ", 2)[0]] = true
	}
	var ks []string
	for k := range kinds {
		ks = append(ks, k)
	}
	sort.Strings(ks)
	return class + ":" + strings.Join(ks, "+")
}

func run(w *ev.W) {
	dir := filepath.Join(w.WorkDir, fmt.Sprintf("repo-%d", w.Shard))
	defer os.RemoveAll(dir)
	bin := w.Args["thriftbreak"]
	bases := breakref.Bases()
	stop := false
	one := func(bi int, from, to breakref.Prog, script []string, breaking bool) {
		light := w.Quick() && len(script) > 1 // quick: pairs of edits are judged in-process under the default order only
		if stop || !w.Own() {
			return
		}
		if w.Expired() {
			w.Cap("time budget reached before all edit scripts were run")
			stop = true
			return
		}
		w.Eval(1)
		if breaking {
			w.Nontrivial(1)
		}
		fr, tr := from.Render(), to.Render()
		h := history{Base: bi, Script: script, From: fr, To: tr}
		if err := makeRepo(dir, fr, tr); err != nil {
			w.Note("harness: could not build the scratch repository: " + err.Error())
			return
		}
		var wds []breakref.Diag
		for _, d := range breakref.Diff(from, to) {
			if n := strings.Split(d.Names, ","); len(n) >= 4 {
				d.Names = n[0] + "," + n[1] + ",<type-changed>"
			}
			wds = append(wds, d)
		}
		want := "OK " + diagsKey(wds)
		if w.WantSample() && w.Idx()%23 == 0 {
			w.Sample(map[string]interface{}{"base": bi, "script": script, "expected": want})
		}
		base, berr := inProcess(dir, nil)
		if base == "PANIC" {
			w.Violation(sigOf(script, "panic"), fmt.Sprintf("git.Compare panicked: %s; script %v", berr, script), h)
			return
		}
		if base == "ERROR" {
			// a history the tool cannot compile is outside the property
			w.Count("note_compare_returned_error", 1)
			w.Note(fmt.Sprintf("git.Compare returned an error (not judged) for script %v: %s", script, berr))
			return
		}
		if base != want {
			cls := "diagnostics"
			if onlyBasenameOfDeletedService(base, want) {
				cls = "deleted-service-attributed-to-basename"
			}
			sg := sigOf(script, cls)
			if cls != "diagnostics" {
				sg = cls // the class is already specific: the only difference is the base name on a deleted-service diagnostic
			}
			w.Violation(sg, fmt.Sprintf("base %d script %v: thriftbreak reports {%s}, the documented rules give {%s}", bi, script, strings.TrimPrefix(base, "OK "), strings.TrimPrefix(want, "OK ")), h)
			w.Outcome("mismatch")
		} else if want == "OK " {
			w.Outcome("agree-clean")
		} else {
			w.Outcome("agree-breaking")
		}
		if light {
			w.Count("light_runs(default order, no binary)", 1)
			w.Done()
			return
		}
		// the comparison is between the two COMMITS: whatever the working tree holds
		// (the old contents again, nothing, garbage), the report stays the same
		if len(script) <= 1 {
			dirty := func(name string, mutate func(path, rel string)) {
				for rel := range tr {
					mutate(filepath.Join(dir, rel), rel)
				}
				got, gerr := inProcess(dir, nil)
				w.Count("dirty_working_tree_runs", 1)
				if got != base {
					w.Violation(sigOf(script, "depends-on-working-tree:"+name), fmt.Sprintf("script %v: with the working tree %s git.Compare reports {%s} (%s) instead of {%s}", script, name, got, gerr, base), h)
				}
			}
			dirty("holding the previous commit's contents", func(path, rel string) {
				if old, ok := fr[rel]; ok {
					os.WriteFile(path, []byte(old), 0o644)
				} else {
					os.Remove(path)
				}
			})
			dirty("holding unparsable text", func(path, rel string) { os.WriteFile(path, []byte("struct {{{ not thrift"), 0o644) })
			dirty("without the files", func(path, rel string) { os.Remove(path) })
			// restore HEAD's contents for the runs that follow
			for rel, text := range tr {
				os.MkdirAll(filepath.Dir(filepath.Join(dir, rel)), 0o755)
				os.WriteFile(filepath.Join(dir, rel), []byte(text), 0o644)
			}
		}
		// all map orders
		distinct := map[string]bool{}
		ex := &choice.Explorer{Bound: 1}
		ex.Body = func(c *choice.Ctx) {
			r, _ := inProcess(dir, c)
			distinct[r] = true
		}
		ex.Run()
		w.R.States += ex.Stats.States
		w.R.Transitions += ex.Stats.Transitions
		w.R.Traces += ex.Stats.Executions
		w.Count("executions_with_nondefault_order", ex.Stats.NonDefault)
		if len(distinct) > 1 || !distinct[base] {
			var ks []string
			for k := range distinct {
				ks = append(ks, "{"+k+"}")
			}
			sort.Strings(ks)
			w.Violation(sigOf(script, "order-dependent"), fmt.Sprintf("script %v: reported set depends on map iteration order: %s", script, strings.Join(ks, " vs ")), h)
		}
		// the real binary, both output modes
		// ... and every spelling of the repository directory: absolute, with a trailing
		// separator, with dot segments, relative to the parent and "." from inside
		type spelling struct{ name, arg, cwd string }
		spellings := []spelling{{"abs", dir, ""}}
		if len(script) <= 1 {
			spellings = append(spellings, spelling{"trailing-slash", dir + "/", ""}, spelling{"dot-segments", filepath.Dir(dir) + "/./" + filepath.Base(dir) + "/../" + filepath.Base(dir), ""},
				spelling{"relative", "./" + filepath.Base(dir), filepath.Dir(dir)}, spelling{"dot", ".", dir}, spelling{"default-cwd", "", dir})
		}
		for mi, mode := range []string{"readable", "json", "readable", "json", "readable", "json", "readable", "json", "readable", "json", "readable", "json"} {
			sp := spellings[0]
			if mi >= 2 {
				if mi/2 >= len(spellings) {
					break
				}
				sp = spellings[mi/2]
				mode = mode + "[-C " + sp.name + "]"
			}
			var args []string
			if sp.arg != "" {
				args = []string{"-C", sp.arg}
			}
			if strings.HasPrefix(mode, "json") {
				args = append(args, "-json")
			}
			cmd := exec.Command(bin, args...)
			cmd.Dir = sp.cwd
			var stdout, stderr bytes.Buffer
			cmd.Stdout, cmd.Stderr = &stdout, &stderr
			err := cmd.Run()
			exit := 0
			if err != nil {
				exit = 1
				if ee, ok := err.(*exec.ExitError); ok {
					exit = ee.ExitCode()
				}
			}
			var ds []breakref.Diag
			for _, line := range strings.Split(strings.TrimSpace(stdout.String()), "\n") {
				if line == "" {
					continue
				}
				if strings.HasPrefix(mode, "json") {
					var d struct{ FilePath, Message string }
					if json.Unmarshal([]byte(line), &d) != nil {
						w.Violation(sigOf(script, "json-output"), fmt.Sprintf("unparseable JSON line %q", line), h)
						continue
					}
					ds = append(ds, reduce(d.FilePath, d.Message))
				} else {
					i := strings.Index(line, ":")
					if i < 0 {
						ds = append(ds, reduce("?", line))
						continue
					}
					ds = append(ds, reduce(line[:i], line[i+1:]))
				}
			}
			got := "OK " + diagsKey(ds)
			w.Count("binary_runs", 1)
			if got != base {
				w.Violation(sigOf(script, "binary-output-"+mode), fmt.Sprintf("script %v: the %s output of the binary {%s} differs from git.Compare {%s}", script, mode, got, base), h)
			}
			if (exit != 0) != (len(ds) > 0) {
				w.Violation(sigOf(script, "exit-status"), fmt.Sprintf("script %v (%s mode): exit status %d with %d diagnostics; stderr %q", script, mode, exit, len(ds), stderr.String()), h)
			}
		}
		w.Done()
	}
	for bi, b := range bases {
		one(bi, b, b, []string{"identity"}, false)
		for _, e1 := range breakref.Edits(b) {
			p1 := b.Clone()
			e1.Apply(&p1)
			one(bi, b, p1, []string{e1.Kind + " " + e1.Desc}, e1.Breaking)
			for _, e2 := range breakref.Edits(p1) {
				p2 := p1.Clone()
				e2.Apply(&p2)
				one(bi, b, p2, []string{e1.Kind + " " + e1.Desc, e2.Kind + " " + e2.Desc}, e1.Breaking || e2.Breaking)
			}
		}
	}
}
