// Package c06: valid programs are accepted; every accepted program yields Go
// that compiles (DESIGN.md §3 C06).
package c06

import (
	"bytes"
	"fmt"
	"go/token"
	"os"
	"os/exec"
	"path/filepath"
	"regexp"
	"sort"
	"strings"
	"time"
	"verif/bridge/memfs"
	"verif/checks/c07"
	"verif/ref/resolve"

	"go.uber.org/thriftrw/compile"
	"go.uber.org/thriftrw/gen"
	"verif/cells"
	"verif/engine/ev"
)

// Check is the registered check.
var Check = &ev.Check{
	ID:    "C06",
	Level: "exploration",
	Rule: "(s) every program of the systematic family of C07 (reference graphs of <=3 definitions over {typedef, struct, enum, const, service} in 7 include layouts) that the reference resolver deems valid: compiled and generated without error (no go build); (a) benign programs, valid by construction of the harness's own schema model with identity-mapped names: every file of the cell universe (every type expression over 20 leaves at depth<=1 plus depth-2 representatives as required/optional field, union member, and one struct per default-value class), " +
		"a mini program (struct of ten representative fields, enum, typedefs, a constant of each kind, services with inheritance across an include) under all 64 subsets of {NoRecurse, NoZap, NoEmbedIDL, EnumTextMarshalStrict, OutputFile, NoServiceHelpers}, and layout programs (nested directories, thrift root at each ancestor, diamond and sibling-directory includes). Oracle: compile+generate succeed and `go build` of the emitted tree succeeds. " +
		"(b) adversarial names: every name position (file/package, struct, field, enum, enum item, typedef, constant, service, function, argument, exception field, union member; 12) x every hostile identifier (Go keywords and predeclared names, initialisms, SCREAMING_CASE, leading/trailing/double underscores, names of generated methods and helper shapes, names of packages the templates import; ~85), " +
		"every pair of colliding spellings in one scope (foo_bar/fooBar/FooBar/FOO_BAR, x/get_x/is_set_x...) for fields, enum items, definitions and functions, and go.name/go.label/go.tag/go.type annotations from a menu incl. malformed ones. Oracle: never 'generated successfully but does not build'. " +
		"A case is one program (one generated package); cases are distinct by construction; non-trivial = every case.",
	Prepare: func(s *ev.S) error {
		bin := filepath.Join(s.WorkDir, "thriftrw")
		cmd := exec.Command("go", "build", "-o", bin, "go.uber.org/thriftrw")
		cmd.Dir = s.Verif
		cmd.Env = append(os.Environ(), "GOFLAGS=-mod=mod")
		if out, err := cmd.CombinedOutput(); err != nil {
			return fmt.Errorf("building thriftrw: %v: %s", err, out)
		}
		s.Args["thriftrw"] = bin
		return nil
	},
	Run: run,
	Budget: func(t string) time.Duration {
		return map[string]time.Duration{"quick": 5 * time.Minute, "thorough": 25 * time.Minute}[t]
	},
	CaseDeadline: 10 * time.Minute,
	CrashSig:     func(kind, desc, stderr string) (string, bool) { return "generator-" + kind, true },
	Assumptions: []string{
		"acceptance is demanded only of programs the harness's schema model knows to be valid with clash-free names; for adversarial programs only the direction 'accepted => builds' is judged",
		"`go vet` findings on generated code are recorded as notes, not verdicts",
		"non-ASCII identifiers and programs beyond the cell grammar are out of reach",
	},
}

type cell struct {
	Name  string            // unique; also the package directory
	Class string            // signature class
	Files map[string]string // relative path -> IDL
	Root  string            // file to compile
	Opts  func(o *gen.Options)
	// Benign: must be accepted and must build.
	Benign bool
	// ThriftRoot relative to the cell's thrift dir ("" = the dir itself)
	ThriftRoot string
	// CLI: generate through the real thriftrw command WITHOUT --thrift-root (the
	// command infers the root as the common ancestor of all files involved)
	CLI bool
}

var hostile = []string{
	"break", "default", "func", "interface", "select", "case", "defer", "go", "map", "struct", "chan", "else", "goto", "package", "switch",
	"const", "fallthrough", "if", "range", "type", "continue", "for", "import", "return", "var", "error",
	"string", "int", "nil", "true", "bool", "len", "append", "new", "make", "byte",
	"id", "http_url", "Url", "api_key", "SCREAMING_CASE", "_leading", "trailing_", "double__underscore", "a_1", "A",
	"ToWire", "FromWire", "Encode", "Decode", "String", "Equals", "Error", "ErrorName", "Ptr", "MethodName", "EnvelopeType", "MarshalLogObject", "MarshalJSON", "UnmarshalText",
	"Default_X", "GetX", "IsSetX", "get_x", "is_set_x", "x_ptr", "Values",
	"wire", "stream", "fmt", "errors", "strings", "bytes", "json", "math", "strconv", "base64", "zapcore", "multierr", "ptr", "thriftreflect", "binary", "v", "w", "sw", "sr", "err", "i", "o", "x",
}

// mustAccept: hostile names that are nevertheless fine once mapped to Go
// (goCase capitalises definition/field names, so Go keywords and predeclared
// identifiers cannot clash there; as a package name only keywords are
// illegal). Names of generated methods, helper shapes and underscore oddities
// are left to the one-directional oracle.
func mustAccept(class, h string) bool {
	keyword := token.IsKeyword(h)
	plain := map[string]bool{"error": true, "string": true, "int": true, "nil": true, "true": true, "bool": true, "len": true, "append": true, "new": true, "make": true, "byte": true,
		"id": true, "http_url": true, "Url": true, "api_key": true, "SCREAMING_CASE": true, "a_1": true, "A": true,
		"wire": true, "stream": true, "fmt": true, "errors": true, "strings": true, "bytes": true, "json": true, "math": true, "strconv": true, "base64": true, "zapcore": true, "multierr": true, "ptr": true, "thriftreflect": true, "binary": true}
	if class == "name:exception-field" && h == "error" {
		return false // clashes with the Error() method of the generated exception: rejection is right
	}
	switch class {
	case "name:file", "name:included-file":
		return plain[h] && !keyword && h != "A" && h != "Url" && h != "SCREAMING_CASE" // lower-case file names only
	case "name:struct", "name:field", "name:field-required-container", "name:enum", "name:typedef", "name:const", "name:service", "name:function", "name:argument", "name:union-member", "name:exception-field":
		return plain[h] || keyword
	}
	return false
}

func adversarial(quick bool) []cell {
	var out []cell
	add := func(class, name, idl string) {
		out = append(out, cell{Name: fmt.Sprintf("adv%d", len(out)), Class: class + ":" + strings.ReplaceAll(name, " ", ""), Files: map[string]string{"t.thrift": idl}, Root: "t.thrift", Benign: mustAccept(class, name)})
	}
	for _, h := range hostile {
		add("name:struct", h, fmt.Sprintf("struct %s { 1: optional i32 a }\nstruct Q { 1: optional %s f; 2: optional list<%s> g }", h, h, h))
		add("name:field", h, fmt.Sprintf("struct S { 1: optional i32 %s; 2: required string other }", h))
		add("name:field-required-container", h, fmt.Sprintf("struct S { 1: required list<string> %s; 2: optional map<string, i32> other }", h))
		add("name:enum", h, fmt.Sprintf("enum %s { A, B }\nstruct S { 1: optional %s e }", h, h))
		add("name:enum-item", h, fmt.Sprintf("enum E { %s, Other }\nconst E c = E.%s", h, h))
		add("name:typedef", h, fmt.Sprintf("typedef i64 %s\ntypedef list<string> L%s\nstruct S { 1: optional %s t; 2: required %s u }", h, "x", h, h))
		add("name:const", h, fmt.Sprintf("const i32 %s = 1\nconst list<string> Other = [\"a\"]", h))
		add("name:service", h, fmt.Sprintf("service %s { void f() }", h))
		add("name:function", h, fmt.Sprintf("service S { i32 %s(1: i32 a) }", h))
		add("name:argument", h, fmt.Sprintf("service S { string f(1: i32 %s, 2: string other) }", h))
		add("name:exception-field", h, fmt.Sprintf("exception X { 1: optional string %s }\nservice S { void f() throws (1: X %s) }", h, h))
		add("name:union-member", h, fmt.Sprintf("union U { 1: i32 %s; 2: string other }", h))
		out = append(out, cell{Name: fmt.Sprintf("adv%d", len(out)), Class: "name:file:" + h, Root: h + ".thrift", Benign: mustAccept("name:file", h),
			Files: map[string]string{h + ".thrift": "struct S { 1: optional i32 a }\nenum E { A }\nconst i32 c = 1\nservice V { void f() }"}})
		out = append(out, cell{Name: fmt.Sprintf("adv%d", len(out)), Class: "name:included-file:" + h, Root: "t.thrift", Benign: mustAccept("name:included-file", h),
			Files: map[string]string{h + ".thrift": "struct S { 1: optional i32 a }\nenum E { A }", "t.thrift": fmt.Sprintf("include \"./%s.thrift\"\nstruct T { 1: optional %s.S s; 2: optional list<%s.E> es }", h, h, h)}})
		// the same include used in every other position: default, constant, typedef, map, required field, service signature
		out = append(out, cell{Name: fmt.Sprintf("adv%d", len(out)), Class: "name:included-file-rich:" + h, Root: "t.thrift",
			Files: map[string]string{h + ".thrift": "struct S { 1: optional i32 a }\nenum E { A }\nexception X { 1: optional string m }\nconst i32 K = 5\n",
				"t.thrift": strings.ReplaceAll("include \"./@.thrift\"\nstruct T { 1: optional @.E e = @.E.A; 2: optional map<string, @.S> m; 3: required @.S r; 4: optional i32 k = @.K; 5: optional set<@.E> es }\n"+
					"const @.S C = {\"a\": 1}\nconst list<@.E> L = [@.E.A]\ntypedef @.S TS\nunion U { 1: @.S s; 2: @.E e }\nservice Sv { @.S f(1: @.S a, 2: list<@.E> b) throws (1: @.X x) }\n"+
					"enum LocalE { LA, LB }\nexception LocalX { 1: optional string m; 2: optional LocalE e }\n", "@", h)}})
	}
	// colliding spellings in one scope
	groups := [][]string{{"foo_bar", "fooBar", "FooBar", "FOO_BAR", "Foo_Bar"}, {"x", "X", "get_x", "GetX", "is_set_x", "IsSetX"}, {"id", "ID", "Id", "iD"}, {"a_b", "a__b", "aB"}, {"url_id", "urlId", "URLID", "UrlID"}}
	for _, g := range groups {
		for i := 0; i < len(g); i++ {
			for j := i + 1; j < len(g); j++ {
				a, b := g[i], g[j]
				add("collide:fields", a+"/"+b, fmt.Sprintf("struct S { 1: optional i32 %s; 2: optional i32 %s }", a, b))
				add("collide:enum-items", a+"/"+b, fmt.Sprintf("enum E { %s, %s }", a, b))
				add("collide:definitions", a+"/"+b, fmt.Sprintf("struct %s { 1: optional i32 a }\nenum %s { A }", a, b))
				add("collide:struct-const", a+"/"+b, fmt.Sprintf("struct %s { 1: optional i32 a }\nconst i32 %s = 1", a, b))
				add("collide:functions", a+"/"+b, fmt.Sprintf("service S { void %s(), void %s() }", a, b))
				add("collide:arguments", a+"/"+b, fmt.Sprintf("service S { void f(1: i32 %s, 2: i32 %s) }", a, b))
				add("collide:services", a+"/"+b, fmt.Sprintf("service %s { void f() }\nservice %s { void f() }", a, b))
				add("collide:enum-item-vs-enum", a+"/"+b, fmt.Sprintf("enum E { %s }\nstruct E%s { 1: optional i32 a }", a, b))
			}
		}
	}
	// an include whose name collides with a definition of the including file
	for _, inc := range []string{"Foo", "foo", "FOO"} {
		for _, dn := range []string{"Foo", "foo", "FOO"} {
			for _, kind := range []string{"struct %s { 1: optional i32 a }", "enum %s { A }", "const i32 %s = 1", "service %s { void f() }", "typedef i32 %s"} {
				out = append(out, cell{Name: fmt.Sprintf("adv%d", len(out)), Class: "collide:include-vs-definition:" + inc + "/" + dn, Root: "t.thrift",
					Files: map[string]string{inc + ".thrift": "struct Inner { 1: optional i32 v }\n", "t.thrift": fmt.Sprintf("include \"./%s.thrift\"\n"+kind+"\nstruct Uses { 1: optional %s.Inner i }\n", inc, dn, inc)}})
			}
		}
	}
	// generated helper names colliding with user types
	for _, n := range []string{"S_F_Args", "S_F_Result", "S_F_Helper", "_List_I32_ValueList", "Default_S", "E_Values", "SClient", "ThriftModule", "S_f_Args"} {
		add("collide:helper", n, fmt.Sprintf("struct %s { 1: optional i32 a }\nstruct S { 1: optional list<i32> l }\nenum E { A }\nservice S2 { void F(1: i32 a) }\nservice SS { void f() }", n))
	}
	// a user type whose Go name is the helper-name spelling of a base type, used in the same containers as that base type
	for _, bt := range [][2]string{{"String", "string"}, {"Binary", "binary"}, {"I32", "i32"}, {"I64", "i64"}, {"Bool", "bool"}, {"Double", "double"}, {"I8", "i8"}, {"Byte", "byte"}, {"I16", "i16"}} {
		n, b := bt[0], bt[1]
		add("collide:basetype-name", n, fmt.Sprintf("struct %s { 1: optional i32 a }\nstruct S { 1: optional list<%s> a; 2: optional list<%s> b; 3: optional map<string, %s> c; 4: optional map<string, %s> d }", n, n, b, n, b))
		add("collide:basetype-name-enum", n, fmt.Sprintf("enum %s { A }\nstruct S { 1: optional list<%s> a; 2: optional list<%s> b; 3: optional set<%s> c; 4: optional set<%s> d }", n, n, b, n, b))
		add("collide:basetype-name-typedef", n, fmt.Sprintf("typedef i64 %s\nstruct S { 1: optional list<%s> a; 2: optional list<%s> b }", n, n, b))
	}
	// annotations
	for _, an := range []string{`go.name = "Renamed"`, `go.name = "renamed"`, `go.name = "Re_named"`, `go.name = "Other"`, `go.name = ""`, `go.name = "type"`, `go.name = "ToWire"`,
		`go.label = "lbl"`, `go.label = ""`, `go.label = "with space"`, `go.tag = "json:\"x\""`, `go.tag = "bad tag"`, `go.tag = "json:\"a\" json:\"b\""`, `go.tag = "json:\"-\""`, `go.redact`, `go.nolog`} {
		add("annotation:field", an, fmt.Sprintf("struct S { 1: optional i32 a (%s); 2: optional i32 Other }", an))
		if strings.HasPrefix(an, "go.name") {
			add("annotation:struct", an, fmt.Sprintf("struct S { 1: optional i32 a } (%s)\nstruct Other { 1: optional S s }", an))
			add("annotation:enum-item", an, fmt.Sprintf("enum E { A (%s), Other }", an))
			add("annotation:enum", an, fmt.Sprintf("enum E { A } (%s)\nstruct Other { 1: optional E e }", an))
			add("annotation:typedef", an, fmt.Sprintf("typedef i32 T (%s)\nstruct Other { 1: optional T t }", an))
			add("annotation:service", an, fmt.Sprintf("service V { void f() } (%s)", an))
		}
	}
	for _, an := range []string{`go.type = "slice"`, `go.type = "map"`, `go.type = "bogus"`, `go.type = ""`} {
		add("annotation:set", an, fmt.Sprintf("struct S { 1: optional set<string> (%s) a; 2: required set<binary> (%s) b }\ntypedef set<i32> (%s) T", an, an, an))
		add("annotation:list", an, fmt.Sprintf("struct S { 1: optional list<string> (%s) a }", an))
	}
	// (both tiers run every cell: sampling the hostile-name cells made the quick verdict
	// depend on which third happened to be chosen)
	_ = quick
	return out
}

const miniIDL = `include "./inc.thrift"
enum E { A = 1, B, C }
typedef list<inc.P> Ps
typedef E TE
struct M {
  1: required i32 a
  2: optional string b = "d"
  3: optional list<string> c
  4: required set<i64> d
  5: optional map<string, inc.P> e
  6: optional inc.P f
  7: optional TE g = E.B
  8: optional binary h
  9: optional double i = 1.5
  10: optional Ps j
}
union MU { 1: M m; 2: string s }
exception MX { 1: optional string msg }
const i32 CI = 1
const string CS = "s"
const list<i32> CL = [1, 2]
const map<string, i32> CM = {"a": 1}
const M CSTRUCT = {"a": 1, "d": [1]}
const E CE = E.C
service Base2 extends inc.Base { M get(1: M m) throws (1: MX x) }
service Leaf extends Base2 { oneway void fire(1: i32 a), void nothing() }
`

const incIDL = `struct P { 1: required i32 x; 2: optional string y }
service Base { P ping(1: P p) }
`

func benign(quick bool) []cell {
	var out []cell
	// the universe, one cell per file (each generated alone with NoRecurse, plus base)
	p, _ := cells.Universe(false)
	rendered := p.Render()
	for _, f := range p.Files {
		if f.Path == "base.thrift" {
			continue
		}
		out = append(out, cell{Name: "u_" + strings.TrimSuffix(f.Path, ".thrift"), Class: "universe", Benign: true, Root: f.Path,
			Files: map[string]string{f.Path: rendered[f.Path], "base.thrift": rendered["base.thrift"]}})
	}
	// option lattice on the mini program
	type optn struct {
		name string
		set  func(o *gen.Options)
	}
	opts := []optn{
		{"NoRecurse", func(o *gen.Options) { o.NoRecurse = true }},
		{"NoZap", func(o *gen.Options) { o.NoZap = true }},
		{"NoEmbedIDL", func(o *gen.Options) { o.NoEmbedIDL = true }},
		{"EnumTextMarshalStrict", func(o *gen.Options) { o.EnumTextMarshalStrict = true }},
		{"OutputFile", func(o *gen.Options) { o.OutputFile = "out.go" }},
		{"NoServiceHelpers", func(o *gen.Options) { o.NoServiceHelpers = true }},
	}
	for mask := 0; mask < 1<<len(opts); mask++ {
		mask := mask
		var names []string
		for i, o := range opts {
			if mask&(1<<i) != 0 {
				names = append(names, o.name)
			}
		}
		if mask&1 != 0 || mask&16 != 0 {
			// NoRecurse / OutputFile generate only the root package, whose imports
			// (inc) would be missing from the tree: generate inc separately is what a
			// user does; here the lattice keeps to the combinations that emit the whole tree,
			// and runs NoRecurse/OutputFile on a self-contained variant below.
			continue
		}
		out = append(out, cell{Name: fmt.Sprintf("opt%d", mask), Class: "options:" + strings.Join(names, "+"), Benign: true, Root: "mini.thrift",
			Files: map[string]string{"mini.thrift": miniIDL, "inc.thrift": incIDL},
			Opts: func(o *gen.Options) {
				for i, x := range opts {
					if mask&(1<<i) != 0 {
						x.set(o)
					}
				}
			}})
	}
	self := strings.NewReplacer("include \"./inc.thrift\"\n", incIDL, "inc.", "").Replace(miniIDL)
	for mask := 0; mask < 1<<len(opts); mask++ {
		mask := mask
		if mask&1 == 0 && mask&16 == 0 {
			continue
		}
		var names []string
		for i, o := range opts {
			if mask&(1<<i) != 0 {
				names = append(names, o.name)
			}
		}
		out = append(out, cell{Name: fmt.Sprintf("opts%d", mask), Class: "options:" + strings.Join(names, "+"), Benign: true, Root: "mini.thrift",
			Files: map[string]string{"mini.thrift": self},
			Opts: func(o *gen.Options) {
				for i, x := range opts {
					if mask&(1<<i) != 0 {
						x.set(o)
					}
				}
			}})
	}
	// constants referenced by name: every naming style x type x referencing site, same file and across an include
	styles := []string{"lower", "Upper", "ALLCAPS", "SCREAMING_SNAKE", "camelCase", "with_underscore", "X"}
	types := []struct{ name, typ, val string }{
		{"i32", "i32", "7"}, {"string", "string", "\"s\""}, {"enum", "Color", "Color.RED"}, {"typedef-i64", "Millis", "100"}, {"typedef-enum", "Hue", "Color.BLUE"},
		{"list", "list<i32>", "[1, 2]"}, {"struct", "Pt", "{\"x\": 1}"}, {"double", "double", "1.5"}, {"bool", "bool", "true"},
	}
	prelude := "enum Color { RED = 1, BLUE = 2 }\ntypedef i64 Millis\ntypedef Color Hue\nstruct Pt { 1: optional i32 x }\n"
	n := 0
	for _, st := range styles {
		for _, ty := range types {
			n++
			same := prelude + fmt.Sprintf("const %s %s = %s\nconst %s Second = %s\nstruct Holder { 1: optional %s f = %s }\nconst list<%s> Many = [%s, %s]\nservice Svc { void call(1: %s a = %s) }\n",
				ty.typ, st, ty.val, ty.typ, st, ty.typ, st, ty.typ, st, st, ty.typ, st)
			out = append(out, cell{Name: fmt.Sprintf("cref%d", n), Class: "constref:" + st + ":" + ty.name, Benign: true, Root: "t.thrift", Files: map[string]string{"t.thrift": same}})
			q := func(t string) string {
				switch t {
				case "Color", "Millis", "Hue", "Pt":
					return "defs." + t
				}
				return t
			}
			cross := fmt.Sprintf("include \"./defs.thrift\"\nconst %s Second = defs.%s\nstruct Holder { 1: optional %s f = defs.%s }\nservice Svc { void call(1: %s a = defs.%s) }\n", q(ty.typ), st, q(ty.typ), st, q(ty.typ), st)
			if ty.name == "list" {
				cross = fmt.Sprintf("include \"./defs.thrift\"\nconst list<i32> Second = defs.%s\nstruct Holder { 1: optional list<i32> f = defs.%s }\n", st, st)
			}
			out = append(out, cell{Name: fmt.Sprintf("crefx%d", n), Class: "constref-cross:" + st + ":" + ty.name, Benign: true, Root: "t.thrift",
				Files: map[string]string{"t.thrift": cross, "defs.thrift": prelude + fmt.Sprintf("const %s %s = %s\n", ty.typ, st, ty.val)}})
		}
	}
	// an enum item where a plain integer is expected (the compiler accepts it; the generated
	// Go has to convert the typed enum constant): constant, list element, map key and value,
	// field default and argument default, same file and across an include
	for _, it := range []string{"i8", "i16", "i32", "i64"} {
		body := fmt.Sprintf("const %s X = St.NotFound\nconst list<%s> L = [St.Ok, 3]\nconst map<%s, %s> M = {St.Ok: St.NotFound}\nstruct H { 1: optional %s f = St.Ok; 2: required %s g = St.NotFound }\nservice Sv { void c(1: %s a = St.NotFound) }\n", it, it, it, it, it, it, it)
		enum := "enum St { Ok = 0, NotFound = 44 }\n"
		out = append(out, cell{Name: "enumint_" + it, Class: "enum-item-as-integer:" + it, Benign: true, Root: "t.thrift", Files: map[string]string{"t.thrift": enum + body}})
		out = append(out, cell{Name: "enumintx_" + it, Class: "enum-item-as-integer-cross:" + it, Benign: true, Root: "t.thrift",
			Files: map[string]string{"t.thrift": "include \"./codes.thrift\"\n" + strings.ReplaceAll(body, "St.", "codes.St."), "codes.thrift": enum}})
	}
	// ... and the same through a constant: an integer constant whose value is an enum item (or
	// a constant of the enum type) referenced wherever an integer of any width is expected
	for _, it := range []string{"i8", "i16", "i32", "i64"} {
		for _, via := range []string{"i32", "i64", "St", "TI"} {
			body := fmt.Sprintf("typedef i32 TI\nconst %s V = St.NotFound\nconst %s X = V\nconst list<%s> L = [V, 3]\nconst map<%s, %s> M = {V: V}\nstruct H { 1: optional %s f = V; 2: required %s g = V }\nservice Sv { void c(1: %s a = V) }\n", via, it, it, it, it, it, it, it)
			enum := "enum St { Ok = 0, NotFound = 44 }\n"
			out = append(out, cell{Name: "enumvia_" + it + "_" + strings.ToLower(via), Class: "enum-item-through-constant:" + it, Benign: true, Root: "t.thrift", Files: map[string]string{"t.thrift": enum + body}})
		}
	}
	// enums: duplicate values in every position, negative and explicit/implicit mixes
	for i, e := range []string{"A = 0, B = 0, C = 1", "A = 1, B = 1", "A, B = 0, C", "A = -1, B, C = 0, D = 0, E", "A = 5, B = 5, C = 5, D", "A = 2147483647, B = -2147483648, C = 2147483647, D = 0"} {
		out = append(out, cell{Name: fmt.Sprintf("enumdup%d", i), Class: "enum-duplicate-values", Benign: true, Root: "t.thrift",
			Files: map[string]string{"t.thrift": "enum E { " + e + " }\nstruct S { 1: optional E e; 2: optional list<E> es; 3: optional map<E, string> m }\nconst E CE = E.A\n"}})
	}
	// layouts
	lay := func(name string, files map[string]string, root, thriftRoot string) {
		out = append(out, cell{Name: "lay_" + name, Class: "layout:" + name, Benign: true, Files: files, Root: root, ThriftRoot: thriftRoot})
	}
	lay("nested", map[string]string{"a/b/c.thrift": "include \"../../d/e.thrift\"\nstruct C { 1: optional e.E x }\nservice CS extends e.ES { void c() }", "d/e.thrift": "struct E { 1: optional i32 v }\nservice ES { void e() }"}, "a/b/c.thrift", "")
	lay("root-at-parent", map[string]string{"x/y/z.thrift": "include \"./other.thrift\"\nstruct Z { 1: optional other.W w }", "x/y/other.thrift": "struct W { 1: optional i32 v }"}, "x/y/z.thrift", "x")
	lay("diamond", map[string]string{"top.thrift": "include \"./l.thrift\"\ninclude \"./r.thrift\"\nstruct T { 1: optional l.L a; 2: optional r.R b }",
		"l.thrift": "include \"./s.thrift\"\nstruct L { 1: optional s.S s }", "r.thrift": "include \"./s.thrift\"\nstruct R { 1: optional list<s.S> s }", "s.thrift": "struct S { 1: optional i32 v }"}, "top.thrift", "")
	lay("sibling-dirs", map[string]string{"p/q.thrift": "include \"../r/s.thrift\"\ntypedef s.T QT\nconst s.T QC = {\"v\": 1}", "r/s.thrift": "struct T { 1: optional i32 v }"}, "p/q.thrift", "")
	// the same kind of layouts through the command line without --thrift-root: the root is
	// inferred; sibling directories whose names share a prefix, deeper and shallower includes
	cli := func(name string, files map[string]string, root string) {
		out = append(out, cell{Name: "cli_" + name, Class: "cli-layout:" + name, Benign: true, Files: files, Root: root, CLI: true})
	}
	cli("single", map[string]string{"idl/a.thrift": "struct A { 1: optional i32 v }"}, "idl/a.thrift")
	cli("sibling-dirs", map[string]string{"idl/api/a.thrift": "include \"../common/b.thrift\"\nstruct A { 1: optional b.B b }", "idl/common/b.thrift": "struct B { 1: optional i32 v }"}, "idl/api/a.thrift")
	for _, pair := range [][2]string{{"api", "api_v2"}, {"api_v2", "api"}, {"common", "common2"}, {"x", "xy"}, {"a.b", "a"}} {
		cli("sibling-prefix-"+pair[0]+"-"+pair[1], map[string]string{"idl/" + pair[0] + "/a.thrift": "include \"../" + pair[1] + "/b.thrift\"\nstruct A { 1: optional b.B b }\nservice SA extends b.SB { void a() }",
			"idl/" + pair[1] + "/b.thrift": "struct B { 1: optional i32 v }\nservice SB { void b() }"}, "idl/"+pair[0]+"/a.thrift")
	}
	cli("include-above", map[string]string{"idl/deep/er/a.thrift": "include \"../../top.thrift\"\nstruct A { 1: optional top.T t }", "idl/top.thrift": "struct T { 1: optional i32 v }"}, "idl/deep/er/a.thrift")
	cli("include-below", map[string]string{"idl/a.thrift": "include \"./sub/dir/b.thrift\"\nstruct A { 1: optional b.B b }", "idl/sub/dir/b.thrift": "struct B { 1: optional i32 v }"}, "idl/a.thrift")
	cli("three-dirs", map[string]string{"idl/p/a.thrift": "include \"../q/b.thrift\"\ninclude \"../qq/c.thrift\"\nstruct A { 1: optional b.B b; 2: optional c.C c }", "idl/q/b.thrift": "include \"../qq/c.thrift\"\nstruct B { 1: optional c.C c }", "idl/qq/c.thrift": "struct C { 1: optional i32 v }"}, "idl/p/a.thrift")
	// inheritance and type use along include chains the root does not include directly
	lay("service-chain-3", map[string]string{"api/users.thrift": "include \"../base/meta.thrift\"\nservice Users extends meta.Meta { void u() }",
		"base/meta.thrift": "include \"./core/health.thrift\"\nservice Meta extends health.Health { void m() }", "base/core/health.thrift": "service Health { void h() }"}, "api/users.thrift", "")
	lay("service-chain-4", map[string]string{"a.thrift": "include \"./b.thrift\"\nservice A extends b.B { void a() }", "b.thrift": "include \"./c.thrift\"\nservice B extends c.C { void b() }",
		"c.thrift": "include \"./d.thrift\"\nservice C extends d.D { void c() }\nstruct CS { 1: optional d.DS d }", "d.thrift": "service D { void d() }\nstruct DS { 1: optional i32 v }"}, "a.thrift", "")
	lay("service-chain-3-two-children", map[string]string{"a.thrift": "include \"./b.thrift\"\nservice A1 extends b.B { void a() }\nservice A2 extends A1 { void a2() }\nservice A3 extends b.B2 { void a3() }",
		"b.thrift": "include \"./c.thrift\"\nservice B extends c.C { void b() }\nservice B2 extends B { void b2() }", "c.thrift": "service C { void c() }"}, "a.thrift", "")
	lay("type-chain-3", map[string]string{"a.thrift": "include \"./b.thrift\"\nstruct A { 1: optional b.B b; 2: optional b.TB t }", "b.thrift": "include \"./c.thrift\"\nstruct B { 1: optional c.C c }\ntypedef c.C TB\nconst c.C KB = {\"v\": 1}",
		"c.thrift": "struct C { 1: optional i32 v }"}, "a.thrift", "")
	// two spellings of one name in a file, kept apart with go.name, both used in every container position
	for i, pair := range [][2]string{{"UserInfo", "user_info"}, {"fooBar", "foo_bar"}, {"HTTPServer", "http_server"}, {"Id", "ID"}} {
		for k, kind := range []string{"struct %s { 1: optional i32 a }%s", "enum %s { A }%s", "typedef i64 %s%s"} {
			a, b := pair[0], pair[1]
			defs := fmt.Sprintf(kind+"\n"+kind+"\n", a, "", b, " (go.name = \"Second"+strings.ReplaceAll(a, "_", "")+"\")")
			uses := fmt.Sprintf("struct Uses { 1: optional %s a; 2: optional %s b; 3: optional list<%s> la; 4: optional list<%s> lb; 5: optional map<string, %s> ma; 6: optional map<string, %s> mb; 7: optional set<%s> (go.type = \"slice\") sa; 8: optional set<%s> (go.type = \"slice\") sb }\n", a, b, a, b, a, b, a, b)
			out = append(out, cell{Name: fmt.Sprintf("goname%d_%d", i, k), Class: "goname-disambiguated:" + a + "/" + b, Benign: true, Root: "t.thrift", Files: map[string]string{"t.thrift": defs + uses}})
		}
	}
	// one type name defined in k different included files (and, optionally, in the root
	// itself), every one of them used in every container position of one file: the helper
	// names derived from the type name have to be kept apart k ways, not two
	for _, name := range []string{"Item", "String"} {
		for _, kind := range []string{"struct", "enum", "typedef", "mixed"} {
			for k := 2; k <= 5; k++ {
				for _, rootHas := range []bool{false, true} {
					files := map[string]string{}
					var root, uses strings.Builder
					def := func(kd string) string {
						switch kd {
						case "struct":
							return "struct " + name + " { 1: optional i32 a }\n"
						case "enum":
							return "enum " + name + " { A, B }\n"
						}
						return "typedef i64 " + name + "\n"
					}
					kindOf := func(i int) string {
						if kind == "mixed" {
							return []string{"struct", "enum", "typedef"}[i%3]
						}
						return kind
					}
					id := 1
					use := func(ref string) {
						fmt.Fprintf(&uses, "  %d: optional %s f%d; %d: optional list<%s> f%d; %d: optional map<string, %s> f%d; %d: optional set<%s> (go.type = \"slice\") f%d\n", id, ref, id, id+1, ref, id+1, id+2, ref, id+2, id+3, ref, id+3)
						id += 4
					}
					for i := 1; i <= k; i++ {
						fn := fmt.Sprintf("m%d", i)
						files[fn+".thrift"] = def(kindOf(i))
						fmt.Fprintf(&root, "include \"./%s.thrift\"\n", fn)
						use(fn + "." + name)
					}
					if rootHas {
						root.WriteString(def(kindOf(0)))
						use(name)
					}
					files["t.thrift"] = root.String() + "struct Uses {\n" + uses.String() + "}\n"
					out = append(out, cell{Name: fmt.Sprintf("samename_%s_%s_%d_%v", strings.ToLower(name), kind, k, rootHas), Class: "same-name-from-k-includes:" + kind, Benign: true, Root: "t.thrift", Files: files})
				}
			}
		}
	}
	out = append(out, cell{Name: "lay_cyclic_includes", Class: "layout:cyclic-includes", Benign: false, Root: "a.thrift",
		Files: map[string]string{"a.thrift": "include \"./b.thrift\"\nstruct A { 1: optional b.B b }", "b.thrift": "include \"./a.thrift\"\nstruct B { 1: optional i32 v }"}})
	return out
}

var pkgErrRE = regexp.MustCompile(`(?m)^(?:# |package |\s+imports )c06mod/([^/\s]+)/`)

// systematic: every program of C07's systematic family (reference graphs of <=3
// definitions, 7 include layouts) that the reference resolver deems
// valid must be accepted by the compiler and the generator (no go build here: the cells
// above cover the shapes of generated code). C07 itself only judges programs that compile.
func systematic(w *ev.W) {
	out, err := os.MkdirTemp(w.WorkDir, "c06sys")
	if err != nil {
		return
	}
	defer os.RemoveAll(out)
	n := 0
	c07.Enumerate(w.Quick(), func(rp resolve.Prog, layout string) {
		if !w.Own() {
			return
		}
		if !rp.Resolve().Valid {
			return
		}
		n++
		if n&255 == 0 && w.Expired() {
			w.Cap("time budget reached inside the systematic acceptance family")
		}
		if len(w.R.Caps) > 0 {
			return
		}
		w.Eval(1)
		w.Nontrivial(1)
		w.Count("systematic_valid_programs", 1)
		files := rp.Render()
		var gerr error
		func() {
			defer func() {
				if r := recover(); r != nil {
					gerr = fmt.Errorf("PANIC %v", r)
				}
			}()
			m, err := compile.Compile(resolve.Path(0), compile.Filesystem(memfs.FS(files)))
			if err != nil {
				gerr = err
				return
			}
			gerr = gen.Generate(m, &gen.Options{OutputDir: out, PackagePrefix: "c06sys", ThriftRoot: "/m", NoVersionCheck: true})
		}()
		if gerr != nil {
			cls := sysErrRE.ReplaceAllString(gerr.Error(), "_")
			if i := strings.LastIndex(cls, ": "); i >= 0 {
				cls = cls[i+2:]
			}
			if len(cls) > 60 {
				cls = cls[:60]
			}
			w.Violation("rejected-valid:systematic:"+cls, fmt.Sprintf("a valid program (layout %s) was rejected: %.300s; files %v", layout, gerr.Error(), files), files)
		} else {
			w.Outcome("systematic:accepted")
		}
		w.Done()
		if n%500 == 0 {
			os.RemoveAll(out)
		}
	})
}

var sysErrRE = regexp.MustCompile(`"[^"]*"|0x[0-9a-f]+|\{[^}]*\}|\d+`)

func run(w *ev.W) {
	systematic(w)
	all := append(benign(w.Quick()), adversarial(w.Quick())...)
	// this worker's share
	var mine []cell
	for _, c := range all {
		if w.Own() {
			mine = append(mine, c)
		}
	}
	root, err := os.MkdirTemp(w.WorkDir, "c06")
	if err != nil {
		w.Note(err.Error())
		return
	}
	defer os.RemoveAll(root)
	mod := filepath.Join(root, "mod")
	os.MkdirAll(mod, 0o755)
	verif := ev.Root()
	gomod := fmt.Sprintf("module c06mod\n\ngo 1.22.1\n\nrequire go.uber.org/thriftrw v0.0.0\n\nreplace go.uber.org/thriftrw => /repo\n")
	os.WriteFile(filepath.Join(mod, "go.mod"), []byte(gomod), 0o644)
	if b, err := os.ReadFile(filepath.Join(verif, "go.sum")); err == nil {
		os.WriteFile(filepath.Join(mod, "go.sum"), b, 0o644)
	}
	generated := map[string]cell{}
	for _, c := range mine {
		w.Eval(1)
		w.Nontrivial(1)
		if w.WantSample() && len(generated)%40 == 3 {
			w.Sample(map[string]interface{}{"class": c.Class, "files": c.Files})
		}
		thrift := filepath.Join(root, "thrift", c.Name)
		for path, text := range c.Files {
			full := filepath.Join(thrift, path)
			os.MkdirAll(filepath.Dir(full), 0o755)
			os.WriteFile(full, []byte(text), 0o644)
		}
		w.Progress("generate " + c.Class + " " + c.Name)
		var gerr error
		func() {
			defer func() {
				if r := recover(); r != nil {
					gerr = fmt.Errorf("PANIC %v", r)
				}
			}()
			if c.CLI {
				cmd := exec.Command(w.Args["thriftrw"], "--out", filepath.Join(mod, c.Name), "--pkg-prefix", "c06mod/"+c.Name, "--no-version-check", filepath.Join(thrift, c.Root))
				if out, err := cmd.CombinedOutput(); err != nil {
					gerr = fmt.Errorf("thriftrw command failed: %v: %s", err, strings.TrimSpace(string(out)))
				}
				return
			}
			m, err := compile.Compile(filepath.Join(thrift, c.Root))
			if err != nil {
				gerr = err
				return
			}
			o := &gen.Options{OutputDir: filepath.Join(mod, c.Name), PackagePrefix: "c06mod/" + c.Name, ThriftRoot: filepath.Join(thrift, c.ThriftRoot), NoVersionCheck: true}
			if c.Opts != nil {
				c.Opts(o)
			}
			gerr = gen.Generate(m, o)
		}()
		if gerr != nil {
			os.RemoveAll(filepath.Join(mod, c.Name))
			if strings.HasPrefix(gerr.Error(), "PANIC") {
				w.Violation("generator-panic:"+c.Class, fmt.Sprintf("%v on %v", gerr, c.Files), c.Files)
			} else if c.Benign && strings.Contains(gerr.Error(), "parse error") && strings.HasPrefix(c.Class, "name:") {
				// the IDL itself reserves this word (Thrift keyword or reserved word): not a well-formed program
				w.Outcome("rejected-by-parser:" + classKind(c.Class))
			} else if c.Benign {
				w.Violation("rejected-valid:"+c.Class, fmt.Sprintf("a valid program was rejected: %.300s; files %v", gerr.Error(), c.Files), c.Files)
			} else {
				w.Outcome("rejected:" + classKind(c.Class))
			}
			continue
		}
		generated[c.Name] = c
	}
	if len(generated) == 0 {
		return
	}
	w.Progress(fmt.Sprintf("go build of %d generated cells", len(generated)))
	cmd := exec.Command("go", "build", "./...")
	cmd.Dir = mod
	cmd.Env = append(os.Environ(), "GOFLAGS=-mod=mod", "GOPROXY=off", "GOSUMDB=off", "GOTOOLCHAIN=local", "GOMAXPROCS=4")
	var out bytes.Buffer
	cmd.Stdout, cmd.Stderr = &out, &out
	berr := cmd.Run()
	broken := map[string]string{}
	if berr != nil {
		text := out.String()
		// attribute every diagnostic line to the cell whose directory it names:
		// "# c06mod/<cell>/pkg" headers and "<cell>/pkg/file.go:line:col: msg" lines
		cur := ""
		for _, line := range strings.Split(text, "\n") {
			name := ""
			if m := pkgErrRE.FindStringSubmatch(line); m != nil {
				cur = m[1]
				if strings.HasPrefix(line, "#") {
					continue
				}
				name = cur
			} else if i := strings.Index(line, "/"); i > 0 && !strings.ContainsAny(line[:i], " :\t") {
				name = line[:i]
			} else if cur != "" && strings.TrimSpace(line) != "" {
				name = cur
			}
			if _, ok := generated[name]; ok {
				if len(broken[name]) < 500 {
					broken[name] += strings.TrimSpace(line) + " | "
				}
			}
		}
		if len(broken) == 0 {
			w.Note("go build failed without attributable packages: " + firstLines(text, 6))
			w.Cap("go build output could not be attributed to cells")
			return
		}
		// a syntax error in one package can stop the build before other packages are
		// compiled: rebuild without the broken cells until the rest builds or nothing new is found
		for round := 0; round < 6; round++ {
			for n := range broken {
				os.RemoveAll(filepath.Join(mod, n))
			}
			cmd := exec.Command("go", "build", "./...")
			cmd.Dir = mod
			cmd.Env = append(os.Environ(), "GOFLAGS=-mod=mod", "GOPROXY=off", "GOSUMDB=off", "GOTOOLCHAIN=local", "GOMAXPROCS=4")
			var out2 bytes.Buffer
			cmd.Stdout, cmd.Stderr = &out2, &out2
			if cmd.Run() == nil {
				break
			}
			found := false
			cur := ""
			for _, line := range strings.Split(out2.String(), "\n") {
				name := ""
				if m := pkgErrRE.FindStringSubmatch(line); m != nil {
					cur = m[1]
					if strings.HasPrefix(line, "#") {
						continue
					}
					name = cur
				} else if i := strings.Index(line, "/"); i > 0 && !strings.ContainsAny(line[:i], " :\t") {
					name = line[:i]
				} else if cur != "" && strings.TrimSpace(line) != "" {
					name = cur
				}
				if _, ok := generated[name]; ok {
					if _, seen := broken[name]; !seen {
						found = true
					}
					if len(broken[name]) < 500 {
						broken[name] += strings.TrimSpace(line) + " | "
					}
				}
			}
			if !found {
				w.Note("go build still fails after removing broken cells: " + firstLines(out2.String(), 6))
				w.Cap("go build output could not be fully attributed to cells")
				break
			}
		}
	}
	names := make([]string, 0, len(generated))
	for n := range generated {
		names = append(names, n)
	}
	sort.Strings(names)
	for _, n := range names {
		c := generated[n]
		if msg, bad := broken[n]; bad {
			w.Violation("does-not-build:"+c.Class, fmt.Sprintf("generation succeeded but the Go does not build: %.400s; files %v", msg, c.Files), c.Files)
			w.Outcome("broken:" + classKind(c.Class))
		} else {
			w.Outcome("builds:" + classKind(c.Class))
		}
	}
	w.Done()
}

func classKind(c string) string {
	if i := strings.Index(c, ":"); i >= 0 {
		return c[:i]
	}
	return c
}

func firstLines(s string, n int) string {
	l := strings.Split(s, "\n")
	if len(l) > n {
		l = l[:n]
	}
	return strings.Join(l, " | ")
}
