// Package cellutil holds what the cell-universe checks share: loading the
// universe inside the driver, iterating cells, and the four codec paths of a
// generated type.
package cellutil

import (
	"bytes"
	"fmt"
	"io"
	"reflect"

	"go.uber.org/thriftrw/protocol/binary"
	"go.uber.org/thriftrw/protocol/stream"
	"go.uber.org/thriftrw/wire"
	"verif/cells"
	"verif/cells/reg"
	"verif/engine/ev"
	"verif/ref/reflectval"
	"verif/ref/schema"
)

// Codec is the method set of every generated struct-like type.
type Codec interface {
	ToWire() (wire.Value, error)
	FromWire(wire.Value) error
	Encode(stream.Writer) error
	Decode(stream.Reader) error
}

// Env is the loaded universe.
type Env struct {
	W     *ev.W
	P     *schema.Program
	Conv  *reflectval.Conv
	Files map[string]*schema.File
	Cells []cells.Cell
}

// Load rebuilds the (deterministic) universe description inside the driver.
func Load(w *ev.W) *Env {
	slim := w.Args["cells_slim"] != "0"
	p, cs := cells.Universe(slim)
	e := &Env{W: w, P: p, Conv: &reflectval.Conv{P: p}, Files: map[string]*schema.File{}, Cells: cs}
	for _, f := range p.Files {
		e.Files[f.Path] = f
	}
	return e
}

// Each calls fn for every cell this worker owns and whose type was compiled.
func (e *Env) Each(fn func(cell cells.Cell, ent reg.Entry, f *schema.File, d *schema.Def)) {
	for _, cell := range e.Cells {
		if !e.W.Own() {
			continue
		}
		if e.W.Expired() {
			e.W.Cap("time budget reached before all cells were explored")
			return
		}
		ent, ok := reg.Find(cell.Pkg, cell.Def)
		if !ok {
			e.W.Count("skipped_cells(not compiled or rejected; see C06)", 1)
			continue
		}
		f := e.Files[cell.File]
		for _, d := range f.Defs {
			if d.Name == cell.Def {
				fn(cell, ent, f, d)
			}
		}
		e.W.Count("cells_explored", 1)
		e.W.Done()
	}
}

func guard(err *error) {
	if r := recover(); r != nil {
		*err = fmt.Errorf("PANIC %v", r)
	}
}

// IsPanic reports whether err came from a recovered panic.
func IsPanic(err error) bool {
	return err != nil && len(err.Error()) > 5 && err.Error()[:5] == "PANIC"
}

// DecodeValue runs the value path: FromWire(Decode(b)).
func DecodeValue(t reflect.Type, b []byte) (rv reflect.Value, err error) {
	defer guard(&err)
	rv = reflect.New(t)
	wv, err := binary.Default.Decode(bytes.NewReader(b), wire.TStruct)
	if err != nil {
		return rv, err
	}
	err = rv.Interface().(Codec).FromWire(wv)
	return rv, err
}

// DecodeStream runs the streaming path over r.
func DecodeStream(t reflect.Type, r io.Reader) (rv reflect.Value, err error) {
	defer guard(&err)
	rv = reflect.New(t)
	sr := binary.Default.Reader(r)
	defer sr.Close()
	err = rv.Interface().(Codec).Decode(sr)
	return rv, err
}

// EncodeValue runs Encode(x.ToWire()).
func EncodeValue(x Codec) (b []byte, err error) {
	defer guard(&err)
	wv, err := x.ToWire()
	if err != nil {
		return nil, err
	}
	var buf bytes.Buffer
	err = binary.Default.Encode(wv, &buf)
	return buf.Bytes(), err
}

// EncodeStream runs x.Encode(stream writer).
func EncodeStream(x Codec) (b []byte, err error) {
	defer guard(&err)
	var buf bytes.Buffer
	sw := binary.Default.Writer(&buf)
	err = x.Encode(sw)
	sw.Close()
	return buf.Bytes(), err
}
