// Package c19: service codegen — plugin type descriptions and response
// helpers are faithful (DESIGN.md §3 C19).
package c19

import (
	"bytes"
	"encoding/json"
	"errors"
	"fmt"
	"go/ast"
	"go/parser"
	"go/printer"
	"go/token"
	"os"
	"path/filepath"
	"reflect"
	"regexp"
	"sort"
	"strconv"
	"strings"
	"time"

	"go.uber.org/thriftrw/gen"
	"go.uber.org/thriftrw/plugin"
	"go.uber.org/thriftrw/plugin/api"
	"verif/cells"
	"verif/cells/reg"
	"verif/engine/ev"
	"verif/ref/reflectval"
	"verif/ref/schema"
)

// Check is the registered check.
var Check = &ev.Check{
	ID:    "C19",
	Level: "exploration",
	Rule: "programs: service cells — for every type expression t of the cell universe (quick: 104 slim expressions; thorough: the full set incl. depth-2 containers) a function `t F(1: t A1, 2: required t A2) throws (1: X E1)`, " +
		"plus void, oneway and exception-only functions; services inheriting within a file, across files (two levels) and referencing types of included files; each file generated with NoRecurse (compiled) and the inheritance roots also with recursion (request only). " +
		"Per function: the Go type obtained by formatting (plugin.GoFileFromTemplate + formatType) the type description sent to the in-process ServiceGenerator must equal, after import-alias normalisation, the type of the matching field of <Svc>_<Fn>_Args / _Result and the parameter/result types of Helper.Args / WrapResponse / UnwrapResponse parsed from the generated source with go/ast; " +
		"the request must be self-consistent (ids resolve, parent chains acyclic, root services = services of the generated files, names/import paths/directories match the emitted packages); " +
		"behaviour: UnwrapResponse(WrapResponse(v, nil)) = v for every non-nil alphabet value, every declared exception round-trips, undeclared and typed-nil errors are refused, IsException agrees. A case is one function (type shape); non-trivial = every function.",
	Prepare: prepare,
	Run:     run,
	Budget: func(t string) time.Duration {
		return map[string]time.Duration{"quick": 4 * time.Minute, "thorough": 20 * time.Minute}[t]
	},
	Assumptions: []string{"a nil slice/map is not a return value (the result union rejects it), so WrapResponse round trips use non-nil values only"},
}

type fnInfo struct {
	Svc   string
	Fn    string
	Label string
	TIdx  int // index into type expressions, -1 for special functions
}

// extra builds the service program: files s0.thrift ... and the functions in them.
func extra(slim bool) (*schema.Program, map[string][]fnInfo) {
	p := &schema.Program{}
	info := map[string][]fnInfo{}
	tes := cells.TypeExprs(slim)
	const perService = 6
	var cur *schema.File
	var svc *schema.Def
	x := func() schema.Field {
		return schema.Field{ID: 1, Name: "E1", Type: schema.Named("X"), Req: schema.Optional}
	}
	newFile := func() {
		cur = &schema.File{Path: fmt.Sprintf("s%d.thrift", len(p.Files)), Includes: []string{"./base.thrift"}}
		p.Files = append(p.Files, cur)
		cur.Defs = append(cur.Defs, &schema.Def{Kind: "exception", Name: "X", Fields: []schema.Field{{ID: 1, Name: "Msg", Type: schema.Prim(schema.String), Req: schema.Optional}}})
		cur.Defs = append(cur.Defs, &schema.Def{Kind: "exception", Name: "Y", Fields: []schema.Field{{ID: 1, Name: "Code", Type: schema.Prim(schema.I32), Req: schema.Required}}})
		parent := ""
		if n := len(p.Files); n >= 2 {
			// inherit across files: s<k>.Sv extends s<k-1>.Sv (chains two levels deep and more)
			prev := fmt.Sprintf("s%d", n-2)
			cur.Includes = append(cur.Includes, "./"+prev+".thrift")
			parent = prev + ".Sv"
		}
		svc = &schema.Def{Kind: "service", Name: "Sv", Parent: parent}
		cur.Defs = append(cur.Defs, svc)
		svc.Funcs = append(svc.Funcs,
			schema.Func{Name: "Fvoid", Args: []schema.Field{{ID: 1, Name: "A1", Type: schema.Prim(schema.I32), Req: schema.Optional}}},
			schema.Func{Name: "Fone", OneWay: true, Args: []schema.Field{{ID: 1, Name: "A1", Type: schema.Prim(schema.String), Req: schema.Optional}}},
			schema.Func{Name: "Fexc", Throws: []schema.Field{x(), {ID: 2, Name: "E2", Type: schema.Named("Y"), Req: schema.Optional}}},
		)
		// arguments that carry default values (optional and required; primitive, enum, typedef, string, container, struct)
		svc.Funcs = append(svc.Funcs, schema.Func{Name: "Fdef", Ret: schema.Prim(schema.I32), Args: []schema.Field{
			{ID: 1, Name: "A1", Type: schema.Prim(schema.I32), Req: schema.Optional, Default: schema.Int(5)},
			{ID: 2, Name: "A2", Type: schema.Named("base.E"), Req: schema.Optional, Default: schema.Int(5)},
			{ID: 3, Name: "A3", Type: schema.Prim(schema.String), Req: schema.Optional, Default: schema.Str("x")},
			{ID: 4, Name: "A4", Type: schema.Named("base.Ti32"), Req: schema.Optional, Default: schema.Int(3)},
			{ID: 5, Name: "A5", Type: schema.ListOf(schema.Prim(schema.I32)), Req: schema.Optional, Default: schema.Seq(*schema.Int(1))},
			{ID: 6, Name: "A6", Type: schema.Prim(schema.I64), Req: schema.Required, Default: schema.Int(9)},
			{ID: 7, Name: "A7", Type: schema.Prim(schema.Double), Req: schema.Optional, Default: schema.Dbl(1.5)},
			{ID: 8, Name: "A8", Type: schema.Prim(schema.Bool), Req: schema.Optional, Default: schema.Int(1)},
		}})
		info[cur.Path] = append(info[cur.Path], fnInfo{"Sv", "Fvoid", "void", -1}, fnInfo{"Sv", "Fone", "oneway", -1}, fnInfo{"Sv", "Fexc", "void+2 exceptions", -1}, fnInfo{"Sv", "Fdef", "arguments with defaults", -1})
		// a second service in the same file inheriting from the first
		child := &schema.Def{Kind: "service", Name: "Child", Parent: "Sv", Funcs: []schema.Func{{Name: "Fc", Ret: schema.Named("X"), Args: []schema.Field{{ID: 1, Name: "A1", Type: schema.Named("Y"), Req: schema.Optional}}}}}
		cur.Defs = append(cur.Defs, child)
		info[cur.Path] = append(info[cur.Path], fnInfo{"Child", "Fc", "exception type as value", -1})
	}
	for i, te := range tes {
		if cur == nil || len(svc.Funcs) >= perService+3 {
			newFile()
		}
		fn := schema.Func{Name: fmt.Sprintf("F%d", i), Ret: te.T,
			Args:   []schema.Field{{ID: 1, Name: "A1", Type: te.T, Req: schema.Optional}, {ID: 2, Name: "A2", Type: te.T, Req: schema.Required}},
			Throws: []schema.Field{x()}}
		svc.Funcs = append(svc.Funcs, fn)
		info[cur.Path] = append(info[cur.Path], fnInfo{"Sv", fn.Name, te.Label, i})
	}
	return p, info
}

type capture struct {
	dir string
}

var nonClean int

func prepare(s *ev.S) error {
	slim := s.Tier != "thorough"
	p, _ := extra(slim)
	reqDir := filepath.Join(s.WorkDir, "requests")
	os.MkdirAll(reqDir, 0o755)
	var recurse []string
	if n := len(p.Files); n > 0 {
		recurse = append(recurse, p.Files[n-1].Path)
		if n > 2 {
			recurse = append(recurse, p.Files[2].Path)
		}
	}
	_, err := cells.Prepare(s, cells.Options{Slim: slim, Extra: p, Recurse: recurse,
		GenOptions: func(file string, o *gen.Options) {
			// the recursive generations (not compiled) are given other spellings of the package
			// prefix: the module descriptions must not depend on how the prefix is spelled
			if strings.HasPrefix(file, "recurse:") {
				nonClean++
				o.PackagePrefix = []string{"cellsmod/gen/", "./cellsmod//gen", "cellsmod/./gen"}[nonClean%3]
			}
			o.Plugin = gen.CodeGenerator{ServiceGenerator: recorder{filepath.Join(reqDir, strings.NewReplacer("/", "_", ":", "_").Replace(file)+".json")}}
		}})
	s.Args["requests"] = reqDir
	s.Args["recurse_roots"] = strings.Join(recurse, ",")
	return err
}

type recorder struct{ path string }

func (r recorder) Generate(req *api.GenerateServiceRequest) (*api.GenerateServiceResponse, error) {
	b, err := json.Marshal(req)
	if err == nil {
		os.WriteFile(r.path, b, 0o644)
	}
	return &api.GenerateServiceResponse{}, nil
}

var aliasRE = regexp.MustCompile(`\b([A-Za-z_][A-Za-z0-9_]*)\.([A-Z])`)

// typeText renders expr and replaces import aliases by import paths.
func typeText(fset *token.FileSet, expr ast.Expr, imports map[string]string) string {
	var buf bytes.Buffer
	printer.Fprint(&buf, fset, expr)
	s := strings.Join(strings.Fields(buf.String()), " ")
	return aliasRE.ReplaceAllStringFunc(s, func(m string) string {
		i := strings.Index(m, ".")
		if path, ok := imports[m[:i]]; ok {
			return "\"" + path + "\"" + m[i:]
		}
		return m
	})
}

func importsOf(f *ast.File) map[string]string {
	m := map[string]string{}
	for _, imp := range f.Imports {
		path, _ := strconv.Unquote(imp.Path.Value)
		name := filepath.Base(path)
		if imp.Name != nil {
			name = imp.Name.Name
		}
		m[name] = path
	}
	return m
}

// formatted runs the real formatter on a type description.
func formatted(t *api.Type, importPath string) (string, error) {
	out, err := plugin.GoFileFromTemplate("t.go", "package x\n\nvar _ <formatType .>\n", t, plugin.GoFileImportPath(importPath))
	if err != nil {
		return "", err
	}
	fset := token.NewFileSet()
	f, err := parser.ParseFile(fset, "t.go", out, 0)
	if err != nil {
		return "", err
	}
	for _, d := range f.Decls {
		if gd, ok := d.(*ast.GenDecl); ok && gd.Tok == token.VAR {
			vs := gd.Specs[0].(*ast.ValueSpec)
			return typeText(fset, vs.Type, importsOf(f)), nil
		}
	}
	return "", errors.New("no var in formatted output")
}

type genFile struct {
	fset    *token.FileSet
	file    *ast.File
	imports map[string]string
	structs map[string]map[string]string // struct -> field -> type text
	helpers map[string]map[string]*ast.FuncType
}

func parseGenerated(path string) (*genFile, error) {
	fset := token.NewFileSet()
	f, err := parser.ParseFile(fset, path, nil, 0)
	if err != nil {
		return nil, err
	}
	g := &genFile{fset: fset, file: f, imports: importsOf(f), structs: map[string]map[string]string{}, helpers: map[string]map[string]*ast.FuncType{}}
	for _, d := range f.Decls {
		gd, ok := d.(*ast.GenDecl)
		if !ok {
			continue
		}
		for _, sp := range gd.Specs {
			switch s := sp.(type) {
			case *ast.TypeSpec:
				if st, ok := s.Type.(*ast.StructType); ok {
					m := map[string]string{}
					for _, fld := range st.Fields.List {
						for _, n := range fld.Names {
							m[n.Name] = typeText(fset, fld.Type, g.imports)
						}
					}
					g.structs[s.Name.Name] = m
				}
			case *ast.ValueSpec:
				if len(s.Names) == 1 && strings.HasSuffix(s.Names[0].Name, "_Helper") && len(s.Values) == 1 {
					if cl, ok := s.Values[0].(*ast.CompositeLit); ok {
						if st, ok := cl.Type.(*ast.StructType); ok {
							m := map[string]*ast.FuncType{}
							for _, fld := range st.Fields.List {
								if ft, ok := fld.Type.(*ast.FuncType); ok {
									for _, n := range fld.Names {
										m[n.Name] = ft
									}
								}
							}
							g.helpers[s.Names[0].Name] = m
						}
					}
				}
			}
		}
	}
	return g, nil
}

func run(w *ev.W) {
	slim := w.Args["cells_slim"] != "0"
	univ, _ := cells.Universe(slim)
	ex, info := extra(slim)
	p := &schema.Program{Files: append(append([]*schema.File{}, univ.Files...), ex.Files...)}
	conv := &reflectval.Conv{P: p}
	root := w.Args["cells_root"]
	tes := cells.TypeExprs(slim)
	// the generated code of a service file has to build: the helpers are part of what is judged here
	if w.Shard == 0 {
		var rep cells.BuildReport
		json.Unmarshal([]byte(w.Args["cells_report"]), &rep)
		for _, f := range ex.Files {
			pk := strings.TrimSuffix(f.Path, ".thrift")
			if e, bad := rep.CompileError[pk]; bad && !strings.HasPrefix(e, "imports ") {
				w.Violation("generated-service-code-does-not-build", fmt.Sprintf("%s: the Go generated for this service file does not compile: %.400s", f.Path, e), map[string]string{"file": f.Path, "error": e})
			}
			if e, bad := rep.GenerateError[f.Path]; bad {
				w.Violation("service-file-rejected", fmt.Sprintf("%s: the generator rejected a valid service file: %.400s", f.Path, e), map[string]string{"file": f.Path, "error": e})
			}
		}
	}
	for _, f := range ex.Files {
		if !w.Own() {
			continue
		}
		if w.Expired() {
			w.Cap("time budget reached before all service cells were explored")
			return
		}
		pk := strings.TrimSuffix(f.Path, ".thrift")
		importPath := "cellsmod/gen/" + pk
		raw, err := os.ReadFile(filepath.Join(w.Args["requests"], strings.ReplaceAll(f.Path, "/", "_")+".json"))
		if err != nil {
			w.Count("skipped_cells(not generated; see C06)", 1)
			continue
		}
		var req api.GenerateServiceRequest
		if err := json.Unmarshal(raw, &req); err != nil {
			w.Note("cannot reload the captured request: " + err.Error())
			continue
		}
		g, err := parseGenerated(filepath.Join(root, "mod", "gen", pk, pk+".go"))
		if err != nil {
			w.Note("cannot parse generated source: " + err.Error())
			continue
		}
		viol := func(class, detail string) {
			w.Violation(class, fmt.Sprintf("%s: %s", f.Path, detail), map[string]string{"file": f.Path, "detail": detail})
		}
		consistency(w, &req, f, pk, importPath, false, viol)
		// functions
		byName := map[string]*api.Service{}
		for _, id := range req.RootServices {
			if s := req.Services[id]; s != nil {
				byName[s.Name] = s
			}
		}
		for _, fi := range info[f.Path] {
			w.Eval(1)
			w.Nontrivial(1)
			svc := byName[fi.Svc]
			if svc == nil {
				viol("request-missing-root-service", "service "+fi.Svc+" is not among the root services of the request")
				continue
			}
			var fn *api.Function
			for _, x := range svc.Functions {
				if x.ThriftName == fi.Fn {
					fn = x
				}
			}
			if fn == nil {
				viol("request-missing-function", fi.Svc+"."+fi.Fn)
				continue
			}
			desc := fmt.Sprintf("%s.%s (%s)", fi.Svc, fi.Fn, fi.Label)
			if w.WantSample() && fi.TIdx%9 == 4 {
				w.Sample(map[string]string{"function": desc, "file": f.Path})
			}
			args := g.structs[fi.Svc+"_"+fi.Fn+"_Args"]
			result := g.structs[fi.Svc+"_"+fi.Fn+"_Result"]
			helper := g.helpers[fi.Svc+"_"+fi.Fn+"_Helper"]
			if args == nil || helper == nil {
				viol("generated-structs-missing", desc)
				continue
			}
			cmp := func(what string, t *api.Type, goType string, present bool) {
				if !present {
					viol("generated-field-missing:"+what, desc+": no generated counterpart for "+what)
					return
				}
				ft, err := formatted(t, importPath)
				if err != nil {
					viol("format-error:"+what, desc+": "+err.Error())
					return
				}
				if ft != goType {
					viol("type-mismatch:"+what+":"+shapeClass(fi.Label), fmt.Sprintf("%s %s: plugin description formats as %q, generated code declares %q", desc, what, ft, goType))
				} else {
					w.Outcome("type-agrees:" + what)
				}
			}
			for i, a := range fn.Arguments {
				gt, ok := args[a.Name]
				cmp("argument", a.Type, gt, ok)
				if hf := helper["Args"]; hf != nil && hf.Params != nil && i < len(hf.Params.List) {
					cmp("helper-args-param", a.Type, typeText(g.fset, hf.Params.List[i].Type, g.imports), true)
				}
			}
			for _, e := range fn.Exceptions {
				gt, ok := result[e.Name]
				cmp("exception", e.Type, gt, ok)
			}
			if fn.ReturnType != nil {
				if hf := helper["WrapResponse"]; hf != nil && len(hf.Params.List) > 0 {
					cmp("return-vs-WrapResponse", fn.ReturnType, typeText(g.fset, hf.Params.List[0].Type, g.imports), true)
				} else {
					viol("helper-missing", desc+": no WrapResponse")
				}
				if hf := helper["UnwrapResponse"]; hf != nil && hf.Results != nil && len(hf.Results.List) > 0 {
					cmp("return-vs-UnwrapResponse", fn.ReturnType, typeText(g.fset, hf.Results.List[0].Type, g.imports), true)
				}
			}
			if fi.TIdx >= 0 {
				behaviour(w, p, conv, f, pk, fi, tes[fi.TIdx].T, viol)
			}
		}
		w.Done()
	}
	// recursive generations: self-consistency of the request only
	if w.Shard == 0 {
		for _, rf := range strings.Split(w.Args["recurse_roots"], ",") {
			if rf == "" {
				continue
			}
			raw, err := os.ReadFile(filepath.Join(w.Args["requests"], "recurse_"+strings.ReplaceAll(rf, "/", "_")+".json"))
			if err != nil {
				w.Note("no captured request for recursive generation of " + rf)
				continue
			}
			var req api.GenerateServiceRequest
			json.Unmarshal(raw, &req)
			var rootFile *schema.File
			for _, f := range ex.Files {
				if f.Path == rf {
					rootFile = f
				}
			}
			w.Eval(1)
			consistency(w, &req, rootFile, strings.TrimSuffix(rf, ".thrift"), "", true, func(class, detail string) {
				w.Violation("recurse:"+class, "recursive generation of "+rf+": "+detail, map[string]string{"root": rf})
			})
		}
	}
}

func shapeClass(label string) string {
	i := strings.IndexAny(label, "<")
	if i < 0 {
		return "leaf"
	}
	return label[:i]
}

// consistency checks that the request is self-consistent.
func consistency(w *ev.W, req *api.GenerateServiceRequest, f *schema.File, pk, importPath string, recursive bool, viol func(class, detail string)) {
	for _, id := range req.RootServices {
		if req.Services[id] == nil {
			viol("dangling-root-service", fmt.Sprintf("root service id %d is not in services", id))
		}
	}
	for id, s := range req.Services {
		if req.Modules[s.ModuleID] == nil {
			viol("dangling-module", fmt.Sprintf("service %s (id %d) refers to module %d", s.Name, id, s.ModuleID))
		}
		seen := map[api.ServiceID]bool{id: true}
		for cur := s; cur.ParentID != nil; {
			if seen[*cur.ParentID] {
				viol("parent-cycle", "service "+s.Name)
				break
			}
			seen[*cur.ParentID] = true
			nxt := req.Services[*cur.ParentID]
			if nxt == nil {
				viol("dangling-parent", fmt.Sprintf("service %s refers to parent id %d", cur.Name, *cur.ParentID))
				break
			}
			cur = nxt
		}
	}
	for _, id := range req.RootModules {
		if req.Modules[id] == nil {
			viol("dangling-root-module", fmt.Sprintf("root module id %d", id))
		}
	}
	// root services are exactly the services of the generated files
	var want, got []string
	if !recursive {
		for _, d := range f.Defs {
			if d.Kind == "service" {
				want = append(want, pk+":"+d.Name)
			}
		}
	}
	for _, id := range req.RootServices {
		if s := req.Services[id]; s != nil && req.Modules[s.ModuleID] != nil {
			m := req.Modules[s.ModuleID]
			got = append(got, strings.TrimSuffix(filepath.Base(m.ThriftFilePath), ".thrift")+":"+s.ThriftName)
			if !strings.HasSuffix(m.ImportPath, "/"+strings.TrimSuffix(filepath.Base(m.ThriftFilePath), ".thrift")) {
				viol("module-import-path", fmt.Sprintf("module of %s has import path %q for thrift file %q", s.Name, m.ImportPath, m.ThriftFilePath))
			}
			if m.Directory != strings.TrimSuffix(filepath.Base(m.ThriftFilePath), ".thrift") {
				viol("module-directory", fmt.Sprintf("module of %s has directory %q for thrift file %q", s.Name, m.Directory, m.ThriftFilePath))
			}
		}
	}
	sort.Strings(want)
	sort.Strings(got)
	if !recursive && strings.Join(want, ",") != strings.Join(got, ",") {
		viol("root-services", fmt.Sprintf("root services %v, services of the generated file %v", got, want))
	}
	if recursive {
		// every service of every module is a root service in a recursive generation
		if len(req.RootServices) != len(req.Services) {
			viol("root-services", fmt.Sprintf("recursive generation: %d root services but %d services in the request", len(req.RootServices), len(req.Services)))
		}
	}
	w.Outcome("request-checked")
}

// behaviour exercises the compiled helpers through reflection.
func behaviour(w *ev.W, p *schema.Program, conv *reflectval.Conv, f *schema.File, pk string, fi fnInfo, t *schema.Type, viol func(class, detail string)) {
	h, ok := reg.Extra[pk+"."+fi.Svc+"_"+fi.Fn+"_Helper"]
	if !ok {
		w.Count("skipped_helpers(cell not compiled; see C06)", 1)
		return
	}
	hv := reflect.ValueOf(h)
	wrap, unwrap, isExc := hv.FieldByName("WrapResponse"), hv.FieldByName("UnwrapResponse"), hv.FieldByName("IsException")
	if !wrap.IsValid() || !unwrap.IsValid() || !isExc.IsValid() {
		viol("helper-shape", fi.Svc+"."+fi.Fn+": helper lacks WrapResponse/UnwrapResponse/IsException")
		return
	}
	desc := fmt.Sprintf("%s.%s (%s)", fi.Svc, fi.Fn, fi.Label)
	errT := reflect.TypeOf((*error)(nil)).Elem()
	paramT := wrap.Type().In(0)
	call := func(fn reflect.Value, args ...reflect.Value) (out []reflect.Value, pan interface{}) {
		defer func() { pan = recover() }()
		return fn.Call(args), nil
	}
	for _, v := range p.D(f, t) {
		gv, err := conv.FromLogical(f, t, v, paramT)
		if err != nil {
			viol("shape", desc+": "+err.Error())
			return
		}
		out, pan := call(wrap, gv, reflect.Zero(errT))
		if pan != nil {
			viol("panic-WrapResponse:"+shapeClass(fi.Label), fmt.Sprintf("%s: WrapResponse(%.100s, nil) panicked: %v", desc, p.Key(f, t, v), pan))
			continue
		}
		if !out[1].IsNil() {
			viol("WrapResponse-rejects-value:"+shapeClass(fi.Label), fmt.Sprintf("%s: WrapResponse(%.100s, nil) failed: %v", desc, p.Key(f, t, v), out[1].Interface()))
			continue
		}
		back, pan := call(unwrap, out[0])
		if pan != nil {
			viol("panic-UnwrapResponse:"+shapeClass(fi.Label), fmt.Sprintf("%s: UnwrapResponse panicked: %v", desc, pan))
			continue
		}
		if !back[1].IsNil() {
			viol("UnwrapResponse-error:"+shapeClass(fi.Label), fmt.Sprintf("%s: UnwrapResponse(WrapResponse(%.100s)) failed: %v", desc, p.Key(f, t, v), back[1].Interface()))
			continue
		}
		got, err := conv.ToLogical(f, t, back[0])
		if err != nil {
			viol("shape", desc+": "+err.Error())
			continue
		}
		if p.Key(f, t, got) != p.Key(f, t, v) {
			viol("helper-roundtrip:"+shapeClass(fi.Label), fmt.Sprintf("%s: UnwrapResponse(WrapResponse(v)) = %.150s, v = %.150s", desc, p.Key(f, t, got), p.Key(f, t, v)))
			continue
		}
		w.Outcome("helper-roundtrip-ok")
	}
	// declared exception round trip, undeclared and typed-nil refused
	xe, ok := reg.Find(pk, "X")
	ye, ok2 := reg.Find(pk, "Y")
	if !ok || !ok2 {
		return
	}
	msg := "boom"
	x := reflect.New(xe.Type)
	x.Elem().FieldByName("Msg").Set(reflect.ValueOf(&msg))
	zero := reflect.Zero(paramT)
	out, pan := call(wrap, zero, x)
	if pan != nil || !out[1].IsNil() {
		viol("WrapResponse-rejects-declared-exception", fmt.Sprintf("%s: WrapResponse(zero, X) panic=%v err=%v", desc, pan, out))
	} else {
		back, pan := call(unwrap, out[0])
		if pan != nil || back[1].IsNil() || back[1].Interface() != x.Interface() {
			viol("exception-roundtrip", fmt.Sprintf("%s: UnwrapResponse(WrapResponse(zero, X)) did not return X (panic=%v)", desc, pan))
		} else {
			w.Outcome("exception-roundtrip-ok")
		}
	}
	if r, pan := call(isExc, x); pan != nil || !r[0].Bool() {
		viol("IsException-declared", desc+": IsException(X) is false")
	}
	y := reflect.New(ye.Type)
	if r, pan := call(isExc, y); pan != nil || r[0].Bool() {
		viol("IsException-undeclared", desc+": IsException(Y) is true although Y is not declared by this function")
	}
	if out, pan := call(wrap, zero, y); pan != nil || out[1].IsNil() {
		viol("WrapResponse-accepts-undeclared", fmt.Sprintf("%s: WrapResponse(zero, undeclared exception Y) did not return an error (panic=%v)", desc, pan))
	}
	if out, pan := call(wrap, zero, reflect.ValueOf(errors.New("plain"))); pan != nil || out[1].IsNil() {
		viol("WrapResponse-accepts-undeclared", fmt.Sprintf("%s: WrapResponse(zero, errors.New) did not return an error (panic=%v)", desc, pan))
	}
	if out, pan := call(wrap, zero, reflect.Zero(reflect.PtrTo(xe.Type))); pan != nil || out[1].IsNil() {
		viol("WrapResponse-accepts-typed-nil", fmt.Sprintf("%s: WrapResponse(zero, (*X)(nil)) did not return an error (panic=%v)", desc, pan))
	}
}
