// Package c13: decoding cost is bounded by the size of the input
// (DESIGN.md §3 C13).
package c13

import (
	"bytes"
	"context"
	"encoding/hex"
	"encoding/json"
	"fmt"
	"io"
	"os"
	"runtime"
	"strings"
	"syscall"
	"time"

	"go.uber.org/thriftrw/plugin/api"
	"go.uber.org/thriftrw/protocol/binary"
	"go.uber.org/thriftrw/protocol/stream"
	"go.uber.org/thriftrw/verifhook"
	"go.uber.org/thriftrw/wire"
	"verif/bridge/chunk"
	"verif/bridge/wirex"
	"verif/cells"
	"verif/cells/reg"
	"verif/checks/cellutil"
	"verif/engine/ev"
	"verif/ref/schema"
	"verif/ref/tbin"
)

const (
	allocK = 12 << 20 // the two documented pre-allocation constants (1 MiB, 10 MiB) plus slack
	allocC = 64
)

// Check is the registered check.
var Check = &ev.Check{
	ID:    "C13",
	Level: "fault_enumeration",
	Rule: "base messages (<=64 bytes): struct-wrapped C02 depth-1/2 container values, valid plugin/api messages (HandshakeResponse, GenerateServiceRequest/Response, Service), the reference encodings (<=96 bytes) of the baseline and single-field deviations of every cell-universe type for the generated decoders, each bare, in a strict and a legacy envelope, and framed; " +
		"fault = the 4 bytes at every offset (a superset of every position where the format carries a length/count) set to each of {2^16, 2^20+1, 2^24, 2^27, 2^28, 2^28+1, 2^29, 2^29+1, 2^30, 2^30+1, 2^31-1} (values above 2^24 only for (API, position kind) classes that stayed within bounds at 2^24, so that violating classes are found without killing the worker; 2^28..2^30 are where count*width wraps 32 bits); " +
		"x 18 decoding APIs (the stream walk, ReadEnvelopeBegin and ReadRequest also over a seekable reader; Decode+force, Decode+wire.*ToSlice, Decode+EvaluateValue, ReadValue, primitive stream walk, Skip seek/stream, DecodeEnveloped, ReadEnvelopeBegin, DecodeRequest, ReadRequest, frame.Reader.Read, generated FromWire(Decode) and generated Decode for 4 plugin/api types). " +
		"Wire-level messages additionally get 10 small negative values (-1..-16) in every window. Oracle per call: processor time <= 3 s (reported when the allocation bound holds), TotalAlloc delta <= 12 MiB + 64*N and reader calls <= 16 + 4*N. A case is (message, offset, magnitude); non-trivial = the mutated window overlaps a real length/count field of the reference encoding.",
	Prepare: func(s *ev.S) error {
		_, err := cells.Prepare(s, cells.Options{Slim: true})
		return err
	},
	Run: run,
	Budget: func(t string) time.Duration {
		return map[string]time.Duration{"quick": 4 * time.Minute, "thorough": 20 * time.Minute}[t]
	},
	CaseDeadline: 60 * time.Second,
	MemLimitKB:   5 << 20,
	CrashSig: func(kind, desc, stderr string) (string, bool) {
		// desc = "api=<api> pos=<kind> ..."
		f := strings.Fields(desc)
		if len(f) >= 2 && strings.HasPrefix(f[0], "api=") {
			return "cost:api=" + apiClass(strings.TrimPrefix(f[0], "api=")) + ":" + f[1], true
		}
		return "", false
	},
	Assumptions: []string{
		"time linearity is checked only through the reader-call-count proxy",
		"K = 12 MiB covers the two documented fixed pre-allocation thresholds (1 MiB binaries, 10 MiB frames)",
		"generated-code decoders: the checked-in plugin/api package and every struct-like type of the cell universe generated from the working tree",
	},
}

type countingReaderAt struct {
	r     *bytes.Reader
	calls int
}

func (c *countingReaderAt) ReadAt(p []byte, off int64) (int, error) {
	c.calls++
	return c.r.ReadAt(p, off)
}

type apiFn struct {
	name string
	// run performs the call on msg and returns the number of reader calls.
	run func(msg []byte) int
}

type bodyReader struct{}

func (bodyReader) Decode(sr stream.Reader) error {
	_, err := wirex.StreamRead(sr, tbin.Struct)
	return err
}

func genFromWire(msg []byte, v interface{ FromWire(wire.Value) error }) int {
	ra := &countingReaderAt{r: bytes.NewReader(msg)}
	w, err := binary.Default.Decode(ra, wire.TStruct)
	if err == nil {
		v.FromWire(w)
	}
	return ra.calls
}

func genDecode(msg []byte, v interface{ Decode(stream.Reader) error }) int {
	cr := &chunk.Reader{B: msg}
	sr := binary.Default.Reader(cr)
	v.Decode(sr)
	sr.Close()
	return cr.Reads
}

var apis = []apiFn{
	{"Decode+force", func(msg []byte) int {
		ra := &countingReaderAt{r: bytes.NewReader(msg)}
		v, err := binary.Default.Decode(ra, wire.TStruct)
		if err == nil {
			wirex.FromWire(v)
		}
		return ra.calls
	}},
	{"Decode+EvaluateValue", func(msg []byte) int {
		ra := &countingReaderAt{r: bytes.NewReader(msg)}
		v, err := binary.Default.Decode(ra, wire.TStruct)
		if err == nil {
			wire.EvaluateValue(v)
		}
		return ra.calls
	}},
	{"Decode+ToSlice", func(msg []byte) int {
		// forces the top-level containers with the product's own helpers,
		// which trust Size()
		ra := &countingReaderAt{r: bytes.NewReader(msg)}
		v, err := binary.Default.Decode(ra, wire.TStruct)
		if err == nil {
			for _, f := range v.GetStruct().Fields {
				switch f.Value.Type() {
				case wire.TList:
					wire.ValueListToSlice(f.Value.GetList())
				case wire.TSet:
					wire.ValueListToSlice(f.Value.GetSet())
				case wire.TMap:
					wire.MapItemListToSlice(f.Value.GetMap())
				}
			}
		}
		return ra.calls
	}},
	{"ReadValue", func(msg []byte) int {
		ra := &countingReaderAt{r: bytes.NewReader(msg)}
		rd := binary.NewReader(ra)
		rd.ReadValue(wire.TStruct, 0)
		return ra.calls
	}},
	{"stream-walk", func(msg []byte) int {
		cr := &chunk.Reader{B: msg}
		sr := binary.Default.Reader(cr)
		wirex.StreamRead(sr, tbin.Struct)
		sr.Close()
		return cr.Reads
	}},
	{"Skip(seek)", func(msg []byte) int {
		sr := binary.Default.Reader(bytes.NewReader(msg))
		sr.Skip(wire.TStruct)
		sr.Close()
		return 0
	}},
	{"Skip(stream)", func(msg []byte) int {
		cr := &chunk.Reader{B: msg}
		sr := binary.Default.Reader(cr)
		sr.Skip(wire.TStruct)
		sr.Close()
		return cr.Reads
	}},
	{"DecodeEnveloped", func(msg []byte) int {
		ra := &countingReaderAt{r: bytes.NewReader(msg)}
		e, err := binary.Default.DecodeEnveloped(ra)
		if err == nil {
			wirex.FromWire(e.Value)
		}
		return ra.calls
	}},
	{"ReadEnvelopeBegin", func(msg []byte) int {
		cr := &chunk.Reader{B: msg}
		sr := binary.Default.Reader(cr)
		if _, err := sr.ReadEnvelopeBegin(); err == nil {
			wirex.StreamRead(sr, tbin.Struct)
		}
		sr.Close()
		return cr.Reads
	}},
	{"DecodeRequest", func(msg []byte) int {
		ra := &countingReaderAt{r: bytes.NewReader(msg)}
		v, _, err := binary.Default.DecodeRequest(wire.Call, ra)
		if err == nil {
			wirex.FromWire(v)
		}
		return ra.calls
	}},
	{"ReadRequest", func(msg []byte) int {
		cr := &chunk.Reader{B: msg}
		binary.Default.ReadRequest(context.Background(), wire.Call, cr, bodyReader{})
		return cr.Reads
	}},
	// the streaming entry points once more over a reader that can seek (the stream
	// reader then skips by seeking, and anything that treats the two kinds of reader
	// differently has a second code path)
	{"stream-walk[seekable]", func(msg []byte) int {
		cr := &chunk.Reader{B: msg}
		sr := binary.Default.Reader(chunk.Seekable{Reader: cr})
		wirex.StreamRead(sr, tbin.Struct)
		sr.Close()
		return cr.Reads
	}},
	{"ReadEnvelopeBegin[seekable]", func(msg []byte) int {
		cr := &chunk.Reader{B: msg}
		sr := binary.Default.Reader(chunk.Seekable{Reader: cr})
		if _, err := sr.ReadEnvelopeBegin(); err == nil {
			wirex.StreamRead(sr, tbin.Struct)
		}
		sr.Close()
		return cr.Reads
	}},
	{"ReadRequest[seekable]", func(msg []byte) int {
		cr := &chunk.Reader{B: msg}
		binary.Default.ReadRequest(context.Background(), wire.Call, chunk.Seekable{Reader: cr}, bodyReader{})
		return cr.Reads
	}},
	{"frame.Reader.Read", func(msg []byte) int {
		cr := &chunk.Reader{B: msg}
		fr := verifhook.NewFrameReader(cr)
		fr.Read()
		return cr.Reads
	}},
	{"gen:HandshakeResponse.FromWire", func(msg []byte) int { return genFromWire(msg, &api.HandshakeResponse{}) }},
	{"gen:HandshakeResponse.Decode", func(msg []byte) int { return genDecode(msg, &api.HandshakeResponse{}) }},
	{"gen:GenerateServiceRequest.FromWire", func(msg []byte) int { return genFromWire(msg, &api.GenerateServiceRequest{}) }},
	{"gen:GenerateServiceRequest.Decode", func(msg []byte) int { return genDecode(msg, &api.GenerateServiceRequest{}) }},
	{"gen:GenerateServiceResponse.FromWire", func(msg []byte) int { return genFromWire(msg, &api.GenerateServiceResponse{}) }},
	{"gen:GenerateServiceResponse.Decode", func(msg []byte) int { return genDecode(msg, &api.GenerateServiceResponse{}) }},
	{"gen:Service.FromWire", func(msg []byte) int { return genFromWire(msg, &api.Service{}) }},
	{"gen:Service.Decode", func(msg []byte) int { return genDecode(msg, &api.Service{}) }},
}

type payload struct {
	API   string `json:"api"`
	Msg   string `json:"msg"`
	Pos   string `json:"pos"`
	Off   int    `json:"off"`
	Value uint32 `json:"value"`
}

type base struct {
	name  string
	msg   []byte
	marks []tbin.Mark
	apis  []string // api name prefixes applicable
}

func s(x string) tbin.Value  { return tbin.Value{T: tbin.Binary, B: []byte(x)} }
func i32(x int64) tbin.Value { return tbin.Value{T: tbin.I32, I: x} }
func st(fs ...tbin.Field) tbin.Value {
	return tbin.Value{T: tbin.Struct, Fields: fs}
}
func fd(id int16, v tbin.Value) tbin.Field { return tbin.Field{ID: id, V: v} }

func apiValues() map[string]tbin.Value {
	hs := st(fd(1, s("p")), fd(2, i32(4)), fd(3, tbin.Value{T: tbin.List, VT: tbin.I32, Items: []tbin.Value{i32(1)}}), fd(4, s("v1")))
	typ := st(fd(1, i32(5)))
	fn := st(fd(1, s("F")), fd(2, s("f")), fd(3, tbin.Value{T: tbin.List, VT: tbin.Struct, Items: []tbin.Value{st(fd(1, s("a")), fd(2, typ))}}))
	svc := st(fd(7, s("S")), fd(1, s("s")), fd(5, tbin.Value{T: tbin.List, VT: tbin.Struct, Items: []tbin.Value{fn}}), fd(6, i32(1)),
		fd(8, tbin.Value{T: tbin.Map, KT: tbin.Binary, VT: tbin.Binary, Items: []tbin.Value{s("k"), s("v")}}))
	mod := st(fd(1, s("i")), fd(2, s("d")), fd(3, s("t")))
	req := st(
		fd(1, tbin.Value{T: tbin.List, VT: tbin.I32, Items: []tbin.Value{i32(1)}}),
		fd(2, tbin.Value{T: tbin.Map, KT: tbin.I32, VT: tbin.Struct, Items: []tbin.Value{i32(1), st(fd(7, s("S")), fd(1, s("s")), fd(5, tbin.Value{T: tbin.List, VT: tbin.Struct}), fd(6, i32(1)))}}),
		fd(3, tbin.Value{T: tbin.Map, KT: tbin.I32, VT: tbin.Struct, Items: []tbin.Value{i32(1), mod}}),
		fd(4, s("p")), fd(5, s("r")),
		fd(6, tbin.Value{T: tbin.List, VT: tbin.I32, Items: []tbin.Value{i32(1)}}))
	resp := st(fd(1, tbin.Value{T: tbin.Map, KT: tbin.Binary, VT: tbin.Binary, Items: []tbin.Value{s("a.go"), s("x")}}))
	return map[string]tbin.Value{"HandshakeResponse": hs, "Service": svc, "GenerateServiceRequest": req, "GenerateServiceResponse": resp}
}

func bases(thorough bool) []base {
	var out []base
	codec := []string{"Decode+force", "Decode+ToSlice", "Decode+EvaluateValue", "ReadValue", "stream-walk", "Skip(seek)", "Skip(stream)", "DecodeRequest", "ReadRequest"}
	addAll := func(name string, v tbin.Value, extra []string) {
		b := tbin.Encode(v)
		if len(b) > 64 && extra == nil {
			return
		}
		out = append(out, base{name: "bare:" + name, msg: b, marks: tbin.Marks(v, 0), apis: append(append([]string{}, codec...), extra...)})
		if len(b) > 40 && extra == nil {
			return
		}
		env := tbin.Envelope{Name: []byte("m"), Type: 1, SeqID: 1}
		sm := tbin.EncodeStrict(env, b)
		mk := append([]tbin.Mark{{Off: 0, Kind: "legacy-name-length"}, {Off: 4, Kind: "strict-name-length"}}, tbin.Marks(v, 13)...)
		out = append(out, base{name: "strict:" + name, msg: sm, marks: mk, apis: []string{"DecodeEnveloped", "ReadEnvelopeBegin", "DecodeRequest", "ReadRequest"}})
		lm := tbin.EncodeLegacy(env, b)
		mk = append([]tbin.Mark{{Off: 0, Kind: "legacy-name-length"}}, tbin.Marks(v, 10)...)
		out = append(out, base{name: "legacy:" + name, msg: lm, marks: mk, apis: []string{"DecodeEnveloped", "ReadEnvelopeBegin", "DecodeRequest", "ReadRequest"}})
		fm := append([]byte{0, 0, 0, byte(len(b))}, b...)
		out = append(out, base{name: "framed:" + name, msg: fm, marks: []tbin.Mark{{Off: 0, Kind: "frame-length"}}, apis: []string{"frame.Reader.Read"}})
	}
	// struct-wrapped container values: all depth-1 containers over the reduced
	// scalar pool, plus depth-2 representatives.
	reps := tbin.NewReps()
	var d1 []tbin.Value
	tbin.Containers(tbin.SmallScalars(), func(v tbin.Value) { d1 = append(d1, v); reps.Offer(v) })
	n := 0
	for _, v := range d1 {
		if v.T == tbin.Struct && len(v.Fields) == 0 {
			continue
		}
		// quick: every 7th depth-1 value plus all maps/lists with elements of variable width
		if !thorough && n%7 != 0 && !(len(v.Items) > 0 && (v.VT >= tbin.Binary)) {
			n++
			continue
		}
		n++
		addAll(fmt.Sprintf("{1:%s}", v.Key()), st(fd(1, v)), nil)
	}
	pool := tbin.Merge(tbin.SmallScalars(), reps.Pool)
	d2 := tbin.NewReps()
	tbin.Containers(pool, func(v tbin.Value) {
		nested := false
		for _, it := range v.Items {
			if it.T >= tbin.Struct {
				nested = true
			}
		}
		if nested {
			d2.Offer(v)
		}
	})
	for _, t := range []tbin.Type{tbin.List, tbin.Set, tbin.Map} {
		for _, v := range d2.Pool[t] {
			addAll(fmt.Sprintf("{1:%s}", v.Key()), st(fd(1, v)), nil)
		}
	}
	for name, v := range apiValues() {
		addAll("api."+name, v, []string{"gen:" + name})
	}
	return out
}

// negMagnitudes: small negative lengths / counts (wire-level messages only): on a
// seekable source "skip n bytes" with a small negative n is a short backward seek,
// which can re-read the same header for ever.
var negMagnitudes = []uint32{0xffffffff, 0xfffffffe, 0xfffffffd, 0xfffffffc, 0xfffffffb, 0xfffffffa, 0xfffffff9, 0xfffffff8, 0xfffffff4, 0xfffffff0}

// magnitudes: large counts, plus the counts at which count*width wraps around
// 32 bits for element widths 2..16 (2^28..2^30 and their successors).
var magnitudes = []uint32{1 << 16, 1<<20 + 1, 1 << 24, 1 << 27, 1 << 28, 1<<28 + 1, 1 << 29, 1<<29 + 1, 1 << 30, 1<<30 + 1, 1<<31 - 1}

// survivable is the largest magnitude that is tried unconditionally.
const survivable = 1 << 24

func posKind(marks []tbin.Mark, off int) (string, bool) {
	for _, m := range marks {
		if m.Off == off {
			return m.Kind, true
		}
	}
	for _, m := range marks {
		if off > m.Off-4 && off < m.Off+4 {
			return m.Kind, true
		}
	}
	return "other", false
}

func applicable(b base, api string) bool {
	for _, p := range b.apis {
		if strings.HasPrefix(api, p) {
			return true
		}
	}
	return false
}

// cellBases: for every compiled struct-like type of the cell universe, the
// reference encoding of its baseline value and of every value with one field
// set to a two-element container / a binary, if it fits 96 bytes.
func cellBases(w *ev.W) ([]base, map[string]reg.Entry) {
	env := cellutil.Load(w)
	ents := map[string]reg.Entry{}
	var out []base
	for _, cell := range env.Cells {
		ent, ok := reg.Find(cell.Pkg, cell.Def)
		if !ok {
			continue
		}
		f := env.Files[cell.File]
		for _, d := range f.Defs {
			if d.Name != cell.Def {
				continue
			}
			t := schema.Named(d.Name)
			seen := map[string]bool{}
			for _, v := range env.P.Deviations(f, d, 1) {
				if !env.P.Valid(f, t, v) {
					continue
				}
				wv := env.P.ToWire(f, t, v)
				marks := tbin.Marks(wv, 0)
				if len(marks) == 0 {
					continue
				}
				enc := tbin.Encode(wv)
				if len(enc) > 96 || seen[string(enc)] {
					continue
				}
				seen[string(enc)] = true
				name := "cell:" + cell.Pkg + "." + cell.Def
				ents[name] = ent
				out = append(out, base{name: name, msg: enc, marks: marks, apis: []string{"cellgen:"}})
				// the same message with the element (key and value) type of one container header
				// replaced by another fixed-width type: the generated decoders pass over such a
				// container element by element (gen/list.go, set.go, map.go), so the declared count
				// drives a loop of Skip calls instead of an allocation
				for _, m := range marks {
					other := func(b byte) byte {
						if b == byte(tbin.I64) {
							return byte(tbin.Double)
						}
						return byte(tbin.I64)
					}
					var rt []byte
					switch {
					case strings.HasPrefix(m.Kind, "list-count"), strings.HasPrefix(m.Kind, "set-count"):
						rt = append([]byte{}, enc...)
						rt[m.Off-1] = other(rt[m.Off-1])
					case strings.HasPrefix(m.Kind, "map-count"):
						rt = append([]byte{}, enc...)
						rt[m.Off-2], rt[m.Off-1] = other(rt[m.Off-2]), byte(tbin.Bool)
					}
					if rt == nil || seen[string(rt)] {
						continue
					}
					seen[string(rt)] = true
					// only this header's count is a meaningful position of the retyped message
					out = append(out, base{name: name, msg: rt, marks: []tbin.Mark{{Off: m.Off, Kind: "retyped-" + m.Kind}}, apis: []string{"cellgen:", "retyped"}})
				}
			}
		}
	}
	return out, ents
}

func run(w *ev.W) {
	if rp := w.Args["replay"]; rp != "" {
		replay(w, rp)
		return
	}
	cb, ents := cellBases(w)
	for name, ent := range ents {
		ent := ent
		_ = name
		_ = ent
	}
	cellAPIs := func(b base) []apiFn {
		ent := ents[b.name]
		return []apiFn{
			{"gen:" + b.name + ".FromWire", func(msg []byte) int { cellutil.DecodeValue(ent.Type, msg); return 0 }},
			{"gen:" + b.name + ".Decode", func(msg []byte) int {
				cr := &chunk.Reader{B: msg}
				cellutil.DecodeStream(ent.Type, cr)
				return cr.Reads
			}},
			// the streaming decoder over a reader that can seek (Skip becomes Seek)
			{"gen:" + b.name + ".Decode[seekable]", func(msg []byte) int {
				cr := &chunk.Reader{B: msg}
				cellutil.DecodeStream(ent.Type, chunk.Seekable{Reader: cr})
				return cr.Reads
			}},
		}
	}
	bs := append(bases(!w.Quick()), cb...)
	w.Count("base_messages", 0)
	w.Count("cell_base_messages", int64(len(cb)))
	// classes (api,pos) already seen violating at a survivable magnitude: do
	// not escalate to 2^31-1 there.
	bad := map[string]bool{}
	var ms runtime.MemStats
	for bi, b := range bs {
		if w.Shard == 0 {
			w.Count("base_messages", 1)
		}
		retyped := len(b.apis) == 2 && b.apis[1] == "retyped"
		for off := 0; off+4 <= len(b.msg); off++ {
			if retyped && off != b.marks[0].Off {
				continue
			}
			kind, real := posKind(b.marks, off)
			mags := magnitudes
			if !strings.HasPrefix(b.name, "cell:") {
				mags = append(append([]uint32{}, magnitudes...), negMagnitudes...)
			}
			for _, mag := range mags {
				if !w.Own() {
					continue
				}
				if w.Expired() {
					w.Cap("time budget reached before all (message, offset, magnitude) cases were run")
					return
				}
				if mag >= 0xfffffff0 {
					w.Count("small_negative_length_cases", 1)
				}
				msg := append([]byte{}, b.msg...)
				msg[off], msg[off+1], msg[off+2], msg[off+3] = byte(mag>>24), byte(mag>>16), byte(mag>>8), byte(mag)
				kind := kind
				if strings.HasPrefix(b.name, "bare:") || strings.HasPrefix(b.name, "cell:") {
					// name the header that actually declares the large value in the mutated
					// message (a window that overlaps a length field shifts bytes into it)
					if v, k := tbin.LargestDeclared(tbin.Struct, msg); v >= 1<<16 && k != "" {
						kind = k
						if retyped {
							kind = "retyped-" + k
						}
					}
				}
				w.Eval(1)
				if real {
					w.Nontrivial(1)
				}
				if w.WantSample() && real && (bi*31+off)%17 == 0 {
					w.Sample(map[string]interface{}{"base": b.name, "offset": off, "pos": kind, "value": mag, "msg": hex.EncodeToString(msg)})
				}
				list := apis
				if strings.HasPrefix(b.name, "cell:") {
					list = cellAPIs(b)
				}
				for _, a := range list {
					if !strings.HasPrefix(b.name, "cell:") && !applicable(b, a.name) {
						continue
					}
					w.Progress(fmt.Sprintf("api=%s pos=%s base=%s off=%d value=%d msg=%s", a.name, kind, b.name, off, mag, hex.EncodeToString(msg)))
					one(w, a, msg, kind, off, mag, &ms, bad)
				}
				w.Done()
			}
		}
	}
}

// apiClass collapses the per-type generated API names into the two decoding
// paths of generated code, so that signatures name the call site class.
func apiClass(name string) string {
	if strings.HasPrefix(name, "gen:") {
		if strings.HasSuffix(name, ".Decode") {
			return "generated.Decode(stream)"
		}
		if strings.HasSuffix(name, ".Decode[seekable]") {
			// (one class with the plain stream: what a generated decoder allocates or
			// loops over does not depend on the reader; the detail names the reader)
			return "generated.Decode(stream)"
		}
		return "generated.FromWire(Decode)"
	}
	return name
}

func measure(a apiFn, msg []byte, ms *runtime.MemStats) (delta uint64, reads int, pan interface{}) {
	runtime.ReadMemStats(ms)
	before := ms.TotalAlloc
	c0 := cpuSeconds()
	func() {
		defer func() { pan = recover() }()
		reads = a.run(msg)
	}()
	lastCPU = cpuSeconds() - c0
	runtime.ReadMemStats(ms)
	return ms.TotalAlloc - before, reads, pan
}

// lastCPU is the processor time (user+system, this process; workers run with
// GOMAXPROCS=1) the last measured call took. Work that never touches the reader
// (a loop over a declared count that "skips" by arithmetic or by seeking) shows up
// only here. The bound is three seconds for messages of a few dozen bytes, whose
// decoding takes microseconds: processor time, not wall-clock time, so machine load
// cannot produce it.
var lastCPU float64

const cpuBound = 3.0

func cpuSeconds() float64 {
	var ru syscall.Rusage
	if syscall.Getrusage(syscall.RUSAGE_SELF, &ru) != nil {
		return 0
	}
	return float64(ru.Utime.Sec) + float64(ru.Utime.Usec)/1e6 + float64(ru.Stime.Sec) + float64(ru.Stime.Usec)/1e6
}

// violCount counts violations per (api class, position kind) in this worker:
// after three instances the class is established and further large
// magnitudes there are skipped (each costs hundreds of MiB of allocation).
var violCount = map[string]int{}

func one(w *ev.W, a apiFn, msg []byte, kind string, off int, mag uint32, ms *runtime.MemStats, bad map[string]bool) {
	n := uint64(len(msg))
	if ck := apiClass(a.name) + "|" + kind; violCount[ck] >= 3 && mag >= survivable {
		w.Count("large_magnitudes_skipped_for_established_violating_class", 1)
		return
	}
	if mag > survivable && !bad[a.name+"|"+kind] {
		// probe the same window at 2^24 first: a class that already exceeds
		// the bound there is not escalated (it would only kill the worker)
		probe := append([]byte{}, msg...)
		probe[off], probe[off+1], probe[off+2], probe[off+3] = 1, 0, 0, 0
		if d, _, _ := measure(a, probe, ms); d > allocK+allocC*n {
			bad[a.name+"|"+kind] = true
			if d > 256<<20 {
				runtime.GC()
			}
		}
	}
	if mag > survivable && bad[a.name+"|"+kind] {
		w.Count("escalations_skipped_for_already_violating_class", 1)
		return
	}
	delta, reads, pan := measure(a, msg, ms)
	w.Count("calls", 1)
	pl := payload{API: a.name, Msg: hex.EncodeToString(msg), Pos: kind, Off: off, Value: mag}
	if pan != nil {
		// totality is C03's business; recorded as a note here
		w.Note(fmt.Sprintf("panic in %s on %s: %v (C03 owns totality)", a.name, pl.Msg, pan))
	}
	if delta > allocK+allocC*n {
		bad[a.name+"|"+kind] = true
		violCount[apiClass(a.name)+"|"+kind]++
		w.Violation("cost:api="+apiClass(a.name)+":pos="+kind, fmt.Sprintf("%s allocated %d bytes for a %d-byte message (bound %d): 4 bytes at offset %d (%s) set to %d; msg=%s",
			a.name, delta, n, allocK+allocC*n, off, kind, mag, pl.Msg), pl)
		w.Outcome("alloc-exceeded")
		if delta > 256<<20 {
			runtime.GC()
		}
	} else {
		w.Outcome("within-bounds")
	}
	if lastCPU > cpuBound && delta <= allocK+allocC*n {
		// (when the allocation bound is exceeded as well, the time went into that allocation: one defect, reported above)
		bad[a.name+"|"+kind] = true
		violCount[apiClass(a.name)+"|"+kind]++
		w.Violation("cpu:api="+apiClass(a.name)+":pos="+kind, fmt.Sprintf("%s used %.1f s of processor time on a %d-byte message (bound %.0f s): 4 bytes at offset %d (%s) set to %d; msg=%s",
			a.name, lastCPU, n, cpuBound, off, kind, mag, pl.Msg), pl)
	}
	if uint64(reads) > 16+4*n {
		w.Violation("reads:api="+apiClass(a.name)+":pos="+kind, fmt.Sprintf("%s made %d reader calls for a %d-byte message; msg=%s", a.name, reads, n, pl.Msg), pl)
	}
}

func replay(w *ev.W, path string) {
	raw, err := os.ReadFile(path)
	if err != nil {
		w.Note(err.Error())
		return
	}
	var f struct {
		First struct {
			Replay payload `json:"replay"`
		} `json:"first"`
	}
	json.Unmarshal(raw, &f)
	p := f.First.Replay
	msg, _ := hex.DecodeString(p.Msg)
	var ms runtime.MemStats
	for _, a := range apis {
		if a.name == p.API {
			w.Eval(1)
			w.Sample(p)
			one(w, a, msg, p.Pos, p.Off, p.Value, &ms, map[string]bool{})
		}
	}
}

var _ = io.EOF
