// Package c08: compiler and generator terminate with a result or an error on
// every input (DESIGN.md §3 C08).
package c08

import (
	"encoding/json"
	"fmt"
	"os"
	"path/filepath"
	"regexp"
	"sort"
	"strings"
	"time"

	"go.uber.org/thriftrw/compile"
	"go.uber.org/thriftrw/gen"
	"verif/bridge/memfs"
	"verif/engine/ev"
)

// Check is the registered check.
var Check = &ev.Check{
	ID:    "C08",
	Level: "exploration",
	Rule: "(a) every reference cycle of length 1..3 (thorough: plus length 4 over the 8 core kinds) over 21 node kinds (typedef direct/list/set/map-key/map-value, struct optional/required/list field, union, exception, " +
		"const i32/i64/list/map/struct-literal, struct field default -> const, default = {} / [{}] literal of a struct type, default = constant of the own struct type, const of a struct type, service extends; cycles of length<=2 also reached through 9 kinds of entry definition in a separate root file (constant, typedef, typedef chains of 2 and 3, struct default, service, constant / default / map key of an alias)) including mixed and ill-kinded ones, each in a single file and in one file per node (cyclic / self includes); " +
		"(a2) every annotation the generator reads {go.name, go.label, go.tag, go.type, go.redact, go.nolog, go.package, an unknown key} x 14 values (empty, lower/upper case, underscore, digit, blank, quote, keyword, non-ASCII, ...) and without value, on 11 kinds of annotatable node; (b) every token sequence of length<=4 (quick) / <=5 (thorough) over a reduced 24-token alphabet and <=3 / <=4 over the full 61-token alphabet, every byte string of length<=2 over 256 values; " +
		"(c) every single-token deletion, duplication, substitution (11 substitutes, among them the empty string literal) and insertion of 10 comment / docstring shapes before every definition keyword of each corpus file (plugin/api.thrift and gen/internal/tests/thrift/*.thrift; quick: files <= 400 tokens, thorough: all files, budget-capped). " +
		"Each input runs compile.Compile and, if it compiled, gen.Generate in a memory-limited worker process; a panic, fatal error (stack overflow) or hang is attributed to the input. Cases are distinct inputs by construction; non-trivial = every case.",
	Run: run,
	Budget: func(t string) time.Duration {
		return map[string]time.Duration{"quick": 4 * time.Minute, "thorough": 25 * time.Minute}[t]
	},
	CaseDeadline: 45 * time.Second,
	MemLimitKB:   6 << 20,
	CrashSig: func(kind, desc, stderr string) (string, bool) {
		f := strings.Fields(desc)
		cls := "?"
		if len(f) > 0 {
			cls = sigClass(f[0])
		}
		where := ""
		if strings.Contains(stderr, "stack overflow") || strings.Contains(stderr, "stack exceeds") {
			where = ":stack-overflow"
		}
		return kind + where + ":" + cls, true
	},
	Assumptions: []string{"stack exhaustion by ~10^7 nesting levels and inputs beyond the stated bounds are out of reach"},
}

// sigClass reduces an input class to a signature class: for cycles the
// layout plus the set of node kinds involved.
func sigClass(c string) string {
	if !strings.HasPrefix(c, "cycle:") {
		return c
	}
	p := strings.SplitN(c, ":", 3)
	if len(p) < 3 {
		return c
	}
	if i := strings.Index(p[1], "+"); i >= 0 {
		p[1] = p[1][:i] // drop the layout, keep the entry kind
	} else {
		p[1] = ""
	}
	set := map[string]bool{}
	if p[1] != "" {
		set[p[1]] = true
	}
	for _, k := range strings.Split(p[2], ">") {
		set[k] = true
	}
	ks := make([]string, 0, len(set))
	for k := range set {
		ks = append(ks, k)
	}
	sort.Strings(ks)
	return "cycle:" + strings.Join(ks, "+")
}

type input struct {
	Class string            `json:"class"`
	Files map[string]string `json:"files"`
	Root  string            `json:"root"`
}

type runner struct {
	w   *ev.W
	out string
	n   int
}

func (r *runner) one(in input) {
	w := r.w
	w.Eval(1)
	w.Nontrivial(1)
	fs := memfs.FS{}
	for k, v := range in.Files {
		fs["/m/"+k] = v
	}
	var m *compile.Module
	var err error
	var pan interface{}
	func() {
		defer func() { pan = recover() }()
		m, err = compile.Compile("/m/"+in.Root, compile.Filesystem(fs))
	}()
	if pan != nil {
		w.Violation("panic:compile:"+sigClass(in.Class), fmt.Sprintf("compile.Compile panicked: %v on %v", pan, in.Files), in)
		return
	}
	if err != nil {
		if strings.TrimSpace(err.Error()) == "" {
			w.Violation("empty-error:compile:"+in.Class, fmt.Sprintf("compile returned an error with an empty description on %v", in.Files), in)
		}
		w.Outcome("compile-error")
		return
	}
	if m == nil {
		w.Violation("nil-module:"+in.Class, fmt.Sprintf("compile returned neither module nor error on %v", in.Files), in)
		return
	}
	r.n++
	if r.n%200 == 0 {
		os.RemoveAll(r.out)
	}
	func() {
		defer func() { pan = recover() }()
		err = gen.Generate(m, &gen.Options{OutputDir: r.out, PackagePrefix: "x/y", ThriftRoot: "/m", NoVersionCheck: true})
	}()
	if pan != nil {
		w.Violation("panic:generate:"+sigClass(in.Class), fmt.Sprintf("gen.Generate panicked: %v on %v", pan, in.Files), in)
		return
	}
	if err != nil {
		w.Outcome("generate-error")
		return
	}
	w.Outcome("generated")
}

// ---- family (a): cycles

type kind struct {
	name string
	// def renders the definition of node i referencing names of node j.
	// T(n) / C(n) / V(n) give the (possibly include-qualified) type, const and
	// service names of node n.
	def func(i int, T, C, V string) string
}

var kinds = []kind{
	{"typedef", func(i int, T, C, V string) string { return fmt.Sprintf("typedef %s T%d", T, i) }},
	{"struct-opt", func(i int, T, C, V string) string { return fmt.Sprintf("struct T%d { 1: optional %s f }", i, T) }},
	{"struct-req", func(i int, T, C, V string) string { return fmt.Sprintf("struct T%d { 1: required %s f }", i, T) }},
	{"typedef-list", func(i int, T, C, V string) string { return fmt.Sprintf("typedef list<%s> T%d", T, i) }},
	{"const-i32", func(i int, T, C, V string) string { return fmt.Sprintf("const i32 C%d = %s", i, C) }},
	{"const-list", func(i int, T, C, V string) string { return fmt.Sprintf("const list<i32> C%d = [%s]", i, C) }},
	{"struct-default", func(i int, T, C, V string) string {
		return fmt.Sprintf("struct T%d { 1: optional i32 x = %s }\nconst T%d C%d = {\"x\": %s}", i, C, i, i, C)
	}},
	{"service", func(i int, T, C, V string) string {
		return fmt.Sprintf("service V%d extends %s { %s f(1: %s a) }", i, V, "void", "i32")
	}},
	// beyond the core 8
	{"typedef-set", func(i int, T, C, V string) string { return fmt.Sprintf("typedef set<%s> T%d", T, i) }},
	{"typedef-mapk", func(i int, T, C, V string) string { return fmt.Sprintf("typedef map<%s, string> T%d", T, i) }},
	{"typedef-mapv", func(i int, T, C, V string) string { return fmt.Sprintf("typedef map<string, %s> T%d", T, i) }},
	{"struct-list", func(i int, T, C, V string) string { return fmt.Sprintf("struct T%d { 1: optional list<%s> f }", i, T) }},
	{"union", func(i int, T, C, V string) string { return fmt.Sprintf("union T%d { 1: %s f }", i, T) }},
	{"exception", func(i int, T, C, V string) string { return fmt.Sprintf("exception T%d { 1: optional %s f }", i, T) }},
	{"const-i64", func(i int, T, C, V string) string { return fmt.Sprintf("const i64 C%d = %s", i, C) }},
	{"const-map", func(i int, T, C, V string) string {
		return fmt.Sprintf("const map<string, i32> C%d = {\"k\": %s}", i, C)
	}},
	{"const-of-type", func(i int, T, C, V string) string { return fmt.Sprintf("const %s C%d = {\"x\": %s}", T, i, C) }},
	{"struct-default-literal", func(i int, T, C, V string) string {
		return fmt.Sprintf("struct T%d { 1: optional i32 n; 2: optional %s nxt = {} }", i, T)
	}},
	{"struct-default-own-const", func(i int, T, C, V string) string {
		return fmt.Sprintf("struct T%d { 1: optional i32 n; 2: optional %s nxt = %s }\nconst T%d C%d = {\"n\": 1}", i, T, C, i, i)
	}},
	{"struct-default-list-literal", func(i int, T, C, V string) string {
		return fmt.Sprintf("struct T%d { 1: optional list<%s> xs = [{}] }", i, T)
	}},
	{"service-fn-type", func(i int, T, C, V string) string {
		return fmt.Sprintf("service V%d extends %s { %s f(1: %s a = %s) }", i, V, T, T, C)
	}},
}

// entries are optional extra definitions outside the cycle, placed in a root
// file of their own, through which the cycle is first reached.
var entries = []struct {
	name string
	def  func(T, C, V string) string
}{
	{"none", nil},
	{"entry-const-i32", func(T, C, V string) string { return "const i32 ENTRY = " + C }},
	{"entry-typedef", func(T, C, V string) string { return "typedef " + T + " ENTRY" }},
	{"entry-struct-default", func(T, C, V string) string { return "struct ENTRY { 1: optional " + T + " f = " + C + " }" }},
	{"entry-service", func(T, C, V string) string { return "service ENTRY extends " + V + " {}" }},
	// longer tails into the cycle, and values cast to a type on the tail
	{"entry-typedef-chain2", func(T, C, V string) string { return "typedef " + T + " INNER\ntypedef INNER ENTRY" }},
	{"entry-typedef-chain3", func(T, C, V string) string {
		return "typedef " + T + " INNER\ntypedef INNER MIDDLE\ntypedef MIDDLE ENTRY\nstruct USER { 1: optional ENTRY f; 2: optional list<MIDDLE> g }"
	}},
	{"entry-const-of-alias", func(T, C, V string) string { return "typedef " + T + " ALIAS\nconst ALIAS ENTRY = 1" }},
	{"entry-default-of-alias", func(T, C, V string) string {
		return "typedef " + T + " ALIAS\nstruct ENTRY { 1: optional ALIAS f = 1; 2: optional list<ALIAS> g = [{}]; 3: optional ALIAS h = {} }"
	}},
	{"entry-map-key-of-alias", func(T, C, V string) string { return "typedef " + T + " ALIAS\nconst map<ALIAS, ALIAS> ENTRY = {1: 2}" }},
}

func cycleInputEntry(ks []int, perFile bool, entry int) input {
	in := cycleInput(ks, perFile)
	if entry == 0 {
		return in
	}
	e := entries[entry]
	in.Files["root.thrift"] = "include \"./f0.thrift\"\n" + e.def("f0.T0", "f0.C0", "f0.V0") + "\n"
	in.Root = "root.thrift"
	in.Class = strings.Replace(in.Class, "cycle:", "cycle:"+e.name+"+", 1)
	return in
}

func cycleInput(ks []int, perFile bool) input {
	k := len(ks)
	in := input{Files: map[string]string{}, Root: "f0.thrift"}
	names := make([]string, k)
	for i, x := range ks {
		names[i] = kinds[x].name
	}
	layout := "onefile"
	if perFile {
		layout = "perfile"
	}
	in.Class = fmt.Sprintf("cycle:%s:%s", layout, strings.Join(names, ">"))
	var one strings.Builder
	for i, x := range ks {
		j := (i + 1) % k
		if perFile {
			q := fmt.Sprintf("f%d.", j)
			src := fmt.Sprintf("include \"./f%d.thrift\"\n%s\n", j, kinds[x].def(i, q+fmt.Sprintf("T%d", j), q+fmt.Sprintf("C%d", j), q+fmt.Sprintf("V%d", j)))
			in.Files[fmt.Sprintf("f%d.thrift", i)] = src
		} else {
			one.WriteString(kinds[x].def(i, fmt.Sprintf("T%d", j), fmt.Sprintf("C%d", j), fmt.Sprintf("V%d", j)))
			one.WriteString("\n")
		}
	}
	if !perFile {
		in.Files["f0.thrift"] = one.String()
	}
	return in
}

func cycles(quick bool, yield func(input)) {
	n := len(kinds)
	for _, perFile := range []bool{false, true} {
		for e := range entries {
			for a := 0; a < n; a++ {
				yield(cycleInputEntry([]int{a}, perFile, e))
			}
			for a := 0; a < n; a++ {
				for b := 0; b < n; b++ {
					yield(cycleInputEntry([]int{a, b}, perFile, e))
				}
			}
		}
		for a := 0; a < n; a++ {
			for b := 0; b < n; b++ {
				for c := 0; c < n; c++ {
					yield(cycleInput([]int{a, b, c}, perFile))
				}
			}
		}
		if quick {
			continue
		}
		for a := 0; a < 8; a++ {
			for b := 0; b < 8; b++ {
				for c := 0; c < 8; c++ {
					for d := 0; d < 8; d++ {
						yield(cycleInput([]int{a, b, c, d}, perFile))
					}
				}
			}
		}
	}
}

// ---- family (d): name collisions. Every loop that picks a fresh name (mangled
// helper names for same-named types of different files, import aliases for
// same-named files) must terminate: k = 1..5 included files define one name, the
// root optionally defines it too and uses every one of them in a field, a list, a
// set, a map value or a map key; and k = 2..5 files share one base name in
// different directories.
func collisions(yield func(input)) {
	kinds := map[string]string{
		"struct":  "struct Item { 1: optional i32 a }\n",
		"enum":    "enum Item { A, B }\n",
		"typedef": "typedef i32 Item\n",
		"mixed":   "",
	}
	mixed := []string{"struct", "enum", "typedef"}
	uses := []string{"field", "list", "set", "map-value", "map-key"}
	for _, kind := range []string{"struct", "enum", "typedef", "mixed"} {
		for k := 1; k <= 5; k++ {
			for _, rootHas := range []bool{false, true} {
				for _, use := range uses {
					files := map[string]string{}
					var root strings.Builder
					for i := 1; i <= k; i++ {
						fmt.Fprintf(&root, "include \"./f%d.thrift\"\n", i)
						kd := kind
						if kind == "mixed" {
							kd = mixed[i%3]
						}
						files[fmt.Sprintf("f%d.thrift", i)] = kinds[kd]
					}
					if rootHas {
						root.WriteString(kinds["struct"])
					}
					root.WriteString("struct Holder {\n")
					id := 1
					emit := func(ref string) {
						t := ref
						switch use {
						case "list":
							t = "list<" + ref + ">"
						case "set":
							t = "set<" + ref + ">"
						case "map-value":
							t = "map<string, " + ref + ">"
						case "map-key":
							t = "map<" + ref + ", string>"
						}
						fmt.Fprintf(&root, "  %d: optional %s v%d\n", id, t, id)
						id++
					}
					for i := 1; i <= k; i++ {
						emit(fmt.Sprintf("f%d.Item", i))
					}
					if rootHas {
						emit("Item")
					}
					root.WriteString("}\n")
					files["root.thrift"] = root.String()
					yield(input{Class: fmt.Sprintf("collide:type:%s:k%d:root%v:%s", kind, k, rootHas, use), Root: "root.thrift", Files: files})
				}
			}
		}
	}
	for k := 2; k <= 5; k++ {
		for _, sameType := range []bool{false, true} {
			files := map[string]string{}
			var root strings.Builder
			for i := 1; i <= k; i++ {
				fmt.Fprintf(&root, "include \"./d%d/x.thrift\"\n", i)
			}
			// an include name must be unique in the including file, so same-named files are reached through one hop each
			root.Reset()
			for i := 1; i <= k; i++ {
				fmt.Fprintf(&root, "include \"./h%d.thrift\"\n", i)
				tn := fmt.Sprintf("T%d", i)
				if sameType {
					tn = "T"
				}
				files[fmt.Sprintf("d%d/x.thrift", i)] = fmt.Sprintf("struct %s { 1: optional i32 a }\n", tn)
				files[fmt.Sprintf("h%d.thrift", i)] = fmt.Sprintf("include \"./d%d/x.thrift\"\nstruct H%d { 1: optional x.%s a; 2: optional list<x.%s> b }\n", i, i, tn, tn)
			}
			root.WriteString("struct Holder {\n")
			for i := 1; i <= k; i++ {
				fmt.Fprintf(&root, "  %d: optional h%d.H%d v%d\n", i, i, i, i)
			}
			root.WriteString("}\n")
			files["root.thrift"] = root.String()
			yield(input{Class: fmt.Sprintf("collide:file:k%d:sametype%v", k, sameType), Root: "root.thrift", Files: files})
		}
	}
}

// ---- family (b): token strings

var fullTokens = []string{
	"include", "cpp_include", "namespace", "void", "bool", "byte", "i8", "i16", "i32", "i64", "double", "string", "binary",
	"map", "list", "set", "oneway", "typedef", "struct", "union", "exception", "extends", "throws", "service", "enum", "const",
	"required", "optional", "true", "false",
	"{", "}", "(", ")", "[", "]", "<", ">", ",", ";", ":", "=", "*", ".",
	"a", "a.b", "class", "1", "-1", "0x1f", "1.5", "\"s\"", "'s'", "\"s", "'", "#", "//", "/*", "/**", "*/", "\n",
}

var coreTokens = []string{
	"include", "typedef", "struct", "service", "enum", "const", "extends", "throws", "optional", "i32", "list", "map",
	"{", "}", "(", ")", "<", ">", ",", ":", "=", "a", "1", "\"s\"",
}

// annotated: every annotation the generator reads, with every value of a small hostile
// alphabet, on every kind of annotatable node.
func annotated(yield func(input)) {
	keys := []string{"go.name", "go.label", "go.tag", "go.type", "go.redact", "go.nolog", "go.package", "unknown.key"}
	values := []string{"", "A", "a", "A_b", "9", "A B", "\\\"", "type", "slice", "json:\\\"x\\\"", "json:", "\\n", "Éa", "-"}
	sites := map[string]string{
		"struct":    "struct S { 1: optional i32 a } (@)\n",
		"union":     "union S { 1: i32 a } (@)\n",
		"exception": "exception S { 1: optional i32 a } (@)\n",
		"field":     "struct S { 1: optional i32 a (@); 2: optional set<string> b (@) }\n",
		"required":  "exception S { 1: required string a (@) }\n",
		"enum":      "enum S { A, B } (@)\n",
		"item":      "enum S { A (@), B }\n",
		"typedef":   "typedef set<i32> (@) S (@)\nstruct T { 1: optional S s }\n",
		"service":   "service S { void f(1: i32 a (@)) (@) } (@)\n",
		"const":     "const i32 S = 1 (@)\n",
		"twice":     "struct S { 1: optional i32 a (@); 2: optional i32 b (@) }\n",
	}
	var names []string
	for n := range sites {
		names = append(names, n)
	}
	sort.Strings(names)
	for _, site := range names {
		for _, k := range keys {
			for _, v := range values {
				ann := fmt.Sprintf("%s = \"%s\"", k, v)
				yield(input{Class: "annotation:" + site + ":" + k, Root: "a.thrift", Files: map[string]string{"a.thrift": strings.ReplaceAll(sites[site], "@", ann)}})
			}
			// the annotation without a value
			yield(input{Class: "annotation:" + site + ":" + k, Root: "a.thrift", Files: map[string]string{"a.thrift": strings.ReplaceAll(sites[site], "@", k)}})
		}
	}
}

func tokenStrings(alpha []string, maxLen int, yield func([]string)) {
	for l := 0; l <= maxLen; l++ {
		idx := make([]int, l)
		for {
			toks := make([]string, l)
			for i := range idx {
				toks[i] = alpha[idx[i]]
			}
			yield(toks)
			k := l - 1
			for k >= 0 {
				idx[k]++
				if idx[k] < len(alpha) {
					break
				}
				idx[k] = 0
				k--
			}
			if k < 0 {
				break
			}
		}
	}
}

// ---- family (c): token mutations of a corpus

var tokenRE = regexp.MustCompile(`(?s)/\*.*?\*/|//[^\n]*|#[^\n]*|"(?:[^"\\\n]|\\.)*"|'(?:[^'\\\n]|\\.)*'|[A-Za-z_][A-Za-z0-9_.]*|[-+]?[0-9][0-9A-Za-z.+-]*|\s+|.`)

// inserts: comment and docstring shapes placed before every token (empty and blank
// docstrings, the shortest comment forms, unterminated ones)
var inserts = []string{"/**\n */", "/**\n\n*/", "/** */", "/***/", "/**/", "/**\n *\n */", "//\n", "#\n", "/**", "/*"}

// docAnchors: the tokens a docstring attaches to.
var docAnchors = map[string]bool{"struct": true, "union": true, "exception": true, "enum": true, "service": true, "const": true, "typedef": true, "include": true, "namespace": true, "oneway": true, "void": true}

var substitutes = []string{"{", "}", "(", ",", "=", "<", "1", "a", "struct", "\"s\"", "\"\""}

func corpus() map[string]string {
	out := map[string]string{}
	add := func(pattern string) {
		fs, _ := filepath.Glob(pattern)
		for _, f := range fs {
			b, err := os.ReadFile(f)
			if err == nil {
				out[filepath.Base(f)] = string(b)
			}
		}
	}
	add("/repo/gen/internal/tests/thrift/*.thrift")
	add("/repo/plugin/api.thrift")
	return out
}

func run(w *ev.W) {
	out, err := os.MkdirTemp(w.WorkDir, "gen")
	if err != nil {
		w.Note("mkdtemp: " + err.Error())
		return
	}
	defer os.RemoveAll(out)
	r := &runner{w: w, out: out}
	if rp := w.Args["replay"]; rp != "" {
		raw, _ := os.ReadFile(rp)
		var f struct {
			First struct {
				Replay input `json:"replay"`
			} `json:"first"`
		}
		json.Unmarshal(raw, &f)
		if f.First.Replay.Files != nil {
			w.Progress("replay")
			r.one(f.First.Replay)
		}
		return
	}
	stop := false
	tick := 0
	do := func(in func() input, class string) {
		if stop || !w.Own() {
			return
		}
		tick++
		if tick&63 == 0 && w.Expired() {
			w.Cap("time budget reached; families run in the order cycles, token strings, bytes, corpus mutations")
			stop = true
			return
		}
		x := in()
		if w.WantSample() && tick%701 == 1 {
			w.Sample(x)
		}
		b, _ := json.Marshal(x.Files)
		w.Progress(x.Class + " " + string(b))
		r.one(x)
		w.Count("family:"+class, 1)
		w.Done()
	}
	cycles(w.Quick(), func(in input) { do(func() input { return in }, "cycles") })
	collisions(func(in input) { do(func() input { return in }, "name-collisions") })
	annotated(func(in input) { do(func() input { return in }, "annotations") })

	tokFam := func(alpha []string, n int, name string) {
		tokenStrings(alpha, n, func(toks []string) {
			do(func() input {
				return input{Class: "tokens", Root: "a.thrift", Files: map[string]string{"a.thrift": strings.Join(toks, " ")}}
			}, name)
		})
	}
	if w.Quick() {
		tokFam(coreTokens, 4, "tokens-core<=4")
		tokFam(fullTokens, 3, "tokens-full<=3")
	} else {
		tokFam(coreTokens, 5, "tokens-core<=5")
		tokFam(fullTokens, 4, "tokens-full<=4")
	}
	for l := 0; l <= 2; l++ {
		n := 1
		for i := 0; i < l; i++ {
			n *= 256
		}
		for x := 0; x < n; x++ {
			b := make([]byte, l)
			y := x
			for i := l - 1; i >= 0; i-- {
				b[i] = byte(y)
				y >>= 8
			}
			do(func() input {
				return input{Class: "bytes", Root: "a.thrift", Files: map[string]string{"a.thrift": string(b)}}
			}, "bytes<=2")
		}
	}
	// corpus mutations
	cp := corpus()
	names := make([]string, 0, len(cp))
	for k := range cp {
		names = append(names, k)
	}
	sort.Strings(names)
	for _, name := range names {
		toks := tokenRE.FindAllString(cp[name], -1)
		var sig []int // indices of non-whitespace tokens
		for i, t := range toks {
			if strings.TrimSpace(t) != "" {
				sig = append(sig, i)
			}
		}
		if w.Quick() && len(sig) > 400 {
			continue
		}
		mutate := func(class string, build func() []string) {
			do(func() input {
				files := map[string]string{}
				for k, v := range cp {
					files[k] = v
				}
				files[name] = strings.Join(build(), "")
				return input{Class: "corpus:" + class, Root: name, Files: files}
			}, "corpus")
		}
		for _, i := range sig {
			i := i
			mutate("delete", func() []string {
				t := append([]string{}, toks[:i]...)
				return append(t, toks[i+1:]...)
			})
			mutate("duplicate", func() []string {
				t := append([]string{}, toks[:i+1]...)
				t = append(t, " ", toks[i])
				return append(t, toks[i+1:]...)
			})
			for _, s := range inserts {
				s := s
				if !docAnchors[toks[i]] {
					continue // (comments elsewhere leave the program valid: each costs a full generation and adds nothing)
				}
				mutate("insert", func() []string {
					t := append([]string{}, toks[:i]...)
					t = append(t, s, " ")
					return append(t, toks[i:]...)
				})
			}
			for _, s := range substitutes {
				s := s
				if toks[i] == s {
					continue
				}
				mutate("substitute", func() []string {
					t := append([]string{}, toks...)
					t[i] = s
					return t
				})
			}
		}
	}
}
