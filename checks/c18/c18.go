// Package c18: concurrent use of the codec and framed client is safe and
// isolated (DESIGN.md §3 C18). Built with the E3 sync overlay: sync.Mutex /
// WaitGroup / Pool, go.uber.org/atomic and `go` statements of protocol/binary,
// internal/frame, internal/plugin and internal/concurrent run on the E2
// cooperative scheduler, so every interleaving and every sync.Pool answer is
// an explorer choice.
package c18

import (
	"bytes"
	"context"
	"encoding/hex"
	"fmt"
	"hash/fnv"
	"io"
	"sort"
	"strings"
	"sync"
	"time"

	"go.uber.org/thriftrw/plugin/api"
	"go.uber.org/thriftrw/protocol/binary"
	"go.uber.org/thriftrw/protocol/stream"
	"go.uber.org/thriftrw/verifhook"
	"go.uber.org/thriftrw/verifshim/vio"
	"go.uber.org/thriftrw/verifshim/vsched"
	"go.uber.org/thriftrw/verifshim/vsync"
	"go.uber.org/thriftrw/wire"
	"verif/bridge/wirex"
	"verif/engine/choice"
	"verif/engine/ev"
	"verif/ref/tbin"
)

// Check is the registered check.
var Check = &ev.Check{
	ID:    "C18",
	Level: "model_checking",
	Rule: "scenarios: (codec) every unordered pair (thorough: also triples over the core ops) of operations from a 22-operation alphabet {a request of the wrong envelope type (rejected), Encode (also into a destination that breaks after 5 bytes), stream write into one that breaks after 9, stream walk of a source that breaks, stream walk / Decode of a struct holding a binary above the 1 MiB threshold followed by more fields, Decode+materialise, Decode+EvaluateValue, EncodeEnveloped, DecodeEnveloped, DecodeRequest+EncodeResponse, " +
		"ReadRequest+WriteResponse (decoding and field-skipping body, one-byte empty request), DecodeRequest of the one-byte empty request, stream primitive walk, generated ToWire->Encode, Decode->FromWire, generated stream Encode / Decode} on distinct values, one per thread; " +
		"(sequential) every ordered pair run back to back on one thread; (frame) K in {2,3} concurrent Sends with distinct payloads on one frame.Client against an echo frame.Server; (fanout) MultiServiceGenerator.Generate over 2..3 generators with disjoint and overlapping files. " +
		"schedules: all interleavings at scheduling points (every shim mutex/waitgroup/atomic/pool operation and every harness Read/Write/ReadAt) with at most 2 preemptions, and every sync.Pool.Get answer (fresh object or any pooled one; non-default answers count as deviations, total deviation bound 2). " +
		"A state is a node of the choice tree; a transition is one scheduler or pool decision; every execution runs the real code. Oracle: each operation's result equals its result when run alone; each Send(p) returns echo(p); merged files = union or the conflict error; no deadlock, no panic. " +
		"Auxiliary (sampling, reported separately as race_pass_* and in the notes): the same operation bodies on real goroutines against the product built without the sync rewrite and with -race (40 / 600 rounds of all pairs plus a rotating third operation, 3 concurrent Sends, 3-way fan-out). " +
		"distinct_nontrivial = scenarios whose exploration contained at least one execution where a thread received a recycled pool object or was preempted.",
	Run:     run,
	Prepare: racePrepare,
	Finish:  raceFinish,
	Workers: func(string) int { return 16 },
	Budget: func(t string) time.Duration {
		return map[string]time.Duration{"quick": 4 * time.Minute, "thorough": 25 * time.Minute}[t]
	},
	Assumptions: []string{
		"a cooperative scheduler cannot see data races between scheduling points or weak-memory effects; the property's 'no data race' clause is covered only to the extent races manifest as wrong results at the explored granularity (a free-running -race pass is auxiliary and not part of this verdict)",
		"scheduling points are the hooked operations (sync, atomic, pool, harness I/O); code between two points runs atomically",
	},
}

// ---- operations

type op struct {
	name string
	run  func() string
}

func hexs(b []byte) string { return hex.EncodeToString(b) }

func errs(err error) string {
	if err == nil {
		return ""
	}
	return " err=" + err.Error()
}

func st(fs ...tbin.Field) tbin.Value       { return tbin.Value{T: tbin.Struct, Fields: fs} }
func fd(id int16, v tbin.Value) tbin.Field { return tbin.Field{ID: id, V: v} }
func bin(s string) tbin.Value              { return tbin.Value{T: tbin.Binary, B: []byte(s)} }
func i32(x int64) tbin.Value               { return tbin.Value{T: tbin.I32, I: x} }

// value k: a struct with a string, a list and a map, distinct per k.
func value(k int) tbin.Value {
	tag := fmt.Sprintf("v%d", k)
	return st(
		fd(1, bin(tag)),
		fd(2, tbin.Value{T: tbin.List, VT: tbin.I32, Items: []tbin.Value{i32(int64(k)), i32(int64(k * 100))}}),
		fd(3, tbin.Value{T: tbin.Map, KT: tbin.Binary, VT: tbin.Binary, Items: []tbin.Value{bin("k" + tag), bin("x" + tag)}}),
		fd(4, tbin.Value{T: tbin.Set, VT: tbin.Struct, Items: []tbin.Value{st(fd(1, i32(int64(k))))}}),
	)
}

func handshake(k int) tbin.Value {
	return st(fd(1, bin(fmt.Sprintf("plug%d", k))), fd(2, i32(4)), fd(3, tbin.Value{T: tbin.List, VT: tbin.I32, Items: []tbin.Value{i32(1)}}), fd(4, bin(fmt.Sprintf("lib%d", k))))
}

type bodyReader struct {
	v    tbin.Value
	skip bool
}

func (b *bodyReader) Decode(sr stream.Reader) error {
	if b.skip {
		if err := sr.ReadStructBegin(); err != nil {
			return err
		}
		for {
			fh, ok, err := sr.ReadFieldBegin()
			if err != nil {
				return err
			}
			if !ok {
				break
			}
			if err := sr.Skip(fh.Type); err != nil {
				return err
			}
			if err := sr.ReadFieldEnd(); err != nil {
				return err
			}
		}
		return sr.ReadStructEnd()
	}
	v, err := wirex.StreamRead(sr, tbin.Struct)
	b.v = v
	return err
}

type enveloper struct{ v tbin.Value }

func (enveloper) MethodName() string              { return "m" }
func (enveloper) EnvelopeType() wire.EnvelopeType { return wire.Reply }
func (e enveloper) Encode(sw stream.Writer) error { return wirex.StreamWrite(sw, e.v) }

func ops(k int) []op {
	v := value(k)
	enc := tbin.Encode(v)
	env := tbin.Envelope{Name: []byte(fmt.Sprintf("svc:m%d", k)), Type: 1, SeqID: int32(k)}
	strict := tbin.EncodeStrict(env, enc)
	legacy := tbin.EncodeLegacy(env, enc)
	hs := handshake(k)
	hsEnc := tbin.Encode(hs)
	return []op{
		{"Encode", func() string {
			var buf bytes.Buffer
			err := binary.Default.Encode(wirex.ToWire(v), vio.YieldWriter{W: &buf})
			return hexs(buf.Bytes()) + errs(err)
		}},
		{"Decode", func() string {
			w, err := binary.Default.Decode(vio.YieldReaderAt{R: bytes.NewReader(enc)}, wire.TStruct)
			if err != nil {
				return errs(err)
			}
			m, ferr := wirex.FromWire(w)
			return m.Key() + errs(ferr)
		}},
		{"Decode+EvaluateValue", func() string {
			w, err := binary.Default.Decode(vio.YieldReaderAt{R: bytes.NewReader(enc)}, wire.TStruct)
			if err != nil {
				return errs(err)
			}
			return "evaluated" + errs(wire.EvaluateValue(w))
		}},
		{"EncodeEnveloped", func() string {
			var buf bytes.Buffer
			err := binary.Default.EncodeEnveloped(wire.Envelope{Name: string(env.Name), Type: wire.Call, SeqID: env.SeqID, Value: wirex.ToWire(v)}, vio.YieldWriter{W: &buf})
			return hexs(buf.Bytes()) + errs(err)
		}},
		{"DecodeEnveloped", func() string {
			e, err := binary.Default.DecodeEnveloped(vio.YieldReaderAt{R: bytes.NewReader(strict)})
			if err != nil {
				return errs(err)
			}
			m, ferr := wirex.FromWire(e.Value)
			return fmt.Sprintf("%s/%d/%d/%s", e.Name, e.Type, e.SeqID, m.Key()) + errs(ferr)
		}},
		{"DecodeRequest", func() string {
			w, resp, err := binary.Default.DecodeRequest(wire.Call, vio.YieldReaderAt{R: bytes.NewReader(legacy)})
			if err != nil {
				return errs(err)
			}
			m, ferr := wirex.FromWire(w)
			var buf bytes.Buffer
			rerr := resp.EncodeResponse(wirex.ToWire(hs), wire.Reply, vio.YieldWriter{W: &buf})
			return m.Key() + errs(ferr) + "|" + hexs(buf.Bytes()) + errs(rerr)
		}},
		{"ReadRequest", func() string {
			br := &bodyReader{}
			rw, err := binary.Default.ReadRequest(context.Background(), wire.Call, vio.YieldReader{R: bytes.NewReader(strict)}, br)
			if err != nil {
				return errs(err)
			}
			var buf bytes.Buffer
			rerr := rw.WriteResponse(wire.Reply, vio.YieldWriter{W: &buf}, enveloper{hs})
			return br.v.Key() + "|" + hexs(buf.Bytes()) + errs(rerr)
		}},
		{"ReadRequest(wrong type)", func() string {
			// a OneWay request where a Call is expected: rejected, and nothing else may change
			ow := tbin.EncodeStrict(tbin.Envelope{Name: env.Name, Type: 4, SeqID: env.SeqID}, enc)
			br := &bodyReader{}
			_, err := binary.Default.ReadRequest(context.Background(), wire.Call, vio.YieldReader{R: bytes.NewReader(ow)}, br)
			return br.v.Key() + errs(err)
		}},
		{"ReadRequest(skip)", func() string {
			br := &bodyReader{skip: true}
			rw, err := binary.Default.ReadRequest(context.Background(), wire.Call, onlyReader{vio.YieldReader{R: bytes.NewReader(legacy)}}, br)
			if err != nil {
				return errs(err)
			}
			var buf bytes.Buffer
			rerr := rw.WriteResponse(wire.Reply, vio.YieldWriter{W: &buf}, enveloper{hs})
			return hexs(buf.Bytes()) + errs(rerr)
		}},
		{"ReadRequest(empty)", func() string {
			// a one-byte message: the bare empty struct
			br := &bodyReader{}
			rw, err := binary.Default.ReadRequest(context.Background(), wire.Call, onlyReader{vio.YieldReader{R: bytes.NewReader([]byte{0})}}, br)
			if err != nil {
				return errs(err)
			}
			var buf bytes.Buffer
			rerr := rw.WriteResponse(wire.Reply, vio.YieldWriter{W: &buf}, enveloper{hs})
			return br.v.Key() + "|" + hexs(buf.Bytes()) + errs(rerr)
		}},
		{"DecodeRequest(empty)", func() string {
			w, resp, err := binary.Default.DecodeRequest(wire.Call, vio.YieldReaderAt{R: bytes.NewReader([]byte{0})})
			if err != nil {
				return errs(err)
			}
			m, ferr := wirex.FromWire(w)
			var buf bytes.Buffer
			rerr := resp.EncodeResponse(wirex.ToWire(hs), wire.Reply, vio.YieldWriter{W: &buf})
			return m.Key() + errs(ferr) + "|" + hexs(buf.Bytes()) + errs(rerr)
		}},
		{"StreamWalk", func() string {
			sr := binary.Default.Reader(onlyReader{vio.YieldReader{R: bytes.NewReader(enc)}})
			m, err := wirex.StreamRead(sr, tbin.Struct)
			sr.Close()
			return m.Key() + errs(err)
		}},
		{"StreamWrite", func() string {
			var buf bytes.Buffer
			sw := binary.Default.Writer(vio.YieldWriter{W: &buf})
			err := wirex.StreamWrite(sw, v)
			sw.Close()
			return hexs(buf.Bytes()) + errs(err)
		}},
		{"gen.ToWire+Encode", func() string {
			name := fmt.Sprintf("lib%d", k)
			x := &api.HandshakeResponse{Name: fmt.Sprintf("plug%d", k), APIVersion: 4, Features: []api.Feature{api.FeatureServiceGenerator}, LibraryVersion: &name}
			w, err := x.ToWire()
			if err != nil {
				return errs(err)
			}
			var buf bytes.Buffer
			err = binary.Default.Encode(w, vio.YieldWriter{W: &buf})
			return hexs(buf.Bytes()) + errs(err)
		}},
		{"gen.Decode+FromWire", func() string {
			w, err := binary.Default.Decode(vio.YieldReaderAt{R: bytes.NewReader(hsEnc)}, wire.TStruct)
			if err != nil {
				return errs(err)
			}
			var x api.HandshakeResponse
			err = x.FromWire(w)
			return x.String() + errs(err)
		}},
		{"gen.Encode(stream)", func() string {
			name := fmt.Sprintf("lib%d", k)
			x := &api.HandshakeResponse{Name: fmt.Sprintf("plug%d", k), APIVersion: 4, Features: []api.Feature{api.FeatureServiceGenerator}, LibraryVersion: &name}
			var buf bytes.Buffer
			sw := binary.Default.Writer(vio.YieldWriter{W: &buf})
			err := x.Encode(sw)
			sw.Close()
			return hexs(buf.Bytes()) + errs(err)
		}},
		{"Encode(failing writer)", func() string {
			// the destination breaks after 5 bytes: this operation fails, and only this one
			fw := &failAfter{limit: 5}
			err := binary.Default.Encode(wirex.ToWire(v), vio.YieldWriter{W: fw})
			return hexs(fw.got) + errs(err)
		}},
		{"StreamWrite(failing writer)", func() string {
			fw := &failAfter{limit: 9}
			sw := binary.Default.Writer(vio.YieldWriter{W: fw})
			err := wirex.StreamWrite(sw, v)
			sw.Close()
			return hexs(fw.got) + errs(err)
		}},
		{"StreamWalk(failing reader)", func() string {
			sr := binary.Default.Reader(onlyReader{vio.YieldReader{R: io.MultiReader(bytes.NewReader(enc[:7]), failReader{})}})
			m, err := wirex.StreamRead(sr, tbin.Struct)
			sr.Close()
			return m.Key() + errs(err)
		}},
		{"StreamWalk(large binary)", func() string {
			// a binary above the 1 MiB allocation threshold followed by more fields: the bytes
			// handed out for it are still the caller's while the rest is read
			sr := binary.Default.Reader(onlyReader{vio.YieldReader{R: bytes.NewReader(largeEnc(k))}})
			m, err := wirex.StreamRead(sr, tbin.Struct)
			sr.Close()
			return digest(m) + errs(err)
		}},
		{"Decode(large binary)", func() string {
			w, err := binary.Default.Decode(vio.YieldReaderAt{R: bytes.NewReader(largeEnc(k))}, wire.TStruct)
			if err != nil {
				return errs(err)
			}
			m, ferr := wirex.FromWire(w)
			return digest(m) + errs(ferr)
		}},
		{"gen.Decode(stream)", func() string {
			sr := binary.Default.Reader(onlyReader{vio.YieldReader{R: bytes.NewReader(hsEnc)}})
			var x api.HandshakeResponse
			err := x.Decode(sr)
			sr.Close()
			return x.String() + errs(err)
		}},
	}
}

// failAfter accepts limit bytes and then fails every write.
type failAfter struct {
	limit int
	got   []byte
}

func (f *failAfter) Write(p []byte) (int, error) {
	if len(f.got)+len(p) > f.limit {
		n := f.limit - len(f.got)
		f.got = append(f.got, p[:n]...)
		return n, fmt.Errorf("destination broke after %d bytes", f.limit)
	}
	f.got = append(f.got, p...)
	return len(p), nil
}

type failReader struct{}

func (failReader) Read([]byte) (int, error) { return 0, fmt.Errorf("source broke") }

var (
	largeEncs  = map[int][]byte{}
	largeEncMu sync.Mutex
)

// largeEnc: struct {1: binary of 1 MiB + 3 + k bytes (content distinct per k), 2: i32 k, 3: binary "tail"}.
func largeEnc(k int) []byte {
	k %= 4 // (the free-running pass uses fresh k every round; four distinct large values are enough)
	largeEncMu.Lock()
	defer largeEncMu.Unlock()
	if b, ok := largeEncs[k]; ok {
		return b
	}
	big := make([]byte, 1<<20+3+k)
	for i := range big {
		big[i] = byte(i*(2*k+3) + k)
	}
	b := tbin.Encode(st(fd(1, tbin.Value{T: tbin.Binary, B: big}), fd(2, i32(int64(k))), fd(3, bin("tail"))))
	largeEncs[k] = b
	return b
}

// digest: a short description of a value whose binaries may be large.
func digest(v tbin.Value) string {
	h := fnv.New64a()
	var walk func(v tbin.Value)
	walk = func(v tbin.Value) {
		fmt.Fprintf(h, "%d/%d/%d:", v.T, v.I, len(v.B))
		h.Write(v.B)
		for _, f := range v.Fields {
			fmt.Fprintf(h, "f%d", f.ID)
			walk(f.V)
		}
		for _, it := range v.Items {
			walk(it)
		}
	}
	walk(v)
	return fmt.Sprintf("digest:%016x", h.Sum64())
}

type onlyReader struct{ r vio.YieldReader }

func (o onlyReader) Read(p []byte) (int, error) { return o.r.Read(p) }

// ---- exploration plumbing

type scenario struct {
	name string
	// bound, when set, overrides the preemption/deviation bound for this scenario (wide
	// fan-outs are run under the canonical schedule plus every single deviation)
	bound *int
	// threads[i] is the list of operations thread i runs in order; expect[i][j]
	// the result of that operation when run alone.
	body   func(results *[]string) func() // returns the main function for the scheduler
	expect []string
	labels []string
}

type outcome struct {
	deadlock, livelock bool
	panicMsg           string
	results            []string
	recycled           int
	preempted          bool
	msg                string
}

func execute(sc *scenario, c *choice.Ctx) outcome {
	vsync.ResetPools()
	var o outcome
	vsync.PoolChooser = func(n int, label string) int {
		if c == nil {
			return 0
		}
		return c.Deviate(n, label)
	}
	results := make([]string, len(sc.expect))
	main := sc.body(&results)
	s := vsched.Run(main, func(d vsched.Decision) int {
		if c == nil {
			return 0
		}
		costs := make([]int, len(d.Enabled))
		if d.RunningEnabled {
			for i := 1; i < len(costs); i++ {
				costs[i] = 1
			}
		}
		ch := c.DeviateCost(costs, "sched:"+d.Label)
		if ch != 0 && d.RunningEnabled {
			o.preempted = true
		}
		return ch
	}, 20000)
	vsync.PoolChooser = nil
	o.deadlock, o.livelock = s.Deadlock, s.Livelock
	o.msg = s.DeadlockMsg
	if s.Panic != nil {
		o.panicMsg = fmt.Sprintf("thread %d: %v", s.PanicThread, s.Panic)
	}
	o.results = results
	o.recycled = vsync.Recycled
	return o
}

type runner struct {
	w     *ev.W
	bound int
}

func vecString(c *choice.Ctx) string {
	var nd []string
	for i, p := range c.Trace {
		if p.Choice != 0 {
			nd = append(nd, fmt.Sprintf("#%d %s=%d/%d", i, p.Label, p.Choice, p.N))
		}
	}
	return strings.Join(nd, "; ")
}

func (r *runner) explore(sc *scenario) {
	w := r.w
	// baseline alone-results are in sc.expect; check the default schedule first
	nontrivial := false
	firstViol := map[string]bool{}
	bound := r.bound
	if sc.bound != nil {
		bound = *sc.bound
	}
	ex := &choice.Explorer{Bound: bound, Stop: w.Expired}
	ex.Body = func(c *choice.Ctx) {
		o := execute(sc, c)
		if o.recycled > 0 || o.preempted {
			nontrivial = true
		}
		if o.recycled > 0 {
			w.Count("executions_with_recycled_pool_object", 1)
		}
		if o.preempted {
			w.Count("executions_with_preemption", 1)
		}
		report := func(class, detail string) {
			sig := class + ":" + sc.name
			if !firstViol[sig] {
				firstViol[sig] = true
			}
			w.Violation(sig, fmt.Sprintf("scenario %s under schedule [%s]: %s", sc.name, vecString(c), detail),
				map[string]interface{}{"scenario": sc.name, "vector": c.Vector(), "labels": c.Labels()})
		}
		switch {
		case o.panicMsg != "":
			report("panic", o.panicMsg+" "+o.msg)
			w.Outcome("panic")
		case o.deadlock:
			report("deadlock", o.msg)
			w.Outcome("deadlock")
		case o.livelock:
			report("livelock", o.msg)
			w.Outcome("livelock")
		default:
			bad := false
			for i := range sc.expect {
				if o.results[i] != sc.expect[i] {
					bad = true
					report("result", fmt.Sprintf("%s returned %.300q, alone it returns %.300q", sc.labels[i], o.results[i], sc.expect[i]))
					break
				}
			}
			if bad {
				w.Outcome("wrong-result")
			} else {
				w.Outcome("as-alone")
			}
		}
	}
	if sc.bound != nil && *sc.bound == 0 {
		// canonical schedule only (free switches at blocking points alone are n! for a fan-out of n)
		ex.Body(choice.Canonical())
		ex.Stats.Executions = 1
	} else {
		ex.Run()
	}
	if ex.Stats.Capped {
		w.Cap("time budget reached inside scenario " + sc.name)
	}
	w.R.States += ex.Stats.States
	w.R.Transitions += ex.Stats.Transitions
	w.R.Traces += ex.Stats.Executions
	if ex.Stats.MaxDepth > int(w.R.Counters["max_choice_depth"]) {
		w.R.Counters["max_choice_depth"] = int64(ex.Stats.MaxDepth)
	}
	w.Eval(1)
	if w.WantSample() {
		w.Sample(map[string]interface{}{"scenario": sc.name, "operations": sc.labels, "executions": ex.Stats.Executions, "max_choice_points": ex.Stats.MaxDepth})
	}
	if nontrivial {
		w.Nontrivial(1)
	}
}

// alone runs one operation alone (single thread, default choices, fresh pools).
func alone(o op) string {
	var res string
	sc := &scenario{expect: []string{""}, body: func(results *[]string) func() {
		return func() { res = o.run() }
	}}
	execute(sc, nil)
	return res
}

func codecScenario(name string, threads [][]op) *scenario {
	sc := &scenario{name: name}
	idx := 0
	type slot struct{ t, j, i int }
	var slots []slot
	for t, ops := range threads {
		for j, o := range ops {
			sc.expect = append(sc.expect, alone(o))
			sc.labels = append(sc.labels, fmt.Sprintf("thread %d op %s", t+1, o.name))
			slots = append(slots, slot{t, j, idx})
			idx++
		}
	}
	sc.body = func(results *[]string) func() {
		return func() {
			var wg vsync.WaitGroup
			k := 0
			for _, ops := range threads {
				ops := ops
				base := k
				k += len(ops)
				wg.Add(1)
				vsched.Go(func() {
					defer wg.Done()
					for j, o := range ops {
						(*results)[base+j] = o.run()
					}
				})
			}
			wg.Wait()
		}
	}
	return sc
}

type echoHandler struct{}

func (echoHandler) Handle(b []byte) ([]byte, error) {
	return append([]byte("echo:"), b...), nil
}

func frameScenario(k int) *scenario {
	sc := &scenario{name: fmt.Sprintf("frame-client-%d-sends", k)}
	for i := 0; i < k; i++ {
		sc.expect = append(sc.expect, fmt.Sprintf("echo:payload-%d", i))
		sc.labels = append(sc.labels, fmt.Sprintf("Send(payload-%d)", i))
	}
	sc.body = func(results *[]string) func() {
		return func() {
			c2s := &vio.Pipe{Name: "c2s"}
			s2c := &vio.Pipe{Name: "s2c"}
			client := verifhook.NewFrameClient(vio.WriteEnd{P: c2s}, vio.ReadEnd{P: s2c})
			server := verifhook.NewFrameServer(vio.ReadEnd{P: c2s}, vio.WriteEnd{P: s2c})
			var swg vsync.WaitGroup
			swg.Add(1)
			vsched.Go(func() {
				defer swg.Done()
				server.Serve(echoHandler{})
			})
			var wg vsync.WaitGroup
			for i := 0; i < k; i++ {
				i := i
				wg.Add(1)
				vsched.Go(func() {
					defer wg.Done()
					res, err := client.Send([]byte(fmt.Sprintf("payload-%d", i)))
					(*results)[i] = string(res) + errs(err)
				})
			}
			wg.Wait()
			server.Stop()
			c2s.CloseWrite()
			swg.Wait()
		}
	}
	return sc
}

// harnessMutex is a calibration of the scheduler itself, not of thriftrw: k
// threads do a read-yield-write increment under one vsync.Mutex. Every schedule
// must end with the counter at k; a harness whose mutex lets two waiters through
// after one Unlock reports a lost update here instead of a false alarm elsewhere.
func harnessMutex(k int) *scenario {
	sc := &scenario{name: fmt.Sprintf("harness-mutex-%d", k), expect: []string{fmt.Sprint(k)}, labels: []string{"counter"}}
	sc.body = func(results *[]string) func() {
		return func() {
			var m vsync.Mutex
			var wg vsync.WaitGroup
			n := 0
			for i := 0; i < k; i++ {
				wg.Add(1)
				vsched.Go(func() {
					defer wg.Done()
					m.Lock()
					v := n
					vsched.Point("harness-yield")
					n = v + 1
					m.Unlock()
				})
			}
			wg.Wait()
			(*results)[0] = fmt.Sprint(n)
		}
	}
	return sc
}

type fakeGen struct {
	name  string
	files map[string][]byte
}

func (g fakeGen) Generate(*api.GenerateServiceRequest) (*api.GenerateServiceResponse, error) {
	vsched.Point("plugin-generate:" + g.name)
	return &api.GenerateServiceResponse{Files: g.files}, nil
}

type fakeHandle struct{ name string }

func (h fakeHandle) Name() string                                       { return h.name }
func (h fakeHandle) Close() error                                       { return nil }
func (h fakeHandle) ServiceGenerator() verifhook.PluginServiceGenerator { return nil }

type fakeSG struct{ fakeGen }

func (g fakeSG) Handle() verifhook.PluginHandle { return fakeHandle{g.name} }

// fanoutSameName: two generators whose handles report one name (the same plugin
// requested twice) and that both produce the same path: a conflict.
func fanoutSameName() *scenario {
	sc := fanoutScenario(2, true)
	sc.name = "fanout-2-same-name-overlap"
	inner := sc.body
	_ = inner
	gens := verifhook.PluginMultiServiceGenerator{
		fakeSG{fakeGen{"dup", map[string][]byte{"shared/x.go": []byte("1"), "a/a.go": []byte("a")}}},
		fakeSG{fakeGen{"dup", map[string][]byte{"shared/x.go": []byte("2"), "b/b.go": []byte("b")}}},
	}
	sc.expect = []string{"conflict"}
	sc.body = func(results *[]string) func() {
		return func() {
			_, err := gens.Generate(&api.GenerateServiceRequest{})
			switch {
			case err == nil:
				(*results)[0] = "no error: one plugin's shared/x.go silently replaced the other's"
			case strings.Contains(err.Error(), "shared/x.go"):
				(*results)[0] = "conflict"
			default:
				(*results)[0] = "error: " + err.Error()
			}
		}
	}
	return sc
}

func fanoutScenario(n int, overlap bool) *scenario {
	sc := &scenario{name: fmt.Sprintf("fanout-%d-overlap=%v", n, overlap)}
	var want []string
	var gens verifhook.PluginMultiServiceGenerator
	for i := 0; i < n; i++ {
		files := map[string][]byte{fmt.Sprintf("g%d/a.go", i): []byte(fmt.Sprintf("a%d", i)), fmt.Sprintf("g%d/b.go", i): []byte(fmt.Sprintf("b%d", i))}
		if overlap && i >= n-2 {
			files["shared/x.go"] = []byte("x")
		}
		for p, c := range files {
			want = append(want, p+"="+string(c))
		}
		gens = append(gens, fakeSG{fakeGen{fmt.Sprintf("p%d", i), files}})
	}
	sort.Strings(want)
	if overlap {
		sc.expect = []string{"conflict"}
	} else {
		sc.expect = []string{strings.Join(want, ",")}
	}
	sc.labels = []string{"MultiServiceGenerator.Generate"}
	sc.body = func(results *[]string) func() {
		return func() {
			res, err := gens.Generate(&api.GenerateServiceRequest{})
			if err != nil {
				if strings.Contains(err.Error(), "shared/x.go") {
					(*results)[0] = "conflict"
				} else {
					(*results)[0] = "error: " + err.Error()
				}
				return
			}
			var got []string
			for p, c := range res.Files {
				got = append(got, p+"="+string(c))
			}
			sort.Strings(got)
			(*results)[0] = strings.Join(got, ",")
		}
	}
	return sc
}

func run(w *ev.W) {
	r := &runner{w: w, bound: 2}
	w.Count("max_choice_depth", 0)
	a, b, c := ops(1), ops(2), ops(3)
	var scs []*scenario
	n := len(a)
	// ops used for triples and for "two ops, then one concurrently"
	var core []int
	for i, o := range a {
		switch o.name {
		case "Encode", "Decode", "Decode+EvaluateValue", "DecodeRequest", "ReadRequest", "ReadRequest(wrong type)", "ReadRequest(skip)", "ReadRequest(empty)", "gen.Decode+FromWire", "gen.Decode(stream)", "Encode(failing writer)":
			core = append(core, i)
		}
	}
	// every unordered pair of operations on two threads
	// (the two operations on megabyte-sized values are paired with each other and with
	// the plain Decode / stream walk / ReadRequest only: every execution copies the megabyte)
	large := func(o op) bool { return strings.Contains(o.name, "(large binary)") }
	partner := func(o op) bool {
		return large(o) || o.name == "Decode" || o.name == "StreamWalk" || o.name == "ReadRequest"
	}
	skip := func(x, y op) bool { return (large(x) && !partner(y)) || (large(y) && !partner(x)) }
	for i := 0; i < n; i++ {
		for j := i; j < n; j++ {
			if skip(a[i], b[j]) {
				continue
			}
			scs = append(scs, codecScenario(fmt.Sprintf("pair:%s||%s", a[i].name, b[j].name), [][]op{{a[i]}, {b[j]}}))
		}
	}
	// every ordered pair back to back on one thread (stale state in recycled objects)
	for i := 0; i < n; i++ {
		for j := 0; j < n; j++ {
			if skip(a[i], b[j]) {
				continue
			}
			scs = append(scs, codecScenario(fmt.Sprintf("seq:%s;%s", a[i].name, b[j].name), [][]op{{a[i], b[j]}}))
		}
	}
	// one thread doing two ops while another does one
	for _, i := range core {
		for _, j := range core {
			scs = append(scs, codecScenario(fmt.Sprintf("pair2:%s;%s||%s", a[i].name, c[j].name, b[j].name), [][]op{{a[i], c[j]}, {b[j]}}))
		}
	}
	if !w.Quick() {
		for x, i := range core {
			for y := x; y < len(core); y++ {
				for z := y; z < len(core); z++ {
					j, k := core[y], core[z]
					scs = append(scs, codecScenario(fmt.Sprintf("triple:%s||%s||%s", a[i].name, b[j].name, c[k].name), [][]op{{a[i]}, {b[j]}, {c[k]}}))
				}
			}
		}
	}
	scs = append(scs, harnessMutex(3), frameScenario(2), fanoutScenario(2, false), fanoutScenario(2, true), fanoutScenario(3, false), fanoutScenario(3, true), fanoutSameName())
	// every fan-out width 1..20 (and 33, 64), canonical schedule only: each generator's files are in the merge
	for _, n := range []int{1, 4, 5, 6, 7, 8, 9, 10, 11, 12, 13, 14, 15, 16, 17, 18, 19, 20, 33, 64} {
		sc := fanoutScenario(n, false)
		sc.name = fmt.Sprintf("fanout-width-%d", n)
		zero := 0
		sc.bound = &zero
		scs = append(scs, sc)
	}
	if !w.Quick() {
		scs = append(scs, frameScenario(3))
	}
	for _, sc := range scs {
		if !w.Own() {
			continue
		}
		if w.Expired() {
			w.Cap("time budget reached before all scenarios were explored")
			break
		}
		r.explore(sc)
		w.Done()
	}
}
