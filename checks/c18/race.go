package c18

// Auxiliary free-running pass (guidance: "unsynchronized accesses are caught
// separately by a race detector in a separate, free-running run of the same
// harness bodies"). The cooperative scheduler's hand-offs are happens-before
// edges, so the exhaustive exploration cannot see an unsynchronised access that
// does not change a result at the granularity of the hooked operations. This
// pass runs the same operation bodies on real goroutines against the product
// built WITHOUT the sync rewrite and WITH -race. It is sampling, not exhaustive,
// and is reported separately in the evidence.

import (
	"bytes"
	"fmt"
	"io"
	"os"
	"os/exec"
	"path/filepath"
	"regexp"
	"sort"
	"strconv"
	"strings"
	"sync"
	"time"

	"go.uber.org/thriftrw/plugin/api"
	"go.uber.org/thriftrw/verifhook"

	"verif/engine/ev"
)

func isLarge(o op) bool { return strings.Contains(o.name, "(large binary)") }

// RaceMain runs inside the -race binary: args = [iterations].
func RaceMain(args []string) int {
	iters := 50
	if len(args) > 0 {
		if n, err := strconv.Atoi(args[0]); err == nil {
			iters = n
		}
	}
	a, b, c := ops(1), ops(2), ops(3)
	exp := func(o op) string { return o.run() }
	wantA, wantB, wantC := make([]string, len(a)), make([]string, len(b)), make([]string, len(c))
	for i := range a {
		wantA[i], wantB[i], wantC[i] = exp(a[i]), exp(b[i]), exp(c[i])
	}
	mismatches := 0
	runs := 0
	report := func(name string, got, want string) {
		if got != want {
			mismatches++
			if mismatches <= 5 {
				fmt.Printf("RESULT-MISMATCH %s: got %.200s want %.200s\n", name, got, want)
			}
		}
	}
	for it := 0; it < iters; it++ {
		// fresh values and method names that this process has never seen, met for the first
		// time by three goroutines at once (a cache filled on first sight is written
		// concurrently only then); the results are compared with a run alone AFTERWARDS
		{
			fa, fb, fc := ops(1000+3*it), ops(1001+3*it), ops(1002+3*it)
			for ii := 0; ii < 2*len(fa); ii++ {
				// the same operation on three goroutines, then three different ones
				i := ii % len(fa)
				j, k := i, i
				if ii >= len(fa) {
					j, k = (i+5)%len(fb), (i+9)%len(fc)
				}
				if it%10 != 0 && (isLarge(fa[i]) || isLarge(fb[j]) || isLarge(fc[k])) {
					continue // megabyte-sized values: every tenth round
				}
				var wg sync.WaitGroup
				var r1, r2, r3 string
				wg.Add(3)
				go func() { defer wg.Done(); r1 = fa[i].run() }()
				go func() { defer wg.Done(); r2 = fb[j].run() }()
				go func() { defer wg.Done(); r3 = fc[k].run() }()
				wg.Wait()
				runs++
				report("fresh:"+fa[i].name, r1, fa[i].run())
				report("fresh:"+fb[j].name, r2, fb[j].run())
				report("fresh:"+fc[k].name, r3, fc[k].run())
			}
		}
		// every unordered pair on two goroutines, a third goroutine running a rotating op
		for i := range a {
			for j := i; j < len(b); j++ {
				k := (i + j + it) % len(c)
				if it%10 != 0 && (isLarge(a[i]) || isLarge(b[j]) || isLarge(c[k])) {
					continue
				}
				var wg sync.WaitGroup
				var r1, r2, r3 string
				wg.Add(3)
				go func() { defer wg.Done(); r1 = a[i].run() }()
				go func() { defer wg.Done(); r2 = b[j].run() }()
				go func() { defer wg.Done(); r3 = c[k].run() }()
				wg.Wait()
				runs++
				report(a[i].name+"||"+b[j].name, r1, wantA[i])
				report(a[i].name+"||"+b[j].name, r2, wantB[j])
				report(c[k].name, r3, wantC[k])
			}
		}
		// framed client: 3 concurrent Sends against an echo server over real pipes
		{
			cr, sw := io.Pipe()
			sr, cw := io.Pipe()
			client := verifhook.NewFrameClient(cw, cr)
			server := verifhook.NewFrameServer(sr, sw)
			var swg sync.WaitGroup
			swg.Add(1)
			go func() { defer swg.Done(); server.Serve(echoHandler{}) }()
			var wg sync.WaitGroup
			res := make([]string, 3)
			for i := 0; i < 3; i++ {
				i := i
				wg.Add(1)
				go func() {
					defer wg.Done()
					r, err := client.Send([]byte(fmt.Sprintf("payload-%d", i)))
					res[i] = string(r) + errs(err)
				}()
			}
			wg.Wait()
			for i := range res {
				report("frame-client", res[i], fmt.Sprintf("echo:payload-%d", i))
			}
			server.Stop()
			cw.Close()
			sw.Close()
			swg.Wait()
			runs++
		}
		// fan-out over three fake generators
		{
			var gens verifhook.PluginMultiServiceGenerator
			var want []string
			for i := 0; i < 3; i++ {
				files := map[string][]byte{fmt.Sprintf("g%d/a.go", i): []byte("a"), fmt.Sprintf("g%d/b.go", i): []byte("b")}
				for p, c := range files {
					want = append(want, p+"="+string(c))
				}
				gens = append(gens, fakeSG{fakeGen{fmt.Sprintf("p%d", i), files}})
			}
			sort.Strings(want)
			resp, err := gens.Generate(&api.GenerateServiceRequest{})
			got := errs(err)
			if err == nil {
				var g []string
				for p, c := range resp.Files {
					g = append(g, p+"="+string(c))
				}
				sort.Strings(g)
				got = strings.Join(g, ",")
			}
			report("fanout", got, strings.Join(want, ","))
			runs++
		}
	}
	fmt.Printf("RACE-PASS runs=%d iterations=%d mismatches=%d\n", runs, iters, mismatches)
	if mismatches > 0 {
		return 3
	}
	return 0
}

var raceFrame = regexp.MustCompile(`(?m)^  (go\.uber\.org/thriftrw/[^\s(]+)\(`)

// racePrepare builds the -race binary (supervisor side). A build failure is
// recorded as a note: the exhaustive exploration does not depend on it.
func racePrepare(s *ev.S) error {
	ov := filepath.Join(s.WorkDir, "overlay-hooks.json")
	if out, err := exec.Command(filepath.Join(s.Verif, "tools", "mkoverlay.sh"), ov).CombinedOutput(); err != nil {
		s.Notes = append(s.Notes, fmt.Sprintf("race pass unavailable: overlay: %v %s", err, out))
		return nil
	}
	bin := filepath.Join(s.WorkDir, "vrace")
	cmd := exec.Command("go", "build", "-race", "-tags", "verif", "-overlay", ov, "-o", bin, "./cmd/vrace")
	cmd.Dir = s.Verif
	cmd.Env = append(os.Environ(), "GOFLAGS=-mod=mod", "CGO_ENABLED=1")
	if out, err := cmd.CombinedOutput(); err != nil {
		s.Notes = append(s.Notes, fmt.Sprintf("race pass unavailable: go build -race failed: %v %.600s", err, out))
		return nil
	}
	s.Args["vrace"] = bin
	return nil
}

// raceFinish runs the binary and turns race reports into violations.
func raceFinish(s *ev.S, m *ev.Result) {
	bin := s.Args["vrace"]
	if bin == "" {
		return
	}
	iters := "40"
	if s.Tier != "quick" {
		iters = "600"
	}
	cmd := exec.Command(bin, iters)
	cmd.Env = append(os.Environ(), "GORACE=halt_on_error=0 exitcode=66 history_size=2", "GOMAXPROCS=8")
	var out bytes.Buffer
	cmd.Stdout, cmd.Stderr = &out, &out
	t0 := time.Now()
	done := make(chan error, 1)
	if err := cmd.Start(); err != nil {
		s.Notes = append(s.Notes, "race pass unavailable: "+err.Error())
		return
	}
	go func() { done <- cmd.Wait() }()
	var err error
	select {
	case err = <-done:
	case <-time.After(10 * time.Minute):
		cmd.Process.Kill()
		<-done
		s.Notes = append(s.Notes, "race pass: stopped after 10 minutes (not a verdict)")
		return
	}
	text := out.String()
	if m.Counters == nil {
		m.Counters = map[string]int64{}
	}
	if mm := regexp.MustCompile(`RACE-PASS runs=(\d+)`).FindStringSubmatch(text); mm != nil {
		n, _ := strconv.ParseInt(mm[1], 10, 64)
		m.Counters["race_pass_free_running_runs(sampling)"] = n
	}
	reports := strings.Split(text, "WARNING: DATA RACE")
	seen := map[string]bool{}
	for _, rep := range reports[1:] {
		if i := strings.Index(rep, "=================="); i >= 0 {
			rep = rep[:i]
		}
		// signature: the first two product frames of the report
		var fr []string
		for _, mm := range raceFrame.FindAllStringSubmatch(rep, -1) {
			f := strings.TrimPrefix(mm[1], "go.uber.org/thriftrw/")
			if len(fr) == 0 || fr[len(fr)-1] != f {
				fr = append(fr, f)
			}
			if len(fr) == 2 {
				break
			}
		}
		sig := "data-race:" + strings.Join(fr, "+")
		if seen[sig] {
			continue
		}
		seen[sig] = true
		if m.ViolCount == nil {
			m.ViolCount = map[string]int64{}
		}
		m.ViolCount[sig]++
		m.Violations = append(m.Violations, ev.Violation{Sig: sig, Detail: "the race detector reports unsynchronised accesses in the free-running pass: " + clip(strings.Join(strings.Fields(rep), " "), 900),
			Replay: map[string]string{"cmd": "vrace " + iters, "report": rep}})
	}
	for _, l := range strings.Split(text, "\n") {
		if strings.HasPrefix(l, "RESULT-MISMATCH") {
			sig := "free-running-result"
			if !seen[sig] {
				seen[sig] = true
				if m.ViolCount == nil {
					m.ViolCount = map[string]int64{}
				}
				m.ViolCount[sig]++
				m.Violations = append(m.Violations, ev.Violation{Sig: sig, Detail: "free-running pass: " + l, Replay: map[string]string{"cmd": "vrace " + iters}})
			}
		}
	}
	if i := strings.Index(text, "fatal error:"); i >= 0 {
		line := text[i:]
		if j := strings.Index(line, "\n"); j >= 0 {
			line = line[:j]
		}
		sig := "free-running-fatal:" + strings.TrimSpace(strings.TrimPrefix(line, "fatal error:"))
		if !seen[sig] {
			seen[sig] = true
			if m.ViolCount == nil {
				m.ViolCount = map[string]int64{}
			}
			m.ViolCount[sig]++
			m.Violations = append(m.Violations, ev.Violation{Sig: sig, Detail: "the free-running pass died: " + clip(strings.Join(strings.Fields(text[i:]), " "), 700), Replay: map[string]string{"cmd": "vrace " + iters}})
		}
	}
	if err != nil && len(seen) == 0 {
		s.Notes = append(s.Notes, fmt.Sprintf("race pass ended abnormally without a race report (%v): %.400s", err, text))
	}
	s.Notes = append(s.Notes, fmt.Sprintf("race pass (auxiliary, sampling): %s iterations in %.1fs, %d distinct race signatures", iters, time.Since(t0).Seconds(), len(seen)))
}

func clip(s string, n int) string {
	if len(s) > n {
		return s[:n]
	}
	return s
}
