// Package c09: accepted programs are well-formed — no silent numeric
// wrap-around (DESIGN.md §3 C09).
package c09

import (
	"encoding/json"
	"fmt"
	"math/big"
	"os"
	"strings"
	"time"

	"go.uber.org/thriftrw/compile"
	"verif/bridge/memfs"
	"verif/engine/ev"
)

// Check is the registered check.
var Check = &ev.Check{
	ID:    "C09",
	Level: "exploration",
	Rule: "every numeric position (explicit field id strict/non-strict, auto-assigned negative id after an explicit one, enum explicit value, enum implicit value after a boundary value, const/default/list element/map key/set element of i8,i16,i32,i64 " +
		"directly and through a typedef, const of enum type given as integer, bool given as integer) x every boundary literal (for w in {7,15,31,63}: +-2^w and neighbours; 0, +-1, +-2^16, +-2^32, 2^64-1, 2^64) x {decimal, hex}; " +
		"plus every sequence of <=3 field declarations with ids over {unset,-1,-2,-3,1,2} (with and without a repeated name) in struct/union/exception/arguments/throws position, strict and non-strict; every enum of <=3 items with names over {A,a,B} and values over {unset,0,1,-1}; and duplicate / self-reference shapes (constant and service defined in terms of themselves, length 1..3). " +
		"Oracle: accepted => every compiled number equals the source literal and lies in the range of its type, and structural rules hold. Cases are distinct programs by construction; non-trivial = every case.",
	Run:          run,
	Workers:      func(string) int { return 4 },
	Budget:       func(string) time.Duration { return 3 * time.Minute },
	CaseDeadline: 60 * time.Second,
	MemLimitKB:   4 << 20,
	CrashSig: func(kind, desc, stderr string) (string, bool) {
		f := strings.Fields(desc)
		if len(f) > 0 {
			return kind + ":" + f[0], true
		}
		return kind, true
	},
	Assumptions: []string{"acceptance of valid programs is C06's business; only the accepted=>well-formed direction is judged here"},
}

type lit struct {
	v    *big.Int
	text string
}

func literals() []lit {
	var out []lit
	seen := map[string]bool{}
	add := func(v *big.Int) {
		dec := v.String()
		if !seen[dec] {
			seen[dec] = true
			out = append(out, lit{new(big.Int).Set(v), dec})
			if v.Sign() >= 0 {
				out = append(out, lit{new(big.Int).Set(v), "0x" + v.Text(16)})
				// the IDL has no octal: leading zeros and an explicit plus sign are decimal notation
				out = append(out, lit{new(big.Int).Set(v), "0" + dec}, lit{new(big.Int).Set(v), "+" + dec}, lit{new(big.Int).Set(v), "000" + dec})
			} else {
				out = append(out, lit{new(big.Int).Set(v), "-0" + dec[1:]})
			}
		}
	}
	for _, x := range []int64{0, 1, -1, 2, 65536, -65536, 1 << 32, -(1 << 32), 40000, -40000, 1000, 255, 256} {
		add(big.NewInt(x))
	}
	for _, w := range []uint{7, 8, 15, 16, 31, 32, 63, 64} {
		p := new(big.Int).Lsh(big.NewInt(1), w)
		for _, d := range []int64{-1, 0, 1} {
			add(new(big.Int).Add(p, big.NewInt(d)))
			add(new(big.Int).Add(new(big.Int).Neg(p), big.NewInt(d)))
		}
	}
	return out
}

func inRange(v *big.Int, bits uint) bool {
	lo := new(big.Int).Neg(new(big.Int).Lsh(big.NewInt(1), bits-1))
	hi := new(big.Int).Sub(new(big.Int).Lsh(big.NewInt(1), bits-1), big.NewInt(1))
	return v.Cmp(lo) >= 0 && v.Cmp(hi) <= 0
}

type program struct {
	Kind      string `json:"kind"`
	Src       string `json:"src"`
	NonStrict bool   `json:"non_strict"`
	Lit       string `json:"literal"`
	// Extra holds further files (name -> source) next to the root a.thrift.
	Extra map[string]string `json:"extra_files,omitempty"`
	// check inspects the compiled module; returns "" if well-formed.
	check func(m *compile.Module) string
}

func compileSrc(p program) (*compile.Module, error) {
	fs := memfs.FS{"/m/a.thrift": p.Src}
	for name, src := range p.Extra {
		fs["/m/"+name] = src
	}
	opts := []compile.Option{compile.Filesystem(fs)}
	if p.NonStrict {
		opts = append(opts, compile.NonStrict())
	}
	return compile.Compile("/m/a.thrift", opts...)
}

func structOf(m *compile.Module, name string) *compile.StructSpec {
	s, _ := m.Types[name].(*compile.StructSpec)
	return s
}

func wantID(m *compile.Module, field string, want *big.Int) string {
	s := structOf(m, "S")
	if s == nil {
		return "struct S missing"
	}
	for _, f := range s.Fields {
		if f.Name == field {
			if !inRange(want, 16) {
				return fmt.Sprintf("field %s: source id %s is outside the 16-bit range but the program was accepted (compiled id %d)", field, want, f.ID)
			}
			if big.NewInt(int64(f.ID)).Cmp(want) != 0 {
				return fmt.Sprintf("field %s: compiled id %d, source says %s", field, f.ID, want)
			}
			return ""
		}
	}
	return "field " + field + " missing"
}

// intOf extracts an integer from a linked constant value.
func intOf(v compile.ConstantValue) (int64, string) {
	switch c := v.(type) {
	case compile.ConstantInt:
		return int64(c), ""
	case compile.ConstReference:
		return intOf(c.Target.Value)
	case compile.EnumItemReference:
		return int64(c.Item.Value), ""
	case compile.ConstantBool:
		if bool(c) {
			return 1, ""
		}
		return 0, ""
	}
	return 0, fmt.Sprintf("unexpected linked constant %T", v)
}

func wantInt(v compile.ConstantValue, want *big.Int, bits uint, what string) string {
	got, e := intOf(v)
	if e != "" {
		return what + ": " + e
	}
	if !inRange(want, bits) {
		return fmt.Sprintf("%s: literal %s is outside the %d-bit range of its type but the program was accepted (compiled value %d)", what, want, bits, got)
	}
	if big.NewInt(got).Cmp(want) != 0 {
		return fmt.Sprintf("%s: compiled value %d, source says %s", what, got, want)
	}
	return ""
}

func programs() []program {
	var out []program
	one := big.NewInt(1)
	for _, l := range literals() {
		l := l
		// field ids
		for _, ns := range []bool{false, true} {
			out = append(out, program{Kind: fmt.Sprintf("field-id(nonstrict=%v)", ns), NonStrict: ns, Lit: l.text,
				Src:   fmt.Sprintf("struct S { %s: optional i32 f }", l.text),
				check: func(m *compile.Module) string { return wantID(m, "f", l.v) }})
		}
		out = append(out, program{Kind: "field-id-auto-after-explicit", NonStrict: true, Lit: l.text,
			Src: fmt.Sprintf("struct S { %s: i32 a; i32 b }", l.text),
			check: func(m *compile.Module) string {
				if e := wantID(m, "a", l.v); e != "" {
					return e
				}
				next := big.NewInt(-1)
				if l.v.Sign() < 0 {
					next = new(big.Int).Sub(l.v, one)
				}
				return wantID(m, "b", next)
			}})
		// enums
		out = append(out, program{Kind: "enum-explicit", Lit: l.text, Src: fmt.Sprintf("enum E { A = %s }", l.text),
			check: func(m *compile.Module) string {
				e, _ := m.Types["E"].(*compile.EnumSpec)
				if e == nil || len(e.Items) != 1 {
					return "enum E missing"
				}
				if !inRange(l.v, 32) {
					return fmt.Sprintf("enum value %s is outside the 32-bit range but the program was accepted (compiled %d)", l.v, e.Items[0].Value)
				}
				if big.NewInt(int64(e.Items[0].Value)).Cmp(l.v) != 0 {
					return fmt.Sprintf("enum item A compiled to %d, source says %s", e.Items[0].Value, l.v)
				}
				return ""
			}})
		out = append(out, program{Kind: "enum-implicit-after", Lit: l.text, Src: fmt.Sprintf("enum E { A = %s, B }", l.text),
			check: func(m *compile.Module) string {
				e, _ := m.Types["E"].(*compile.EnumSpec)
				if e == nil || len(e.Items) != 2 {
					return "enum E missing"
				}
				nx := new(big.Int).Add(l.v, one)
				if !inRange(l.v, 32) || !inRange(nx, 32) {
					return fmt.Sprintf("enum values %s, %s (implicit) do not both fit 32 bits but the program was accepted (compiled %d, %d)", l.v, nx, e.Items[0].Value, e.Items[1].Value)
				}
				if int64(e.Items[0].Value) != l.v.Int64() || int64(e.Items[1].Value) != nx.Int64() {
					return fmt.Sprintf("enum items compiled to %d, %d; source says %s, %s", e.Items[0].Value, e.Items[1].Value, l.v, nx)
				}
				return ""
			}})
		// integer constants of each width, in several syntactic positions
		for _, tw := range []struct {
			name string
			bits uint
		}{{"i8", 8}, {"byte", 8}, {"i16", 16}, {"i32", 32}, {"i64", 64}} {
			tw := tw
			constVal := func(m *compile.Module) compile.ConstantValue {
				if c := m.Constants["c"]; c != nil {
					return c.Value
				}
				return nil
			}
			out = append(out, program{Kind: "const-" + tw.name, Lit: l.text, Src: fmt.Sprintf("const %s c = %s", tw.name, l.text),
				check: func(m *compile.Module) string { return wantInt(constVal(m), l.v, tw.bits, "const c") }})
			out = append(out, program{Kind: "const-typedef-" + tw.name, Lit: l.text, Src: fmt.Sprintf("typedef %s T\nconst T c = %s", tw.name, l.text),
				check: func(m *compile.Module) string { return wantInt(constVal(m), l.v, tw.bits, "const c (typedef)") }})
			out = append(out, program{Kind: "const-via-reference-" + tw.name, Lit: l.text, Src: fmt.Sprintf("const i64 big = %s\nconst %s c = big", l.text, tw.name),
				check: func(m *compile.Module) string {
					return wantInt(constVal(m), l.v, tw.bits, "const c (= reference to an i64 constant)")
				}})
			// the same number reaching the integer type through an enum item (enum values are 32-bit)
			if inRange(l.v, 32) {
				out = append(out, program{Kind: "const-from-enum-item-" + tw.name, Lit: l.text, Src: fmt.Sprintf("enum E { A = %s }\nconst %s c = E.A", l.text, tw.name),
					check: func(m *compile.Module) string { return wantInt(constVal(m), l.v, tw.bits, "const c") }})
				out = append(out, program{Kind: "const-typedef-from-enum-item-" + tw.name, Lit: l.text, Src: fmt.Sprintf("enum E { Z = 0, A = %s }\ntypedef %s T\nconst T c = E.A", l.text, tw.name),
					check: func(m *compile.Module) string { return wantInt(constVal(m), l.v, tw.bits, "const c") }})
				out = append(out, program{Kind: "default-from-enum-item-" + tw.name, Lit: l.text, Src: fmt.Sprintf("enum E { A = %s }\nstruct S { 1: optional %s f = E.A }", l.text, tw.name),
					check: func(m *compile.Module) string {
						s := structOf(m, "S")
						if s == nil {
							return "S missing"
						}
						return wantInt(s.Fields[0].Default, l.v, tw.bits, "default of f")
					}})
				out = append(out, program{Kind: "list-elem-from-enum-item-" + tw.name, Lit: l.text, Src: fmt.Sprintf("enum E { A = %s }\nconst list<%s> c = [E.A]", l.text, tw.name),
					check: func(m *compile.Module) string {
						cl, ok := constVal(m).(compile.ConstantList)
						if !ok || len(cl) != 1 {
							return fmt.Sprintf("unexpected %T", constVal(m))
						}
						return wantInt(cl[0], l.v, tw.bits, "list element")
					}})
				out = append(out, program{Kind: "map-key-from-enum-item-" + tw.name, Lit: l.text, Src: fmt.Sprintf("enum E { A = %s }\nconst map<%s, string> c = {E.A: \"x\"}", l.text, tw.name),
					check: func(m *compile.Module) string {
						cm, ok := constVal(m).(compile.ConstantMap)
						if !ok || len(cm) != 1 {
							return fmt.Sprintf("unexpected %T", constVal(m))
						}
						return wantInt(cm[0].Key, l.v, tw.bits, "map key")
					}})
			}
			out = append(out, program{Kind: "default-" + tw.name, Lit: l.text, Src: fmt.Sprintf("struct S { 1: optional %s f = %s }", tw.name, l.text),
				check: func(m *compile.Module) string {
					s := structOf(m, "S")
					if s == nil {
						return "S missing"
					}
					return wantInt(s.Fields[0].Default, l.v, tw.bits, "default of f")
				}})
			out = append(out, program{Kind: "list-elem-" + tw.name, Lit: l.text, Src: fmt.Sprintf("const list<%s> c = [%s]", tw.name, l.text),
				check: func(m *compile.Module) string {
					cl, ok := constVal(m).(compile.ConstantList)
					if !ok || len(cl) != 1 {
						return fmt.Sprintf("unexpected %T", constVal(m))
					}
					return wantInt(cl[0], l.v, tw.bits, "list element")
				}})
			out = append(out, program{Kind: "set-elem-" + tw.name, Lit: l.text, Src: fmt.Sprintf("const set<%s> c = [%s]", tw.name, l.text),
				check: func(m *compile.Module) string {
					cl, ok := constVal(m).(compile.ConstantSet)
					if !ok || len(cl) != 1 {
						return fmt.Sprintf("unexpected %T", constVal(m))
					}
					return wantInt(cl[0], l.v, tw.bits, "set element")
				}})
			out = append(out, program{Kind: "map-key-" + tw.name, Lit: l.text, Src: fmt.Sprintf("const map<%s, string> c = {%s: \"x\"}", tw.name, l.text),
				check: func(m *compile.Module) string {
					cm, ok := constVal(m).(compile.ConstantMap)
					if !ok || len(cm) != 1 {
						return fmt.Sprintf("unexpected %T", constVal(m))
					}
					return wantInt(cm[0].Key, l.v, tw.bits, "map key")
				}})
		}
		out = append(out, program{Kind: "const-enum-as-int", Lit: l.text, Src: fmt.Sprintf("enum E { A = 1, Z = 0 }\nconst E c = %s", l.text),
			check: func(m *compile.Module) string {
				if l.v.Cmp(big.NewInt(1)) != 0 && l.v.Sign() != 0 {
					return fmt.Sprintf("enum E has no item with value %s but the constant was accepted as %v", l.v, m.Constants["c"].Value)
				}
				return wantInt(m.Constants["c"].Value, l.v, 32, "enum constant")
			}})
		out = append(out, program{Kind: "const-bool-as-int", Lit: l.text, Src: fmt.Sprintf("const bool c = %s", l.text),
			check: func(m *compile.Module) string {
				if l.v.Cmp(big.NewInt(1)) != 0 && l.v.Sign() != 0 {
					return fmt.Sprintf("bool constant given as %s was accepted", l.v)
				}
				return wantInt(m.Constants["c"].Value, l.v, 8, "bool constant")
			}})
	}
	out = append(out, fieldSequences()...)
	out = append(out, enumSequences()...)
	// structural shapes: all must be rejected
	reject := func(kind, src string, ns bool) {
		out = append(out, program{Kind: kind, Src: src, NonStrict: ns, Lit: "-",
			check: func(m *compile.Module) string { return "ill-formed program was accepted: " + kind }})
	}
	reject("dup-field-id", "struct S { 1: optional i32 a; 1: optional i32 b }", false)
	reject("dup-field-id-negative", "struct S { -1: optional i32 a; -1: optional i32 b }", true)
	reject("dup-field-id-via-auto", "struct S { i32 a; -1: i32 b }", true)
	reject("dup-field-id-via-auto-2", "struct S { -3: i32 a; i32 b; -4: i32 c }", true)
	reject("dup-field-name", "struct S { 1: optional i32 a; 2: optional i32 a }", false)
	reject("dup-field-id-in-args", "service X { void f(1: i32 a, 1: i32 b) }", false)
	reject("dup-field-id-in-throws", "exception Ex {}\nservice X { void f() throws (1: Ex a, 1: Ex b) }", false)
	reject("dup-enum-item", "enum E { A, A }", false)
	reject("dup-enum-item-case", "enum E { Abc, aBC }", false)
	reject("dup-field-id-union", "union U { 1: i32 a; 1: string b }", false)
	for _, t := range []string{"i32", "i64", "string", "list<i32>"} {
		reject("const-self-"+t, fmt.Sprintf("const %s a = a", t), false)
	}
	reject("const-cycle-2-same-type", "const i32 a = b\nconst i32 b = a", false)
	reject("const-cycle-2-diff-type", "const i32 a = b\nconst i64 b = a", false)
	reject("const-cycle-3", "const i32 a = b\nconst i32 b = c\nconst i32 c = a", false)
	reject("const-cycle-via-list", "const list<i32> a = [b]\nconst i32 b = c\nconst i32 c = b", false)
	reject("const-self-in-list", "const list<list<i32>> a = [a]", false)
	reject("const-self-in-map", "const map<string, map<string,i32>> a = {\"k\": a}", false)
	// a constant of a recursive struct type whose literal mentions the constant itself
	node := "struct Node { 1: required i32 value; 2: optional Node tail; 3: optional list<Node> kids; 4: optional map<string, Node> named }\n"
	reject("const-self-in-struct-field", node+"const Node LOOP = {\"value\": 1, \"tail\": LOOP}", false)
	reject("const-self-in-struct-list-field", node+"const Node LOOP = {\"value\": 1, \"kids\": [LOOP]}", false)
	reject("const-self-in-struct-map-field", node+"const Node LOOP = {\"value\": 1, \"named\": {\"k\": LOOP}}", false)
	reject("const-self-in-nested-struct-literal", node+"const Node LOOP = {\"value\": 1, \"tail\": {\"value\": 2, \"tail\": LOOP}}", false)
	reject("const-cycle-2-through-struct-literals", node+"const Node A = {\"value\": 1, \"tail\": B}\nconst Node B = {\"value\": 2, \"tail\": A}", false)
	reject("const-cycle-2-struct-then-ref", node+"const Node A = {\"value\": 1, \"tail\": B}\nconst Node B = A", false)
	reject("const-cycle-2-ref-then-struct", node+"const Node A = B\nconst Node B = {\"value\": 1, \"kids\": [A]}", false)
	reject("service-extends-self", "service A extends A {}", false)
	reject("service-cycle-2", "service A extends B {}\nservice B extends A {}", false)
	reject("service-cycle-3", "service A extends B {}\nservice B extends C {}\nservice C extends A {}", false)
	reject("service-cycle-tail", "service D extends A {}\nservice A extends B {}\nservice B extends A {}", false)
	out = append(out, crossFileCycles()...)
	return out
}

// crossFileCycles: every cycle of 2..3 services (extends) or constants (value
// reference) whose members are spread over the files a, b, c in every way with at
// least one edge crossing a file boundary; files include each other as needed;
// with and without a definition in the root file that enters the cycle from outside.
func crossFileCycles() []program {
	var out []program
	fileNames := []string{"a", "b", "c"}
	for _, what := range []string{"service", "const"} {
		for L := 2; L <= 3; L++ {
			n := 1
			for i := 0; i < L; i++ {
				n *= 3
			}
			for code := 0; code < n; code++ {
				asg := make([]int, L)
				c := code
				cross := false
				for i := range asg {
					asg[i] = c % 3
					c /= 3
				}
				for i := range asg {
					if asg[i] != asg[(i+1)%L] {
						cross = true
					}
				}
				if !cross {
					continue
				}
				for _, tail := range []bool{false, true} {
					inA := tail
					for _, f := range asg {
						if f == 0 {
							inA = true
						}
					}
					if !inA {
						continue
					}
					body := map[int]string{}
					incl := map[int]map[int]bool{0: {}, 1: {}, 2: {}}
					ref := func(from, to int) string {
						name := fmt.Sprintf("N%d", to)
						if asg[to] == from {
							return name
						}
						incl[from][asg[to]] = true
						return fileNames[asg[to]] + "." + name
					}
					for i := 0; i < L; i++ {
						j := (i + 1) % L
						if what == "service" {
							body[asg[i]] += fmt.Sprintf("service N%d extends %s {}\n", i, ref(asg[i], j))
						} else {
							body[asg[i]] += fmt.Sprintf("const i32 N%d = %s\n", i, ref(asg[i], j))
						}
					}
					if tail {
						if what == "service" {
							body[0] += fmt.Sprintf("service D extends %s {}\n", ref(0, 0))
						} else {
							body[0] += fmt.Sprintf("const i32 D = %s\n", ref(0, 0))
						}
					}
					src := func(f int) string {
						h := ""
						for g := 0; g < 3; g++ {
							if incl[f][g] {
								h += fmt.Sprintf("include \"./%s.thrift\"\n", fileNames[g])
							}
						}
						return h + body[f]
					}
					pr := program{Kind: fmt.Sprintf("%s-cycle-%d-across-files", what, L), Src: src(0), Lit: "-", Extra: map[string]string{}}
					for f := 1; f < 3; f++ {
						if body[f] != "" {
							pr.Extra[fileNames[f]+".thrift"] = src(f)
						}
					}
					kind := pr.Kind
					pr.check = func(m *compile.Module) string { return "ill-formed program was accepted: " + kind }
					out = append(out, pr)
				}
			}
		}
	}
	return out
}

// fieldSequences enumerates every sequence of <=4 field declarations whose id
// is drawn from {unset,-1,-2,-3,1,2} and whose name from {a,b} (suffix-numbered
// so that names are unique unless deliberately repeated), in five struct-like
// positions, strict and non-strict. Oracle on acceptance: ids pairwise distinct,
// explicit ids equal the source, auto ids continue below the last explicit
// negative one, names distinct.
func fieldSequences() []program {
	ids := []string{"", "-1", "-2", "-3", "1", "2"}
	var out []program
	containers := []struct{ name, open, close, sep string }{
		{"struct", "struct S {", "}", ";"},
		{"union", "union S {", "}", ";"},
		{"exception", "exception S {", "}", ";"},
		{"args", "service X { void f(", ") }", ","},
		{"throws", "exception E {}\nservice X { void f() throws (", ") }", ","},
	}
	var rec func(seq []int)
	emit := func(seq []int, dupName bool) {
		for _, c := range containers {
			for _, ns := range []bool{false, true} {
				c, ns := c, ns
				var sb strings.Builder
				sb.WriteString(c.open)
				names := make([]string, len(seq))
				for i, x := range seq {
					names[i] = fmt.Sprintf("f%d", i)
					if dupName && i == len(seq)-1 {
						names[i] = "f0"
					}
					typ := "i32"
					if c.name == "throws" {
						typ = "E"
					}
					req := ""
					if !ns && (c.name == "struct" || c.name == "exception") {
						req = "optional "
					}
					if ids[x] != "" {
						fmt.Fprintf(&sb, " %s: %s%s %s%s", ids[x], req, typ, names[i], c.sep)
					} else {
						fmt.Fprintf(&sb, " %s%s %s%s", req, typ, names[i], c.sep)
					}
				}
				sb.WriteString(" " + c.close)
				seqCopy := append([]int{}, seq...)
				src := strings.ReplaceAll(sb.String(), "\\n", "\n")
				out = append(out, program{Kind: "field-seq:" + c.name, NonStrict: ns, Lit: fmt.Sprint(seq, dupName), Src: src,
					check: func(m *compile.Module) string {
						var fg compile.FieldGroup
						switch c.name {
						case "struct", "union", "exception":
							fg = structOf(m, "S").Fields
						case "args":
							fg = compile.FieldGroup(m.Services["X"].Functions["f"].ArgsSpec)
						case "throws":
							fg = m.Services["X"].Functions["f"].ResultSpec.Exceptions
						}
						if len(fg) != len(seqCopy) {
							return fmt.Sprintf("compiled %d fields, source has %d", len(fg), len(seqCopy))
						}
						seenID := map[int16]string{}
						seenName := map[string]bool{}
						next := int64(-1)
						for i, f := range fg {
							if o, dup := seenID[f.ID]; dup {
								return fmt.Sprintf("fields %s and %s both have id %d", o, f.Name, f.ID)
							}
							seenID[f.ID] = f.Name
							if seenName[f.Name] {
								return "duplicate field name " + f.Name
							}
							seenName[f.Name] = true
							if lit := ids[seqCopy[i]]; lit != "" {
								var v int64
								fmt.Sscan(lit, &v)
								if int64(f.ID) != v {
									return fmt.Sprintf("field %s: compiled id %d, source says %s", f.Name, f.ID, lit)
								}
								if v < 0 {
									next = v - 1
								}
							} else {
								if int64(f.ID) != next {
									return fmt.Sprintf("field %s: auto-assigned id %d, expected %d", f.Name, f.ID, next)
								}
								next--
							}
						}
						return ""
					}})
			}
		}
	}
	rec = func(seq []int) {
		if len(seq) > 0 {
			emit(seq, false)
			if len(seq) > 1 {
				emit(seq, true)
			}
		}
		if len(seq) == 3 {
			return
		}
		for x := range ids {
			rec(append(append([]int{}, seq...), x))
		}
	}
	rec(nil)
	return out
}

// enumSequences enumerates every enum with <=3 items, names over {A,a,B},
// values over {unset,0,1,-1}. On acceptance: names unique ignoring case,
// explicit values as written, implicit values previous+1 (first: 0).
func enumSequences() []program {
	names := []string{"A", "a", "B"}
	vals := []string{"", "0", "1", "-1"}
	var out []program
	var rec func(ns, vs []int)
	rec = func(ns, vs []int) {
		if len(ns) > 0 {
			var sb strings.Builder
			sb.WriteString("enum E {")
			for i := range ns {
				sb.WriteString(" " + names[ns[i]])
				if vals[vs[i]] != "" {
					sb.WriteString(" = " + vals[vs[i]])
				}
				sb.WriteString(",")
			}
			sb.WriteString(" }")
			nsC, vsC := append([]int{}, ns...), append([]int{}, vs...)
			out = append(out, program{Kind: "enum-seq", Lit: fmt.Sprint(ns, vs), Src: sb.String(),
				check: func(m *compile.Module) string {
					e, _ := m.Types["E"].(*compile.EnumSpec)
					if e == nil || len(e.Items) != len(nsC) {
						return "enum E missing or wrong item count"
					}
					seen := map[string]bool{}
					prev := int64(-1)
					for i, it := range e.Items {
						l := strings.ToLower(it.Name)
						if seen[l] {
							return "duplicate enum item (ignoring case) " + it.Name
						}
						seen[l] = true
						want := prev + 1
						if v := vals[vsC[i]]; v != "" {
							fmt.Sscan(v, &want)
						}
						if int64(it.Value) != want {
							return fmt.Sprintf("item %s compiled to %d, expected %d", it.Name, it.Value, want)
						}
						prev = want
					}
					return ""
				}})
		}
		if len(ns) == 3 {
			return
		}
		for n := range names {
			for v := range vals {
				rec(append(append([]int{}, ns...), n), append(append([]int{}, vs...), v))
			}
		}
	}
	rec(nil, nil)
	return out
}

func run(w *ev.W) {
	ps := programs()
	if rp := w.Args["replay"]; rp != "" {
		raw, _ := os.ReadFile(rp)
		var f struct {
			First struct {
				Replay program `json:"replay"`
			} `json:"first"`
		}
		json.Unmarshal(raw, &f)
		for _, p := range ps {
			if p.Kind == f.First.Replay.Kind && p.Lit == f.First.Replay.Lit && p.Src == f.First.Replay.Src {
				one(w, p)
			}
		}
		return
	}
	for _, p := range ps {
		if !w.Own() {
			continue
		}
		w.Progress(fmt.Sprintf("%s src=%q", p.Kind, p.Src))
		one(w, p)
		w.Done()
	}
}

func sigLit(l string) string {
	return l
}

func one(w *ev.W, p program) {
	w.Eval(1)
	w.Nontrivial(1)
	if w.WantSample() && w.Idx()%53 == 0 {
		w.Sample(map[string]interface{}{"kind": p.Kind, "src": p.Src, "non_strict": p.NonStrict})
	}
	var m *compile.Module
	var err error
	var pan interface{}
	func() {
		defer func() { pan = recover() }()
		m, err = compileSrc(p)
	}()
	if pan != nil {
		w.Violation("panic:"+p.Kind, fmt.Sprintf("compile panicked on %q: %v", p.Src, pan), p)
		return
	}
	if err != nil {
		w.Outcome("rejected:" + p.Kind)
		return
	}
	var msg string
	func() {
		defer func() {
			if r := recover(); r != nil {
				msg = fmt.Sprintf("inspecting the compiled module panicked: %v", r)
			}
		}()
		msg = p.check(m)
	}()
	if msg != "" {
		w.Violation("wrap:"+p.Kind, fmt.Sprintf("%q (non-strict=%v): %s", p.Src, p.NonStrict, msg), p)
		w.Outcome("accepted-ill-formed:" + p.Kind)
		return
	}
	w.Outcome("accepted-well-formed:" + p.Kind)
}
