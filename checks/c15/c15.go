// Package c15: redacted and no-log fields never leak into strings, errors or
// logs (DESIGN.md §3 C15).
package c15

import (
	"fmt"
	"go.uber.org/thriftrw/gen"
	"path/filepath"
	"reflect"
	"strings"
	"time"

	"go.uber.org/zap"
	"go.uber.org/zap/zapcore"
	"verif/cells"
	"verif/cells/reg"
	"verif/engine/ev"
	"verif/ref/reflectval"
	"verif/ref/schema"
)

// Check is the registered check.
var Check = &ev.Check{
	ID:    "C15",
	Level: "exploration",
	Rule: "programs: for every type expression of the slim cell universe (20 leaves, list/set/slice-set of every leaf, 24 maps) one struct (required and optional variants; every 3rd as exception) with four fields of that type annotated {none, go.redact, go.nolog, both}, one union per type with the same four members; " +
		"wrappers placing 6 representative annotated structs as a field, list element, slice-set element, map value, unhashable map key, behind a typedef, and two levels deep; generated with and without Zap (NoZap). " +
		"values: for every field position every ordered pair of DISTINCT alphabet values (all other fields fixed), i.e. two values differing only in that field. " +
		"Oracle (differential, format-agnostic): for a redacted field String(), Error() and the zapcore JSON are IDENTICAL for the two values (the output does not depend on the value at all); for a no-log field the zap JSON is identical and does not contain the field's key; " +
		"for a field that is neither, String() shows the field name, the zap JSON carries the field's key, and at least one pair of alphabet values yields different outputs. A case is (struct, field, value pair, nesting context); non-trivial = every case.",
	Prepare: func(s *ev.S) error {
		p, _ := extra()
		_, err := cells.Prepare(s, cells.Options{Slim: true, Extra: p, GenOptions: func(path string, o *gen.Options) {
			if strings.HasPrefix(filepath.Base(path), "n") {
				o.NoZap = true // the n*.thrift files are the copies generated without Zap
			}
		}})
		return err
	},
	Run: run,
	Budget: func(t string) time.Duration {
		return map[string]time.Duration{"quick": 4 * time.Minute, "thorough": 20 * time.Minute}[t]
	},
	Assumptions: []string{"'does not contain the value' is checked as 'the output is independent of the value', which implies it for every value of the alphabet and needs no knowledge of the output format"},
}

type target struct {
	File string
	Pkg  string
	Def  string
	Kind string
	// path from the top-level type to the annotated struct: "" = the struct itself
	Context string
	Inner   string // annotated struct's def name (in the same file)
	Label   string // type expression label
	NoZap   bool   // generated without Zap support
}

type annot struct{ name, text, goName string }

var annots = []annot{{"Plain", "", ""}, {"Redacted", "go.redact", ""}, {"Nolog", "go.nolog", ""}, {"Both", "go.redact, go.nolog", ""}}

// annotsRenamed: the annotated fields also renamed with go.name (representative types only)
var annotsRenamed = []annot{{"Plain", "", ""}, {"RedactedRenamed", `go.redact, go.name = "SecretX"`, "SecretX"}, {"NologRenamed", `go.nolog, go.name = "QuietX"`, "QuietX"},
	{"BothRenamed", `go.name = "HushX", go.nolog, go.redact`, "HushX"}}

// annotsValued: the annotations written with a value (the annotation counts by its
// presence, whatever text follows the equals sign)
var annotsValued = []annot{{"Plain", "", ""}, {"RedactedValued", `go.redact = "pii"`, ""}, {"NologValued", `go.nolog = "secret"`, ""}, {"BothValued", `go.redact = "", go.nolog = "1"`, ""},
	{"RedactedYes", `go.redact = "yes"`, ""}}

// annotOrders: every order in which the four annotation sets can be declared in one struct
func annotOrders() [][]annot {
	var out [][]annot
	var rec func(cur []annot, used int)
	rec = func(cur []annot, used int) {
		if len(cur) == len(annots) {
			out = append(out, append([]annot{}, cur...))
			return
		}
		for i, a := range annots {
			if used&(1<<i) == 0 {
				rec(append(cur, a), used|1<<i)
			}
		}
	}
	rec(nil, 0)
	return out[1:] // the declaration order itself is the standard struct
}

// extra builds the C15 program (files r0.thrift ...) and the list of targets.
func extra() (*schema.Program, []target) {
	p := &schema.Program{}
	var ts []target
	base, _ := cells.Universe(true)
	_ = base
	tes := cells.TypeExprs(true)
	var cur *schema.File
	n := 0
	newFile := func() {
		cur = &schema.File{Path: fmt.Sprintf("r%d.thrift", len(p.Files)), Includes: []string{"./base.thrift"}}
		p.Files = append(p.Files, cur)
	}
	fieldsOf := func(t *schema.Type, req schema.Requiredness, as []annot) []schema.Field {
		var fs []schema.Field
		for i, a := range as {
			fs = append(fs, schema.Field{ID: int16(i + 1), Name: a.name, Type: t, Req: req, Annot: a.text, GoName: a.goName})
		}
		return fs
	}
	fieldsFor := func(t *schema.Type, req schema.Requiredness) []schema.Field { return fieldsOf(t, req, annots) }
	reps := map[string]string{}
	for i, te := range tes {
		if cur == nil || len(cur.Defs) >= 6 {
			newFile()
		}
		for _, req := range []schema.Requiredness{schema.Required, schema.Optional} {
			kind := "struct"
			if i%3 == 2 {
				kind = "exception"
			}
			name := fmt.Sprintf("R%d", n)
			n++
			cur.Defs = append(cur.Defs, &schema.Def{Kind: kind, Name: name, Fields: fieldsFor(te.T, req)})
			ts = append(ts, target{File: cur.Path, Pkg: pkg(cur.Path), Def: name, Kind: kind, Inner: name, Label: te.Label})
			if req == schema.Optional {
				switch te.Label {
				case "string", "binary", "P", "list<string>", "map<string,i32>", "i64":
					reps[te.Label] = name
					// wrappers live in the same file as the struct they wrap
					R := schema.Named(name)
					tdef := "T" + name
					cur.Defs = append(cur.Defs, &schema.Def{Kind: "typedef", Name: tdef, Target: R})
					ctxs := []struct {
						ctx string
						t   *schema.Type
					}{
						{"field", R}, {"list", schema.ListOf(R)}, {"sliceset", schema.SliceSetOf(R)}, {"mapvalue", schema.MapOf(schema.Prim(schema.String), R)},
						{"mapkey", schema.MapOf(R, schema.Prim(schema.String))}, {"typedef", schema.Named(tdef)}, {"listlist", schema.ListOf(schema.ListOf(R))},
					}
					for _, c := range ctxs {
						wn := fmt.Sprintf("W%d", n)
						n++
						cur.Defs = append(cur.Defs, &schema.Def{Kind: "struct", Name: wn, Fields: []schema.Field{{ID: 1, Name: "Holder", Type: c.t, Req: schema.Optional}}})
						ts = append(ts, target{File: cur.Path, Pkg: pkg(cur.Path), Def: wn, Kind: "struct", Context: c.ctx, Inner: name, Label: te.Label})
					}
					// the same four fields renamed with go.name, as struct and as exception
					for _, kd := range []string{"struct", "exception"} {
						rn := fmt.Sprintf("R%d", n)
						n++
						cur.Defs = append(cur.Defs, &schema.Def{Kind: kd, Name: rn, Fields: fieldsOf(te.T, schema.Optional, annotsRenamed)})
						ts = append(ts, target{File: cur.Path, Pkg: pkg(cur.Path), Def: rn, Kind: kd, Inner: rn, Label: te.Label + " renamed"})
					}
					// the same annotations written with values
					for _, kd := range []string{"struct", "exception"} {
						vn := fmt.Sprintf("R%d", n)
						n++
						cur.Defs = append(cur.Defs, &schema.Def{Kind: kd, Name: vn, Fields: fieldsOf(te.T, schema.Optional, annotsValued)})
						ts = append(ts, target{File: cur.Path, Pkg: pkg(cur.Path), Def: vn, Kind: kd, Inner: vn, Label: te.Label + " valued"})
					}
					// every other declaration order of the four annotation sets (string and list<string> only)
					if te.Label == "string" || te.Label == "list<string>" {
						newFile()
						for _, order := range annotOrders() {
							on := fmt.Sprintf("R%d", n)
							n++
							cur.Defs = append(cur.Defs, &schema.Def{Kind: "struct", Name: on, Fields: fieldsOf(te.T, schema.Optional, order)})
							ts = append(ts, target{File: cur.Path, Pkg: pkg(cur.Path), Def: on, Kind: "struct", Inner: on, Label: te.Label + " reordered"})
						}
					}
					newFile()
				}
			}
		}
		uname := fmt.Sprintf("R%d", n)
		n++
		cur.Defs = append(cur.Defs, &schema.Def{Kind: "union", Name: uname, Fields: fieldsFor(te.T, schema.Optional)})
		ts = append(ts, target{File: cur.Path, Pkg: pkg(cur.Path), Def: uname, Kind: "union", Inner: uname, Label: te.Label})
	}
	// the files holding the representative structs and their wrappers, and every
	// fourth other file, once more under the name n<k>.thrift: generated with NoZap
	var clones []*schema.File
	var cts []target
	for i, f := range p.Files {
		hasWrapper := false
		for _, d := range f.Defs {
			if strings.HasPrefix(d.Name, "W") {
				hasWrapper = true
			}
		}
		if !hasWrapper && i%4 != 0 {
			continue
		}
		c := &schema.File{Path: "n" + strings.TrimPrefix(f.Path, "r"), Includes: f.Includes, Defs: f.Defs}
		clones = append(clones, c)
		for _, t := range ts {
			if t.File == f.Path {
				t.File, t.Pkg, t.NoZap = c.Path, pkg(c.Path), true
				cts = append(cts, t)
			}
		}
	}
	p.Files = append(p.Files, clones...)
	ts = append(ts, cts...)
	return p, ts
}

func pkg(path string) string { return strings.TrimSuffix(path, ".thrift") }

func zapJSON(v interface{}) (string, error) {
	om, ok := v.(zapcore.ObjectMarshaler)
	if !ok {
		return "", fmt.Errorf("not an ObjectMarshaler")
	}
	enc := zapcore.NewJSONEncoder(zapcore.EncoderConfig{MessageKey: "m"})
	buf, err := enc.EncodeEntry(zapcore.Entry{Message: "x"}, []zapcore.Field{zap.Object("obj", om)})
	if err != nil {
		return "", err
	}
	return buf.String(), nil
}

func run(w *ev.W) {
	univ, _ := cells.Universe(true)
	ex, targets := extra()
	p := &schema.Program{Files: append(append([]*schema.File{}, univ.Files...), ex.Files...)}
	conv := &reflectval.Conv{P: p}
	files := map[string]*schema.File{}
	for _, f := range p.Files {
		files[f.Path] = f
	}
	for _, tg := range targets {
		if !w.Own() {
			continue
		}
		if w.Expired() {
			w.Cap("time budget reached before all annotated structs were explored")
			return
		}
		ent, ok := reg.Find(tg.Pkg, tg.Def)
		if !ok {
			w.Count("skipped_cells(not compiled or rejected; see C06)", 1)
			continue
		}
		f := files[tg.File]
		var inner, outer *schema.Def
		for _, d := range f.Defs {
			if d.Name == tg.Inner {
				inner = d
			}
			if d.Name == tg.Def {
				outer = d
			}
		}
		explore(w, p, conv, f, tg, ent, inner, outer)
		w.Done()
	}
}

// wrap builds the outer logical value holding the inner struct value in the target's context.
func wrap(tg target, iv *schema.Val) *schema.Val {
	switch tg.Context {
	case "":
		return iv
	case "field", "typedef":
		return schema.Rec(map[string]*schema.Val{"Holder": iv})
	case "list", "sliceset":
		return schema.Rec(map[string]*schema.Val{"Holder": schema.Seq(*iv)})
	case "mapvalue":
		return schema.Rec(map[string]*schema.Val{"Holder": schema.Seq(*schema.Str("k"), *iv)})
	case "mapkey":
		return schema.Rec(map[string]*schema.Val{"Holder": schema.Seq(*iv, *schema.Str("v"))})
	case "listlist":
		return schema.Rec(map[string]*schema.Val{"Holder": schema.Seq(*schema.Seq(*iv))})
	}
	return iv
}

func explore(w *ev.W, p *schema.Program, conv *reflectval.Conv, f *schema.File, tg target, ent reg.Entry, inner, outer *schema.Def) {
	outerT := schema.Named(outer.Name)
	render := func(iv *schema.Val) (str, errStr, zj string, problem string) {
		rv, err := conv.FromLogical(f, outerT, wrap(tg, iv), reflect.PtrTo(ent.Type))
		if err != nil {
			return "", "", "", "shape: " + err.Error()
		}
		defer func() {
			if r := recover(); r != nil {
				problem = fmt.Sprintf("PANIC %v", r)
			}
		}()
		x := rv.Interface()
		if s, ok := x.(fmt.Stringer); ok {
			str = s.String()
		}
		if e, ok := x.(error); ok {
			errStr = e.Error()
		}
		zj, _ = zapJSON(x)
		return
	}
	alpha := p.D(f, inner.Fields[0].Type)
	if len(alpha) < 2 {
		return
	}
	for fi, fd := range inner.Fields {
		redact := strings.Contains(fd.Annot, "go.redact")
		nolog := strings.Contains(fd.Annot, "go.nolog")
		anyStringDiff, anyZapDiff, sawZap := false, false, false
		var lastViol func(class, detail string)
		for ai, a := range alpha {
			for bi, b := range alpha {
				if ai == bi || p.Key(f, fd.Type, a) == p.Key(f, fd.Type, b) {
					continue
				}
				mk := func(x *schema.Val) *schema.Val {
					v := schema.Rec(nil)
					if inner.Kind == "union" {
						v.Fields[fd.Name] = x
						return v
					}
					for _, o := range inner.Fields {
						v.Fields[o.Name] = alpha[0]
					}
					v.Fields[fd.Name] = x
					return v
				}
				w.Eval(1)
				w.Nontrivial(1)
				s1, e1, z1, pr1 := render(mk(a))
				s2, e2, z2, pr2 := render(mk(b))
				desc := fmt.Sprintf("%s.%s (%s of %s, context %q) field %s values %.80s vs %.80s", tg.Pkg, tg.Def, inner.Kind, tg.Label, tg.Context, fd.Name, p.Key(f, fd.Type, a), p.Key(f, fd.Type, b))
				viol := func(class, detail string) {
					w.Violation(class+":"+inner.Kind+":ctx="+tg.Context, desc+": "+detail, map[string]string{"cell": tg.Pkg + "." + tg.Def, "field": fd.Name, "type": tg.Label})
				}
				if pr1 != "" || pr2 != "" {
					viol("panic-or-shape", pr1+" "+pr2)
					continue
				}
				lastViol = viol
				if s1 != s2 {
					anyStringDiff = true
				}
				if z1 != "" {
					sawZap = true
					if z1 != z2 {
						anyZapDiff = true
					}
				}
				if w.WantSample() && fi == 1 && ai == 0 && bi == 1 && tg.Context != "" {
					w.Sample(map[string]string{"case": desc, "String": s1, "zap": z1})
				}
				hasKey := strings.Contains(z1, "\""+fd.Name+"\":") || strings.Contains(z1, "\""+fd.GoIdent()+"\":")
				switch {
				case redact:
					if s1 != s2 {
						viol("redacted-leaks-in-String", fmt.Sprintf("String() depends on the redacted value: %.200q vs %.200q", s1, s2))
					}
					if e1 != e2 {
						viol("redacted-leaks-in-Error", fmt.Sprintf("Error() depends on the redacted value: %.200q vs %.200q", e1, e2))
					}
					if z1 != z2 {
						viol("redacted-leaks-in-zap", fmt.Sprintf("zap output depends on the redacted value: %.200q vs %.200q", z1, z2))
					}
					if nolog && hasKey && tg.Context == "" {
						viol("nolog-field-logged", "a go.nolog field appears in zap output: "+z1)
					}
					w.Outcome("redacted-independent")
				case nolog:
					if z1 != z2 {
						viol("nolog-leaks-in-zap", fmt.Sprintf("zap output depends on the no-log value: %.200q vs %.200q", z1, z2))
					}
					if hasKey && z1 != "" {
						viol("nolog-field-logged", "a go.nolog field appears in zap output: "+z1)
					}
					if !strings.Contains(s1, fd.GoIdent()+":") {
						viol("unredacted-field-missing-in-String", fmt.Sprintf("a go.nolog (not redacted) field is not shown by String(): %.200q", s1))
					}
					w.Outcome("nolog-independent")
				default:
					if !strings.Contains(s1, fd.Name+":") {
						viol("plain-field-missing-in-String", fmt.Sprintf("String() does not show the field: %.200q", s1))
					}
					if z1 != "" && !hasKey {
						viol("plain-field-label-missing-in-zap", fmt.Sprintf("zap output lacks key %q: %.200q", fd.Name, z1))
					}
					w.Outcome("plain-visible")
				}
			}
		}
		// a visible field's value must influence the output for at least one pair of
		// alphabet values (some pairs, e.g. [] and [""], legitimately print alike)
		if lastViol != nil && !redact {
			if !anyStringDiff {
				lastViol("visible-field-value-never-shown-in-String", "no two alphabet values of this field produce different String() output")
			}
			if !nolog && sawZap && !anyZapDiff {
				lastViol("visible-field-value-never-shown-in-zap", "no two alphabet values of this field produce different zap output")
			}
		}
	}
}
