// Package c12: RPC envelopes — framing is detected, echoed, and round-trips
// exactly (DESIGN.md §3 C12).
package c12

import (
	"bytes"
	"context"
	"encoding/hex"
	"encoding/json"
	"fmt"
	"go.uber.org/thriftrw/verifhook"
	"math"
	"os"
	"strings"
	"time"

	"go.uber.org/thriftrw/protocol/binary"
	"go.uber.org/thriftrw/protocol/stream"
	"go.uber.org/thriftrw/wire"
	"verif/bridge/chunk"
	"verif/bridge/wirex"
	"verif/engine/ev"
	"verif/ref/tbin"
)

// Check is the registered check.
var Check = &ev.Check{
	ID:    "C12",
	Level: "exploration",
	Rule: "server family: internal/envelope.Server over internal/multiplex handlers (Svc, Svc:ns, Outer->Inner, empty) for 13 names with 0..3 colons x 2 framings x 5 seqids x 3 bodies, dispatch by the first colon, reply type/name/seqid/body; chains of <=2 multiplex clients over the envelope client x 5 method names against that server. structured family: name in {a, Svc:method, 255*x, non-UTF8, NUL-containing, 65536*n; thorough +65535 and 65793 bytes} x envelope type 0..127 (all) x seqid in {0,1,-1,min,max} x body in {empty, one i32, nested struct+list} " +
		"x framing {strict, legacy, bare} x expected type {Call, OneWay} x API {DecodeRequest, ReadRequest} x reader {non-seekable, seekable, pipe-like: has a Seek method that always fails, as an *os.File on a pipe does} x read segmentations (all <=2-cut chunkings for messages <=24 bytes; " +
		"whole, all-1-byte, first-read-1-byte, zero-length reads and every single cut beyond); plus envelope encode/decode round trips through the value and stream APIs against ref/tbin bytes. " +
		"classification family: every byte string of length<=5 (quick) / <=6 (thorough) over {00,01,02,04,08,0b,0c,0f,7f,80,81,ff}, and every strict / legacy message with the EMPTY name x type 0..127 x 5 seqids x 3 bodies, under all <=2-cut chunkings. sequence family: every ordered pair (a,b) and triple (a,b,a) of 16 requests on ONE server, all replies held to the end (unchanged, each echoing its own request). " +
		"A case is one (message, expected type); cases are distinct by construction; every case is non-trivial (it exercises framing detection).",
	Run: run,
	Budget: func(t string) time.Duration {
		return map[string]time.Duration{"quick": 4 * time.Minute, "thorough": 25 * time.Minute}[t]
	},
	Assumptions: []string{
		"the empty method name is outside the property's domain (1..2^16 bytes): a legacy envelope with a zero-length name is indistinguishable from a version word; it is run and only noted",
		"DecodeRequest 'accepts' means decode succeeded and forcing every lazy container of the body succeeded",
	},
}

var alpha12 = []byte{0x00, 0x01, 0x02, 0x04, 0x08, 0x0b, 0x0c, 0x0f, 0x7f, 0x80, 0x81, 0xff}

type payload struct {
	Msg  string `json:"msg"`
	ET   int8   `json:"expected_type"`
	Desc string `json:"desc"`
}

type runner struct{ w *ev.W }

func (r *runner) viol(class string, msg []byte, et int8, desc, detail string) {
	m := hex.EncodeToString(msg)
	if len(m) > 200 {
		m = m[:200] + fmt.Sprintf("..(%d bytes)", len(msg))
	}
	r.w.Violation(class, fmt.Sprintf("%s: msg=%s expected_type=%d :: %s", desc, m, et, detail), payload{Msg: hex.EncodeToString(msg), ET: et, Desc: desc})
}

// outcome of one request API call.
type reqResult struct {
	ok      bool
	errs    string
	framing string // responder kind
	body    string // key of decoded body
	reply   []byte
	panic   string
}

var replyBody = tbin.Value{T: tbin.Struct, Fields: []tbin.Field{{ID: 0, V: tbin.Value{T: tbin.Binary, B: []byte("ok")}}}}

func respKind(x interface{}) string {
	switch x.(type) {
	case *binary.EnvelopeV0Responder, binary.EnvelopeV0Responder:
		return tbin.FramingLegacy
	case *binary.EnvelopeV1Responder, binary.EnvelopeV1Responder:
		return tbin.FramingStrict
	}
	if x == interface{}(binary.NoEnvelopeResponder) {
		return tbin.FramingBare
	}
	return fmt.Sprintf("%T", x)
}

func decodeRequest(msg []byte, et int8) (res reqResult) {
	defer func() {
		if p := recover(); p != nil {
			res = reqResult{panic: fmt.Sprint(p)}
		}
	}()
	v, resp, err := binary.Default.DecodeRequest(wire.EnvelopeType(et), bytes.NewReader(msg))
	if err != nil {
		return reqResult{errs: err.Error()}
	}
	mv, ferr := wirex.FromWire(v)
	if ferr != nil {
		return reqResult{errs: "forcing: " + ferr.Error()}
	}
	res.ok = true
	res.body = mv.Key()
	res.framing = respKind(resp)
	var buf bytes.Buffer
	if err := resp.EncodeResponse(wirex.ToWire(replyBody), wire.Reply, &buf); err != nil {
		res.errs = "EncodeResponse: " + err.Error()
	}
	res.reply = buf.Bytes()
	return res
}

type bodyReader struct {
	v    tbin.Value
	skip bool // behave like generated code reading an older schema: Skip every field
}

func (b *bodyReader) Decode(sr stream.Reader) error {
	if b.skip {
		if err := sr.ReadStructBegin(); err != nil {
			return err
		}
		for {
			fh, ok, err := sr.ReadFieldBegin()
			if err != nil {
				return err
			}
			if !ok {
				break
			}
			if err := sr.Skip(fh.Type); err != nil {
				return err
			}
			if err := sr.ReadFieldEnd(); err != nil {
				return err
			}
		}
		return sr.ReadStructEnd()
	}
	v, err := wirex.StreamRead(sr, tbin.Struct)
	b.v = v
	return err
}

type enveloper struct{}

func (enveloper) MethodName() string              { return "ignored" }
func (enveloper) EnvelopeType() wire.EnvelopeType { return wire.Reply }
func (enveloper) Encode(sw stream.Writer) error   { return wirex.StreamWrite(sw, replyBody) }

func readRequest(msg []byte, et int8, ck chunk.Chunking, seekable int) (res reqResult) {
	res = readRequestWith(msg, et, ck, seekable, false)
	// the same request read by a body reader that skips every field (what
	// generated code does with fields it does not know): must agree on
	// acceptance, framing and reply.
	sk := readRequestWith(msg, et, ck, seekable, true)
	if sk.panic != "" {
		return sk
	}
	if res.panic == "" && (sk.ok != res.ok || sk.framing != res.framing || !bytes.Equal(sk.reply, res.reply)) {
		if res.ok && !sk.ok {
			res.ok = false
			res.errs = "skipping body reader rejected what the decoding body reader accepted: " + sk.errs
		} else if res.ok {
			res.errs = fmt.Sprintf("skipping body reader disagrees: framing %s reply %x", sk.framing, sk.reply)
		}
	}
	return res
}

// seekable: 0 = plain io.Reader, 1 = io.Seeker that works, 2 = io.Seeker whose Seek fails (a pipe)
func readRequestWith(msg []byte, et int8, ck chunk.Chunking, seekable int, skip bool) (res reqResult) {
	defer func() {
		if p := recover(); p != nil {
			res = reqResult{panic: fmt.Sprint(p)}
		}
	}()
	cr := ck.New(msg)
	br := bodyReader{skip: skip}
	var rw stream.ResponseWriter
	var err error
	if seekable == 1 {
		rw, err = binary.Default.ReadRequest(context.Background(), wire.EnvelopeType(et), chunk.Seekable{Reader: cr}, &br)
	} else if seekable == 2 {
		rw, err = binary.Default.ReadRequest(context.Background(), wire.EnvelopeType(et), chunk.PipeLike{Reader: cr}, &br)
	} else {
		rw, err = binary.Default.ReadRequest(context.Background(), wire.EnvelopeType(et), cr, &br)
	}
	if err != nil {
		return reqResult{errs: err.Error()}
	}
	res.ok = true
	res.body = br.v.Key()
	res.framing = respKind(rw)
	var buf bytes.Buffer
	if err := rw.WriteResponse(wire.Reply, &buf, enveloper{}); err != nil {
		res.errs = "WriteResponse: " + err.Error()
	}
	res.reply = buf.Bytes()
	return res
}

func chunkingsFor(n int) []chunk.Chunking {
	if n <= 24 {
		return chunk.All(n, true, true)
	}
	if n <= 600 {
		return chunk.All(n, true, false)
	}
	cs := chunk.All(n, false, false)
	for _, i := range []int{1, 2, 3, 4, 5, 7, 8, 9, n - 5, n - 4, n - 1} {
		cs = append(cs, chunk.Chunking{Name: fmt.Sprintf("cut%d", i), Cuts: []int{i}})
	}
	return cs
}

// structured case: known framing, envelope and body.
func (r *runner) structured(name []byte, typ int8, seq int32, body tbin.Value, framing string, et int8) {
	w := r.w
	w.Eval(1)
	w.Nontrivial(1)
	e := tbin.Envelope{Name: name, Type: typ, SeqID: seq}
	bb := tbin.Encode(body)
	var msg []byte
	switch framing {
	case tbin.FramingStrict:
		msg = tbin.EncodeStrict(e, bb)
	case tbin.FramingLegacy:
		msg = tbin.EncodeLegacy(e, bb)
	default:
		msg = bb
	}
	nm := name
	if len(nm) > 12 {
		nm = nm[:12]
	}
	desc := fmt.Sprintf("framing=%s name=%q(len %d) type=%d seqid=%d body=%s", framing, nm, len(name), typ, seq, body.Key())
	if w.WantSample() && w.Idx()%911 == 0 {
		w.Sample(map[string]interface{}{"desc": desc, "expected_type": et})
	}
	wantOK := framing == tbin.FramingBare || typ == et
	var wantReply []byte
	rb := tbin.Encode(replyBody)
	switch framing {
	case tbin.FramingStrict:
		wantReply = tbin.EncodeStrict(tbin.Envelope{Name: name, Type: 2, SeqID: seq}, rb)
	case tbin.FramingLegacy:
		wantReply = tbin.EncodeLegacy(tbin.Envelope{Name: name, Type: 2, SeqID: seq}, rb)
	default:
		wantReply = rb
	}
	judge := func(api string, res reqResult) {
		switch {
		case res.panic != "":
			r.viol("panic:"+api, msg, et, desc, api+" panicked: "+res.panic)
		case wantOK && !res.ok:
			r.viol("reject-valid:"+api+":"+framing, msg, et, desc, api+" rejected a valid request: "+res.errs)
		case !wantOK && res.ok:
			r.viol("accept-wrong-type:"+api+":"+framing, msg, et, desc, api+" accepted an envelope of the wrong message type")
		case res.ok:
			if res.errs != "" {
				r.viol("response-error:"+api+":"+framing, msg, et, desc, res.errs)
			}
			if res.framing != framing {
				r.viol("framing:"+api+":"+framing, msg, et, desc, fmt.Sprintf("%s detected framing %s", api, res.framing))
			}
			if res.body != body.Key() {
				r.viol("body:"+api+":"+framing, msg, et, desc, fmt.Sprintf("%s decoded body %s", api, res.body))
			}
			if !bytes.Equal(res.reply, wantReply) {
				r.viol("reply:"+api+":"+framing, msg, et, desc, fmt.Sprintf("%s reply %s, want %s", api, hex.EncodeToString(res.reply), hex.EncodeToString(wantReply)))
			}
			w.Outcome("accept:" + framing)
		default:
			w.Outcome("reject-wrong-type:" + framing)
		}
	}
	judge("DecodeRequest", decodeRequest(msg, et))
	for _, ck := range chunkingsFor(len(msg)) {
		judge("ReadRequest["+chunkClass(ck)+"]", readRequest(msg, et, ck, 0))
		judge("ReadRequest[seekable,"+chunkClass(ck)+"]", readRequest(msg, et, ck, 1))
		judge("ReadRequest[pipe-like,"+chunkClass(ck)+"]", readRequest(msg, et, ck, 2))
		w.Count("readrequest_runs", 3)
	}
}

// chunkClass reduces a chunking to a class usable in a signature: whether the
// first read returns fewer than 2 bytes matters for framing detection.
func chunkClass(ck chunk.Chunking) string {
	short := ck.One || ck.First == 1 || ck.Zero || (len(ck.Cuts) > 0 && ck.Cuts[0] == 1)
	if short {
		return "first-read<2"
	}
	return "first-read>=2"
}

// envelope round trips through the four envelope codec entry points.
func (r *runner) roundtrip(name []byte, typ int8, seq int32, body tbin.Value) {
	w := r.w
	w.Eval(1)
	w.Nontrivial(1)
	e := tbin.Envelope{Name: name, Type: typ, SeqID: seq}
	bb := tbin.Encode(body)
	strict := tbin.EncodeStrict(e, bb)
	legacy := tbin.EncodeLegacy(e, bb)
	desc := fmt.Sprintf("roundtrip name(len %d) type=%d seqid=%d body=%s", len(name), typ, seq, body.Key())
	func() {
		defer func() {
			if p := recover(); p != nil {
				r.viol("panic:roundtrip", strict, 0, desc, fmt.Sprint(p))
			}
		}()
		var buf bytes.Buffer
		err := binary.Default.EncodeEnveloped(wire.Envelope{Name: string(name), Type: wire.EnvelopeType(typ), SeqID: seq, Value: wirex.ToWire(body)}, &buf)
		if err != nil || !bytes.Equal(buf.Bytes(), strict) {
			r.viol("encode-enveloped", strict, 0, desc, fmt.Sprintf("EncodeEnveloped = %s err=%v", hex.EncodeToString(buf.Bytes()), err))
		}
		var sbuf bytes.Buffer
		sw := binary.Default.Writer(&sbuf)
		err = sw.WriteEnvelopeBegin(stream.EnvelopeHeader{Name: string(name), Type: wire.EnvelopeType(typ), SeqID: seq})
		if err == nil {
			err = wirex.StreamWrite(sw, body)
		}
		if err == nil {
			err = sw.WriteEnvelopeEnd()
		}
		sw.Close()
		if err != nil || !bytes.Equal(sbuf.Bytes(), strict) {
			r.viol("stream-write-envelope", strict, 0, desc, fmt.Sprintf("stream envelope writer = %s err=%v", hex.EncodeToString(sbuf.Bytes()), err))
		}
		for fr, msg := range map[string][]byte{tbin.FramingStrict: strict, tbin.FramingLegacy: legacy} {
			de, err := binary.Default.DecodeEnveloped(bytes.NewReader(msg))
			if err != nil {
				r.viol("decode-enveloped:"+fr, msg, 0, desc, "DecodeEnveloped failed: "+err.Error())
			} else {
				mv, ferr := wirex.FromWire(de.Value)
				if ferr != nil || de.Name != string(name) || int8(de.Type) != typ || de.SeqID != seq || mv.Key() != body.Key() {
					r.viol("decode-enveloped:"+fr, msg, 0, desc, fmt.Sprintf("DecodeEnveloped = name %q type %d seq %d body %s err=%v", de.Name, de.Type, de.SeqID, mv.Key(), ferr))
				}
			}
			for _, ck := range []chunk.Chunking{{Name: "whole"}, {Name: "1byte", One: true}} {
				sr := binary.Default.Reader(ck.New(msg))
				eh, err := sr.ReadEnvelopeBegin()
				var bv tbin.Value
				if err == nil {
					bv, err = wirex.StreamRead(sr, tbin.Struct)
				}
				if err == nil {
					err = sr.ReadEnvelopeEnd()
				}
				sr.Close()
				if err != nil || eh.Name != string(name) || int8(eh.Type) != typ || eh.SeqID != seq || bv.Key() != body.Key() {
					r.viol("stream-read-envelope:"+fr, msg, 0, desc, fmt.Sprintf("stream ReadEnvelopeBegin = name %q type %d seq %d body %s err=%v", eh.Name, eh.Type, eh.SeqID, bv.Key(), err))
				}
			}
		}
		w.Outcome("roundtrip-ok")
	}()
}

// classification agreement on an arbitrary byte string.
func (r *runner) classify(msg []byte, et int8) {
	w := r.w
	w.Eval(1)
	w.Nontrivial(1)
	dr := decodeRequest(msg, et)
	desc := "classification"
	if dr.panic != "" {
		r.viol("panic:DecodeRequest", msg, et, desc, dr.panic)
	}
	acc := 0
	for _, ck := range chunk.All(len(msg), true, true) {
		for _, seek := range []int{0, 1, 2} {
			rr := readRequest(msg, et, ck, seek)
			api := "ReadRequest[" + []string{"", "seekable,", "pipe-like,"}[seek] + chunkClass(ck) + "]"
			if rr.panic != "" {
				r.viol("panic:ReadRequest", msg, et, desc, rr.panic)
				continue
			}
			if dr.ok && !rr.ok {
				r.viol("stream-rejects-what-random-access-accepts:"+chunkClass(ck), msg, et, desc, fmt.Sprintf("DecodeRequest accepted (framing %s body %s) but %s/%s rejected: %s", dr.framing, dr.body, api, ck.Name, rr.errs))
			}
			if dr.ok && rr.ok {
				acc++
				if dr.framing != rr.framing || dr.body != rr.body || !bytes.Equal(dr.reply, rr.reply) {
					r.viol("apis-disagree:"+chunkClass(ck), msg, et, desc, fmt.Sprintf("DecodeRequest: framing %s body %s reply %x; %s/%s: framing %s body %s reply %x", dr.framing, dr.body, dr.reply, api, ck.Name, rr.framing, rr.body, rr.reply))
				}
			}
		}
	}
	switch {
	case dr.ok:
		w.Outcome("classify-both-accept:" + dr.framing)
	default:
		w.Outcome("classify-ra-rejects")
	}
}

// ---- family (c): the envelope server and the multiplexer around it.
// Reference: a multiplexed name is <service>:<method>, split at the FIRST colon; the
// server answers Reply (2) with the handler's body or Exception (3) for an unknown
// service / a name without a colon, always echoing the full request name and the seqid.

type recHandler struct {
	svc    string
	seen   *[]string
	strict bool // knows only the method "ping"; "boom" fails; anything else is an unknown method
}

func (h recHandler) Handle(name string, body wire.Value) (wire.Value, error) {
	*h.seen = append(*h.seen, h.svc+"<-"+name)
	if h.strict {
		switch name {
		case "ping":
		case "boom":
			return wire.Value{}, fmt.Errorf("handler failed")
		default:
			return wire.Value{}, verifhook.EnvelopeErrUnknownMethod(name) // the way generated handlers report it: the name as they received it
		}
	}
	return body, nil
}

type serverTransport struct {
	srv  verifhook.EnvelopeServer
	sent *[][]byte
}

func (t serverTransport) Send(b []byte) ([]byte, error) {
	*t.sent = append(*t.sent, append([]byte{}, b...))
	return t.srv.Handle(b)
}

var muxNames = []string{"Strict:ping", "Strict:frobnicate", "Strict:boom", "Strict:ns:ping", "Svc:ping", "Svc:ns:ping", "Svc::ping", "Svc:ping:", "Svc:", ":ping", "Outer:Inner:ping", "Outer:Inner:a:b", "Unknown:ping", "nocolon", "Svc:ns", "svc:ping", "Svc:ns:"}

func (r *runner) multiplexFamily() {
	w := r.w
	for _, name := range muxNames {
		for _, framing := range []string{tbin.FramingStrict, tbin.FramingLegacy} {
			for _, seq := range []int32{0, 1, -1, math.MinInt32, math.MaxInt32} {
				for bi, body := range bodies {
					if !w.Own() {
						continue
					}
					w.Eval(1)
					w.Nontrivial(1)
					w.Count("multiplex_server_cases", 1)
					var seen []string
					inner := verifhook.NewMultiplexHandler()
					inner.Put("Inner", recHandler{svc: "Outer/Inner", seen: &seen})
					mux := verifhook.NewMultiplexHandler()
					mux.Put("Svc", recHandler{svc: "Svc", seen: &seen})
					mux.Put("Strict", recHandler{svc: "Strict", seen: &seen, strict: true})
					mux.Put("Svc:ns", recHandler{svc: "Svc:ns", seen: &seen}) // unreachable by a first-colon split
					mux.Put("Outer", inner)
					mux.Put("", recHandler{svc: "<empty>", seen: &seen})
					srv := verifhook.NewEnvelopeServer(binary.Default, mux)
					env := tbin.Envelope{Name: []byte(name), Type: 1, SeqID: seq}
					var msg []byte
					if framing == tbin.FramingStrict {
						msg = tbin.EncodeStrict(env, tbin.Encode(body))
					} else {
						msg = tbin.EncodeLegacy(env, tbin.Encode(body))
					}
					desc := fmt.Sprintf("server: name=%q framing=%s seqid=%d body#%d", name, framing, seq, bi)
					rep := map[string]interface{}{"name": name, "framing": framing, "seqid": seq, "msg": hex.EncodeToString(msg)}
					var out []byte
					var err error
					var pan interface{}
					func() {
						defer func() { pan = recover() }()
						out, err = srv.Handle(msg)
					}()
					if pan != nil {
						w.Violation("server-panic", fmt.Sprintf("%s: %v", desc, pan), rep)
						continue
					}
					if err != nil {
						w.Violation("server-error", fmt.Sprintf("%s: a well-formed call was answered with an error instead of an envelope: %v", desc, err), rep)
						continue
					}
					// reference dispatch
					wantType, wantSeen := int8(3), ""
					if i := strings.Index(name, ":"); i >= 0 {
						svc, method := name[:i], name[i+1:]
						switch svc {
						case "Svc":
							wantType, wantSeen = 2, "Svc<-"+method
						case "Strict":
							wantSeen = "Strict<-" + method
							if method == "ping" {
								wantType = 2
							}
						case "":
							wantType, wantSeen = 2, "<empty><-"+method
						case "Outer":
							if j := strings.Index(method, ":"); j >= 0 && method[:j] == "Inner" {
								wantType, wantSeen = 2, "Outer/Inner<-"+method[j+1:]
							}
						}
					}
					renv, _, off, derr := tbin.DecodeEnvelope(out)
					if derr != nil {
						w.Violation("server-reply-malformed", fmt.Sprintf("%s: reply %x is not an envelope: %v", desc, out, derr), rep)
						continue
					}
					got := strings.Join(seen, ",")
					switch {
					case string(renv.Name) != name || renv.SeqID != seq:
						w.Violation("server-echo", fmt.Sprintf("%s: reply carries name %q seqid %d", desc, renv.Name, renv.SeqID), rep)
					case renv.Type != wantType:
						w.Violation("server-reply-type", fmt.Sprintf("%s: reply type %d, the dispatch rule (split at the first colon) gives %d; handlers reached: [%s]", desc, renv.Type, wantType, got), rep)
					case got != wantSeen:
						w.Violation("server-dispatch", fmt.Sprintf("%s: handlers reached [%s], the dispatch rule (split at the first colon) gives [%s]", desc, got, wantSeen), rep)
					case wantType == 2 && !bytes.Equal(out[off:], tbin.Encode(body)):
						w.Violation("server-body", fmt.Sprintf("%s: reply body %x, the handler returned the request body %x", desc, out[off:], tbin.Encode(body)), rep)
					default:
						w.Outcome(fmt.Sprintf("server-reply-type-%d", renv.Type))
					}
				}
			}
		}
	}
	// one server, several requests: every ordered pair (and the triples that repeat the
	// first request) from a menu of requests that differ in name length, framing, seqid,
	// body and outcome. Every reply is kept while the later requests are handled and must
	// still be the bytes it was when it was returned (a pipelining caller holds several
	// replies at once), and each reply echoes its own request.
	{
		type req struct {
			name    string
			framing string
			seq     int32
			body    tbin.Value
		}
		var menu []req
		for _, name := range []string{"Svc:ping", "Svc:a-much-longer-method-name-than-the-other-one", "Unknown:ping", "Strict:boom"} {
			for _, framing := range []string{tbin.FramingStrict, tbin.FramingLegacy} {
				for bi, seq := range []int32{1, math.MinInt32} {
					menu = append(menu, req{name, framing, seq, bodies[bi*2]})
				}
			}
		}
		encode := func(q req) []byte {
			env := tbin.Envelope{Name: []byte(q.name), Type: 1, SeqID: q.seq}
			if q.framing == tbin.FramingStrict {
				return tbin.EncodeStrict(env, tbin.Encode(q.body))
			}
			return tbin.EncodeLegacy(env, tbin.Encode(q.body))
		}
		runSeq := func(seq []req) {
			w.Eval(1)
			w.Nontrivial(1)
			w.Count("server_request_sequences", 1)
			var seen []string
			mux := verifhook.NewMultiplexHandler()
			mux.Put("Svc", recHandler{svc: "Svc", seen: &seen})
			mux.Put("Strict", recHandler{svc: "Strict", seen: &seen, strict: true})
			srv := verifhook.NewEnvelopeServer(binary.Default, mux)
			var descs []string
			var replies, copies [][]byte
			for _, q := range seq {
				descs = append(descs, fmt.Sprintf("%s/%s/%d", q.name, q.framing, q.seq))
				var out []byte
				var err error
				var pan interface{}
				func() {
					defer func() { pan = recover() }()
					out, err = srv.Handle(encode(q))
				}()
				if pan != nil || err != nil {
					w.Violation("server-sequence-error", fmt.Sprintf("requests %v: panic=%v err=%v", descs, pan, err), map[string]interface{}{"requests": descs})
					return
				}
				replies = append(replies, out)
				copies = append(copies, append([]byte{}, out...))
			}
			for i, q := range seq {
				if !bytes.Equal(replies[i], copies[i]) {
					w.Violation("server-reply-overwritten", fmt.Sprintf("requests %v on one server: reply #%d was %x when it was returned and is %x after the later requests were handled", descs, i, copies[i], replies[i]), map[string]interface{}{"requests": descs})
					return
				}
				renv, _, _, derr := tbin.DecodeEnvelope(replies[i])
				if derr != nil || string(renv.Name) != q.name || renv.SeqID != q.seq {
					w.Violation("server-echo", fmt.Sprintf("requests %v on one server: reply #%d carries name %q seqid %d (err %v)", descs, i, renv.Name, renv.SeqID, derr), map[string]interface{}{"requests": descs})
					return
				}
			}
			w.Outcome("server-sequence-ok")
		}
		for _, a := range menu {
			for _, b := range menu {
				if w.Own() {
					runSeq([]req{a, b})
					runSeq([]req{a, b, a})
					w.Done()
				}
			}
		}
	}
	// clients: every chain of <=2 multiplexing clients over the envelope client, against the same server
	for _, chain := range [][]string{{}, {"Svc"}, {"Outer", "Inner"}, {"Inner", "Outer"}, {"Unknown"}, {"Svc:ns"}, {""}} {
		for _, method := range []string{"ping", "ns:ping", ":ping", "ping:", ""} {
			if !w.Own() {
				continue
			}
			w.Eval(1)
			w.Nontrivial(1)
			w.Count("multiplex_client_cases", 1)
			var seen []string
			var sent [][]byte
			inner := verifhook.NewMultiplexHandler()
			inner.Put("Inner", recHandler{svc: "Outer/Inner", seen: &seen})
			mux := verifhook.NewMultiplexHandler()
			mux.Put("Svc", recHandler{svc: "Svc", seen: &seen})
			mux.Put("Outer", inner)
			srv := verifhook.NewEnvelopeServer(binary.Default, mux)
			var cl verifhook.EnvelopeClient = verifhook.NewEnvelopeClient(binary.Default, serverTransport{srv, &sent})
			// the client built last is the outermost: Send prefixes its own name and passes the call inwards
			wantName := method
			for i := 0; i < len(chain); i++ {
				cl = verifhook.NewMultiplexClient(chain[i], cl)
			}
			for i := len(chain) - 1; i >= 0; i-- {
				wantName = chain[i] + ":" + wantName
			}
			desc := fmt.Sprintf("client chain %v method %q", chain, method)
			rep := map[string]interface{}{"chain": chain, "method": method}
			var res wire.Value
			var err error
			var pan interface{}
			func() {
				defer func() { pan = recover() }()
				res, err = cl.Send(method, wirex.ToWire(bodies[1]))
			}()
			if pan != nil {
				w.Violation("client-panic", fmt.Sprintf("%s: %v", desc, pan), rep)
				continue
			}
			if len(sent) != 1 {
				w.Violation("client-sends", fmt.Sprintf("%s: %d requests reached the transport", desc, len(sent)), rep)
				continue
			}
			env, _, off, derr := tbin.DecodeEnvelope(sent[0])
			if derr != nil || string(env.Name) != wantName || env.Type != 1 || !bytes.Equal(sent[0][off:], tbin.Encode(bodies[1])) {
				w.Violation("client-request", fmt.Sprintf("%s: request on the wire has name %q type %d (err %v); expected a Call named %q with the body unchanged", desc, env.Name, env.Type, derr, wantName), rep)
				continue
			}
			// what the reference dispatch does with wantName
			ok := false
			if i := strings.Index(wantName, ":"); i >= 0 {
				svc, m := wantName[:i], wantName[i+1:]
				if svc == "Svc" {
					ok = true
				}
				if svc == "Outer" {
					if j := strings.Index(m, ":"); j >= 0 && m[:j] == "Inner" {
						ok = true
					}
				}
			}
			if ok != (err == nil) {
				w.Violation("client-result", fmt.Sprintf("%s: Send returned err=%v, the call named %q should succeed=%v", desc, err, wantName, ok), rep)
				continue
			}
			if ok {
				if mv, ferr := wirex.FromWire(res); ferr != nil || mv.Key() != bodies[1].Key() {
					w.Violation("client-response-body", fmt.Sprintf("%s: response body differs from what the handler returned", desc), rep)
					continue
				}
			}
			w.Outcome("client-ok")
		}
	}
}

func names(thorough bool) [][]byte {
	out := [][]byte{[]byte("a"), []byte("Svc:method"), bytes.Repeat([]byte("x"), 255), {0xff, 0xfe}, {'a', 0, 'b'}}
	// the upper end of the name domain: 2^16 bytes is the first length whose second
	// length byte is not zero (message types 0..4 and seqids {0,1} only for these)
	out = append(out, bytes.Repeat([]byte("n"), 65536))
	if thorough {
		out = append(out, bytes.Repeat([]byte("m"), 65535), bytes.Repeat([]byte("o"), 65536+257))
	}
	return out
}

var bodies = []tbin.Value{
	{T: tbin.Struct},
	{T: tbin.Struct, Fields: []tbin.Field{{ID: 1, V: tbin.Value{T: tbin.I32, I: 7}}}},
	{T: tbin.Struct, Fields: []tbin.Field{
		{ID: 1, V: tbin.Value{T: tbin.Struct, Fields: []tbin.Field{{ID: -1, V: tbin.Value{T: tbin.Binary, B: []byte("q")}}}}},
		{ID: 2, V: tbin.Value{T: tbin.List, VT: tbin.I16, Items: []tbin.Value{{T: tbin.I16, I: 1}, {T: tbin.I16, I: -2}}}},
	}},
}

var seqids = []int32{0, 1, -1, math.MinInt32, math.MaxInt32}

func run(w *ev.W) {
	r := &runner{w: w}
	if rp := w.Args["replay"]; rp != "" {
		replay(r, rp)
		return
	}
	stop := false
	expired := func() bool {
		if !stop && w.Expired() {
			w.Cap("time budget reached; families run in order roundtrip, structured, classification")
			stop = true
		}
		return stop
	}
	for _, name := range names(!w.Quick()) {
		for typ := 0; typ < 128; typ++ {
			for _, seq := range seqids {
				for _, body := range bodies {
					if len(name) > 1000 && (typ > 4 || seq > 1 || seq < 0) {
						continue
					}
					if w.Own() && !expired() {
						r.roundtrip(name, int8(typ), seq, body)
						w.Done()
					}
				}
			}
		}
	}
	for _, name := range names(!w.Quick()) {
		for _, framing := range []string{tbin.FramingStrict, tbin.FramingLegacy, tbin.FramingBare} {
			for typ := 0; typ < 128; typ++ {
				if framing == tbin.FramingBare && typ > 0 {
					continue // a bare struct carries no envelope: one case per (body, expected type)
				}
				for _, seq := range seqids {
					if framing == tbin.FramingBare && seq != 0 {
						continue
					}
					for _, body := range bodies {
						if len(name) > 1000 && (typ > 4 || seq > 1 || seq < 0) {
							continue // 64 KiB names: message types 0..4, seqids {0,1}
						}
						for _, et := range []int8{1, 4} {
							if w.Own() && !expired() {
								r.structured(name, int8(typ), seq, body, framing, et)
								w.Done()
							}
						}
					}
				}
			}
		}
	}
	r.multiplexFamily()
	// the empty name is outside the property's 1..2^16 name domain for the structured
	// expectations, but the messages that carry it are byte strings like any other: the two
	// request APIs must classify them alike (and the streaming one accept whatever the
	// random-access one accepts), whatever they decide
	for _, framing := range []string{tbin.FramingStrict, tbin.FramingLegacy} {
		for typ := 0; typ < 128; typ++ {
			for _, seq := range seqids {
				for _, body := range bodies {
					for _, et := range []int8{1, 4} {
						if w.Own() && !expired() {
							e := tbin.Envelope{Name: nil, Type: int8(typ), SeqID: seq}
							msg := tbin.EncodeLegacy(e, tbin.Encode(body))
							if framing == tbin.FramingStrict {
								msg = tbin.EncodeStrict(e, tbin.Encode(body))
							}
							w.Count("empty_name_messages", 1)
							r.classify(msg, et)
							w.Done()
						}
					}
				}
			}
		}
	}
	nb := 5
	if !w.Quick() {
		nb = 6
	}
	odometer(12, nb, alpha12, func(b []byte) {
		for _, et := range []int8{1, 4} {
			if w.Own() && !expired() {
				r.classify(b, et)
				w.Done()
			}
		}
	})
}

func odometer(base, maxLen int, alpha []byte, yield func([]byte)) {
	for l := 0; l <= maxLen; l++ {
		idx := make([]int, l)
		for {
			b := make([]byte, l)
			for i := range idx {
				b[i] = alpha[idx[i]]
			}
			yield(b)
			k := l - 1
			for k >= 0 {
				idx[k]++
				if idx[k] < base {
					break
				}
				idx[k] = 0
				k--
			}
			if k < 0 {
				break
			}
		}
	}
}

func replay(r *runner, path string) {
	raw, err := os.ReadFile(path)
	if err != nil {
		r.w.Note("replay: " + err.Error())
		return
	}
	var f struct {
		First struct {
			Replay payload `json:"replay"`
		} `json:"first"`
	}
	json.Unmarshal(raw, &f)
	b, _ := hex.DecodeString(f.First.Replay.Msg)
	r.w.Sample(f.First.Replay)
	if strings.HasPrefix(f.First.Replay.Desc, "classification") {
		r.classify(b, f.First.Replay.ET)
		return
	}
	// structured replays are re-derived from the message itself
	e, fr, off, err := tbin.DecodeEnvelope(b)
	if err != nil || b[0] < 0x10 && b[0] != 0 {
		fr = tbin.FramingBare
		off = 0
	}
	body, _, _ := tbin.Decode(tbin.Struct, b[off:])
	r.structured(e.Name, e.Type, e.SeqID, body, fr, f.First.Replay.ET)
}
