// Package c05: schema evolution — unknown/retyped fields ignored, required
// fields enforced (DESIGN.md §3 C05).
package c05

import (
	"fmt"
	"reflect"
	"time"
	"verif/ref/reflectval"

	"verif/bridge/chunk"
	"verif/cells"
	"verif/cells/reg"
	"verif/checks/cellutil"
	"verif/engine/ev"
	"verif/ref/schema"
	"verif/ref/tbin"
)

// Check is the registered check.
var Check = &ev.Check{
	ID:    "C05",
	Level: "exploration",
	Rule: "reader schema R = every struct-like type of the cell universe; writer encodings = the reference encoding of every valid value with <=1 deviating field, transformed by every single evolution step (thorough: every pair of steps) at every applicable position: " +
		"inject one well-formed foreign field (14 shapes: bool, i32, i64, double, binary, nested struct, list<struct>, map<binary,list<i16>>, set<i32>, structs nested 70 and 300 deep, lists nested 100 deep, a 200 kB binary, a 20 000-element list) with an unknown id (0, -1, max+1, 32767, a gap) or a known id under another wire type, at every field boundary; remove a field; retype a field to two other wire types; add a retyped second occurrence of a present field before it, after it and at the end; add a same-typed second occurrence after it and at the end; rewrite a container field (or add a second occurrence of it) with another element / key / value type, empty and non-empty (such a container reads as nil: gen/list.go, set.go, map.go); reverse field order; " +
		"and the same steps inside every nested struct value (direct field, list/set element, map value) down to depth 2. Both decoding paths of R (stream path whole and 1-byte reads, from a seekable reader, and from a reader whose Seek method always fails as on a pipe). " +
		"Oracle (reference evolved decode): unknown-id and wrong-wire-type fields are ignored, absent optionals unset or default; decoding fails iff a required field without default is absent or mistyped (recursively), or a union does not end with exactly one member. " +
		"A case is (type, transformed encoding); non-trivial = encodings that contain at least one foreign, retyped or removed field.",
	Prepare: func(s *ev.S) error {
		_, err := cells.Prepare(s, cells.Options{Slim: s.Tier != "thorough"})
		return err
	},
	Run:        run,
	MemLimitKB: 6 << 20,
	Budget: func(t string) time.Duration {
		return map[string]time.Duration{"quick": 4 * time.Minute, "thorough": 25 * time.Minute}[t]
	},
	Assumptions: []string{"element-type changes inside a container of the declared wire type and duplicate occurrences of one field id are outside the property's text and are not generated"},
}

func foreignShapes() []tbin.Value {
	inner := tbin.Value{T: tbin.Struct, Fields: []tbin.Field{{ID: 9, V: tbin.Value{T: tbin.Binary, B: []byte("zz")}}, {ID: -2, V: tbin.Value{T: tbin.I64, I: -5}}}}
	return []tbin.Value{
		{T: tbin.Bool, I: 1},
		{T: tbin.I32, I: 123456},
		{T: tbin.I64, I: -1},
		{T: tbin.Double, D: 0x3ff8000000000000},
		{T: tbin.Binary, B: []byte("foreign")},
		inner,
		{T: tbin.List, VT: tbin.Struct, Items: []tbin.Value{inner, {T: tbin.Struct}}},
		{T: tbin.Map, KT: tbin.Binary, VT: tbin.List, Items: []tbin.Value{{T: tbin.Binary, B: []byte("k")}, {T: tbin.List, VT: tbin.I16, Items: []tbin.Value{{T: tbin.I16, I: 7}}}}},
		{T: tbin.Set, VT: tbin.I32, Items: []tbin.Value{{T: tbin.I32, I: 1}, {T: tbin.I32, I: 2}}},
	}
}

// retypedElems: the container v written under a schema in which its element (key,
// value) type is another one - widened integers, a struct instead of a scalar, and
// the empty container of another element type.
func retypedElems(v tbin.Value) []tbin.Value {
	// (k distinguishes the two elements: two steps in a row can lead back to the declared
	// element type, and a set must not then hold one element twice)
	otherK := func(t tbin.Type, k int64) tbin.Value {
		switch t {
		case tbin.I64:
			return tbin.Value{T: tbin.I32, I: 5 + k}
		case tbin.Struct:
			return tbin.Value{T: tbin.Binary, B: []byte(fmt.Sprintf("was-a-struct-%d", k))}
		case tbin.I8, tbin.I16, tbin.I32:
			return tbin.Value{T: tbin.I64, I: 5 + k}
		}
		return tbin.Value{T: tbin.Struct, Fields: []tbin.Field{{ID: 1, V: tbin.Value{T: tbin.I8, I: 1 + k}}}}
	}
	other := func(t tbin.Type) tbin.Value { return otherK(t, 0) }
	switch v.T {
	case tbin.List, tbin.Set:
		o := other(v.VT)
		return []tbin.Value{
			{T: v.T, VT: o.T, Items: []tbin.Value{o, otherK(v.VT, 1)}},
			{T: v.T, VT: o.T},
		}
	case tbin.Map:
		ok, ov := other(v.KT), other(v.VT)
		var keep tbin.Value
		if len(v.Items) >= 2 {
			keep = v.Items[1]
		} else {
			return []tbin.Value{{T: tbin.Map, KT: ok.T, VT: v.VT}, {T: tbin.Map, KT: v.KT, VT: ov.T}}
		}
		return []tbin.Value{
			{T: tbin.Map, KT: ok.T, VT: v.VT, Items: []tbin.Value{ok, keep}},
			{T: tbin.Map, KT: v.KT, VT: ov.T, Items: []tbin.Value{v.Items[0], ov}},
			{T: tbin.Map, KT: ok.T, VT: ov.T},
		}
	}
	return nil
}

// heavyShapes are injected only at the first and last field boundary.
func heavyShapes() []tbin.Value {
	return []tbin.Value{deepStruct(70), deepStruct(300), deepList(100), bigBinary(200000), bigList(20000)}
}

// deepStruct nests n structs (a linked list written by a newer schema).
func deepStruct(n int) tbin.Value {
	v := tbin.Value{T: tbin.Struct, Fields: []tbin.Field{{ID: 1, V: tbin.Value{T: tbin.I32, I: 1}}}}
	for i := 0; i < n; i++ {
		v = tbin.Value{T: tbin.Struct, Fields: []tbin.Field{{ID: 1, V: tbin.Value{T: tbin.I32, I: int64(i)}}, {ID: 2, V: v}}}
	}
	return v
}

func deepList(n int) tbin.Value {
	v := tbin.Value{T: tbin.List, VT: tbin.I8, Items: []tbin.Value{{T: tbin.I8, I: 1}}}
	for i := 0; i < n; i++ {
		v = tbin.Value{T: tbin.List, VT: tbin.List, Items: []tbin.Value{v}}
	}
	return v
}

func bigBinary(n int) tbin.Value {
	b := make([]byte, n)
	for i := range b {
		b[i] = byte(i)
	}
	return tbin.Value{T: tbin.Binary, B: b}
}

func bigList(n int) tbin.Value {
	v := tbin.Value{T: tbin.List, VT: tbin.I32}
	for i := 0; i < n; i++ {
		v.Items = append(v.Items, tbin.Value{T: tbin.I32, I: int64(i)})
	}
	return v
}

// steps enumerates every single evolution step of the struct value s, given
// the declared (id -> wire type) of the reader's struct at this level.
func steps(s tbin.Value, declared map[int16]tbin.Type, yield func(desc string, out tbin.Value)) {
	maxID := int16(0)
	for id := range declared {
		if id > maxID {
			maxID = id
		}
	}
	gap := int16(0)
	for id := int16(1); id < maxID; id++ {
		if _, ok := declared[id]; !ok {
			gap = id
			break
		}
	}
	ids := []int16{0, -1, maxID + 1, 32767}
	if gap != 0 {
		ids = append(ids, gap)
	}
	clone := func(fs []tbin.Field) []tbin.Field { return append([]tbin.Field{}, fs...) }
	for pos := 0; pos <= len(s.Fields); pos++ {
		shapes := foreignShapes()
		if pos == 0 || pos == len(s.Fields) {
			shapes = append(shapes, heavyShapes()...)
		}
		for si, sh := range shapes {
			if si >= len(foreignShapes()) && len(ids) > 0 {
				// heavy shapes: one unknown id only
				fs := clone(s.Fields[:pos])
				fs = append(fs, tbin.Field{ID: ids[len(ids)-1], V: sh})
				fs = append(fs, s.Fields[pos:]...)
				yield(fmt.Sprintf("inject heavy shape#%d id=%d at %d", si, ids[len(ids)-1], pos), tbin.Value{T: tbin.Struct, Fields: fs})
				continue
			}
			for _, id := range ids {
				if _, known := declared[id]; known {
					continue
				}
				fs := clone(s.Fields[:pos])
				fs = append(fs, tbin.Field{ID: id, V: sh})
				fs = append(fs, s.Fields[pos:]...)
				yield(fmt.Sprintf("inject shape#%d id=%d at %d", si, id, pos), tbin.Value{T: tbin.Struct, Fields: fs})
			}
			// a known id under another wire type, only where that id is not already present
			for id, wt := range declared {
				present := false
				for _, f := range s.Fields {
					if f.ID == id {
						present = true
					}
				}
				if present || wt == sh.T || pos != 0 {
					continue
				}
				fs := append([]tbin.Field{{ID: id, V: sh}}, clone(s.Fields)...)
				yield(fmt.Sprintf("inject shape#%d under known id=%d", si, id), tbin.Value{T: tbin.Struct, Fields: fs})
			}
		}
	}
	for i := range s.Fields {
		fs := append(clone(s.Fields[:i]), s.Fields[i+1:]...)
		yield(fmt.Sprintf("remove field id=%d", s.Fields[i].ID), tbin.Value{T: tbin.Struct, Fields: fs})
		n := 0
		for si, sh := range foreignShapes() {
			if sh.T == s.Fields[i].V.T || n >= 2 {
				continue
			}
			n++
			fs := clone(s.Fields)
			fs[i] = tbin.Field{ID: s.Fields[i].ID, V: sh}
			yield(fmt.Sprintf("retype field id=%d to shape#%d", s.Fields[i].ID, si), tbin.Value{T: tbin.Struct, Fields: fs})
		}
	}
	// a second, retyped occurrence of a field that is present: before it, right after it and at the end
	// (an occurrence of the wrong wire type is skipped like an unknown field wherever it stands)
	for i := range s.Fields {
		for si, sh := range foreignShapes() {
			if sh.T == s.Fields[i].V.T {
				continue
			}
			dup := tbin.Field{ID: s.Fields[i].ID, V: sh}
			yield(fmt.Sprintf("retyped duplicate of id=%d (shape#%d) before it", dup.ID, si), tbin.Value{T: tbin.Struct, Fields: append(append(clone(s.Fields[:i]), dup), s.Fields[i:]...)})
			yield(fmt.Sprintf("retyped duplicate of id=%d (shape#%d) after it", dup.ID, si), tbin.Value{T: tbin.Struct, Fields: append(append(clone(s.Fields[:i+1]), dup), s.Fields[i+1:]...)})
			if i+1 < len(s.Fields) {
				yield(fmt.Sprintf("retyped duplicate of id=%d (shape#%d) at the end", dup.ID, si), tbin.Value{T: tbin.Struct, Fields: append(clone(s.Fields), dup)})
			}
			break
		}
	}
	// a second occurrence of a present field with the SAME wire type: the later one wins
	// (for a union that is still exactly one member set); and, for containers, the field
	// rewritten with another element type (a widened container: its elements are skipped and
	// the container reads as nil)
	for i := range s.Fields {
		same := s.Fields[i]
		yield(fmt.Sprintf("same-typed duplicate of id=%d after it", same.ID), tbin.Value{T: tbin.Struct, Fields: append(append(clone(s.Fields[:i+1]), same), s.Fields[i+1:]...)})
		if i+1 < len(s.Fields) {
			yield(fmt.Sprintf("same-typed duplicate of id=%d at the end", same.ID), tbin.Value{T: tbin.Struct, Fields: append(clone(s.Fields), same)})
		}
		for k, alt := range retypedElems(same.V) {
			fs := clone(s.Fields)
			fs[i] = tbin.Field{ID: same.ID, V: alt}
			yield(fmt.Sprintf("elements of id=%d retyped (#%d)", same.ID, k), tbin.Value{T: tbin.Struct, Fields: fs})
			yield(fmt.Sprintf("element-retyped duplicate (#%d) of id=%d before it", k, same.ID), tbin.Value{T: tbin.Struct, Fields: append(append(clone(s.Fields[:i]), tbin.Field{ID: same.ID, V: alt}), s.Fields[i:]...)})
			yield(fmt.Sprintf("element-retyped duplicate (#%d) of id=%d after it", k, same.ID), tbin.Value{T: tbin.Struct, Fields: append(append(clone(s.Fields[:i+1]), tbin.Field{ID: same.ID, V: alt}), s.Fields[i+1:]...)})
		}
	}
	if len(s.Fields) > 1 {
		fs := clone(s.Fields)
		for i, j := 0, len(fs)-1; i < j; i, j = i+1, j-1 {
			fs[i], fs[j] = fs[j], fs[i]
		}
		yield("reverse field order", tbin.Value{T: tbin.Struct, Fields: fs})
	}
}

type env struct {
	*cellutil.Env
}

// declaredOf returns id -> wire type of a struct-like definition.
func (e env) declaredOf(f *schema.File, d *schema.Def) map[int16]tbin.Type {
	m := map[int16]tbin.Type{}
	for _, fd := range d.Fields {
		m[fd.ID] = e.P.WireType(f, fd.Type)
	}
	return m
}

// nested applies steps inside nested struct values of v (typed by t), depth<=2.
func (e env) nested(f *schema.File, t *schema.Type, v tbin.Value, depth int, yield func(desc string, out tbin.Value)) {
	if depth > 2 {
		return
	}
	rt, d, g := e.P.Resolve(f, t)
	switch {
	case d != nil && d.Kind == "enum":
		return
	case d != nil:
		if v.T != tbin.Struct {
			return
		}
		if depth > 0 {
			steps(v, e.declaredOf(g, d), func(desc string, out tbin.Value) { yield(fmt.Sprintf("[in %s] %s", d.Name, desc), out) })
		}
		for i, wf := range v.Fields {
			for _, fd := range d.Fields {
				if fd.ID == wf.ID {
					i := i
					e.nested(g, fd.Type, wf.V, depth+1, func(desc string, inner tbin.Value) {
						out := v
						out.Fields = append([]tbin.Field{}, v.Fields...)
						out.Fields[i] = tbin.Field{ID: wf.ID, V: inner}
						yield(desc, out)
					})
				}
			}
		}
		return
	}
	switch rt.K {
	case schema.List, schema.Set:
		for i := range v.Items {
			i := i
			e.nested(g, rt.Elem, v.Items[i], depth, func(desc string, inner tbin.Value) {
				out := v
				out.Items = append([]tbin.Value{}, v.Items...)
				out.Items[i] = inner
				yield(desc, out)
			})
		}
	case schema.Map:
		for i := 1; i < len(v.Items); i += 2 {
			i := i
			e.nested(g, rt.Elem, v.Items[i], depth, func(desc string, inner tbin.Value) {
				out := v
				out.Items = append([]tbin.Value{}, v.Items...)
				out.Items[i] = inner
				yield(desc, out)
			})
		}
	}
}

func run(w *ev.W) {
	e := env{cellutil.Load(w)}
	e.Each(func(cell cells.Cell, ent reg.Entry, f *schema.File, d *schema.Def) {
		t := schema.Named(d.Name)
		seen := map[string]bool{}
		for _, v := range e.P.Deviations(f, d, 1) {
			if !e.P.Valid(f, t, v) {
				continue
			}
			base := e.P.ToWire(f, t, v)
			try := func(desc string, wv tbin.Value) {
				k := wv.Key()
				if len(k) > 4096 {
					k = fmt.Sprintf("%s#%d", desc, len(k))
				}
				if seen[k] {
					return
				}
				seen[k] = true
				one(e, cell, ent, f, t, desc, wv)
			}
			firstLevel := func(yield func(string, tbin.Value)) {
				steps(base, e.declaredOf(f, d), yield)
				e.nested(f, t, base, 0, yield)
			}
			firstLevel(func(desc string, wv tbin.Value) {
				try(desc, wv)
				if !w.Quick() && len(seen) < 60000 {
					steps(wv, e.declaredOf(f, d), func(desc2 string, wv2 tbin.Value) { try(desc+" + "+desc2, wv2) })
				}
			})
			if w.Expired() {
				return
			}
		}
	})
}

func one(e env, cell cells.Cell, ent reg.Entry, f *schema.File, t *schema.Type, desc string, wv tbin.Value) {
	w := e.W
	w.Eval(1)
	w.Nontrivial(1)
	enc := tbin.Encode(wv)
	exp, ok := e.P.FromWire(f, t, wv)
	wantErr := !ok || !e.P.Valid(f, t, exp)
	want := ""
	if !wantErr {
		want = e.P.Key(f, t, e.P.FillDefaults(f, t, e.P.StripNil(exp)))
	}
	if w.WantSample() && w.R.Evaluations%1499 == 0 {
		w.Sample(map[string]interface{}{"type": cell.Pkg + "." + cell.Def, "step": desc, "writer_value": wv.Key(), "reader_must_fail": wantErr})
	}
	viol := func(class, detail string) {
		w.Violation(class+":"+cell.Kind, fmt.Sprintf("%s.%s after [%s] on %.300s: %s", cell.Pkg, cell.Def, desc, wv.Key(), detail),
			map[string]string{"cell": cell.Pkg + "." + cell.Def, "step": desc, "wire": wv.Key()})
	}
	judge := func(path string, rv reflect.Value, err error) {
		switch {
		case cellutil.IsPanic(err):
			viol("panic:"+path, err.Error())
		case wantErr && err == nil:
			got, _ := e.Conv.ToLogical(f, t, rv)
			viol("accepted-invalid:"+path, fmt.Sprintf("decoding must fail (a required field is absent or mistyped, or the union has not exactly one member) but returned %.200s", e.P.Key(f, t, got)))
		case !wantErr && err != nil:
			viol("rejected-valid:"+path, "well-formed evolved input rejected: "+err.Error())
		case !wantErr:
			got, lerr := e.Conv.ToLogical(f, t, rv)
			if lerr != nil {
				viol("shape:"+path, lerr.Error())
			} else if k := e.P.Key(f, t, got); k != want {
				viol("value:"+path, fmt.Sprintf("decoded %.250s, the evolved-decode rule gives %.250s (every previously decoded value of this type was overwritten in place after it had been judged)", k, want))
			} else {
				w.Outcome("decoded-as-expected")
				// overwrite the decoded value in place: whatever it shares with the declared
				// defaults (or with a later decode) shows up in the decodes that follow
				reflectval.Scramble(rv)
			}
		default:
			w.Outcome("rejected-as-expected")
		}
	}
	rv, err := cellutil.DecodeValue(ent.Type, enc)
	judge("value-path", rv, err)
	for _, ck := range []chunk.Chunking{{Name: "whole"}, {Name: "1byte", One: true}, {Name: "whole+eof-with-data", EOF: true}} {
		rv, err := cellutil.DecodeStream(ent.Type, ck.New(enc))
		judge("stream-path", rv, err)
	}
	// the same bytes from a reader that can seek (skipping becomes seeking) and from one
	// that has a Seek method which always fails, as an *os.File on a pipe or socket does
	rv, err = cellutil.DecodeStream(ent.Type, chunk.Seekable{Reader: chunk.Chunking{Name: "whole"}.New(enc)})
	judge("stream-path[seekable]", rv, err)
	rv, err = cellutil.DecodeStream(ent.Type, chunk.PipeLike{Reader: chunk.Chunking{Name: "whole"}.New(enc)})
	judge("stream-path[pipe-like]", rv, err)
}
