// Package c03: decoders are total and canonical on arbitrary bytes
// (DESIGN.md §3 C03).
package c03

import (
	"bytes"
	"encoding/hex"
	"encoding/json"
	"fmt"
	"hash/fnv"
	"io"
	"os"
	"time"

	"go.uber.org/thriftrw/protocol/binary"
	"go.uber.org/thriftrw/wire"
	"verif/bridge/wirex"
	"verif/engine/ev"
	"verif/ref/tbin"
)

// Check is the registered check.
var Check = &ev.Check{
	ID:    "C03",
	Level: "exploration",
	Rule: "inputs: (a) every byte string of length<=2 (quick) / <=3 (thorough) over all 256 byte values; (b) every string of length<=5 (quick) / <=6 (thorough) over the 16-symbol alphabet " +
		"{00,01,02,03,04,06,08,0a,0b,0c,0d,0e,0f,7f,80,ff}; (c) every single-deviation mutant (truncate at i, set byte i to each symbol, set the 4 bytes at i to each of 7 length values, delete byte i, insert each symbol at i) " +
		"of every encoding of the small depth-1 value set (quick) / the full depth-1 C02 set plus depth-2 representatives, and every pair of deviations on the small set (thorough). " +
		"Each input x each of 13 requested types (11 valid, 0, 255; mutants: own type and struct) x {random-access ReadValue+force (also behind a ReaderAt that returns the final bytes together with io.EOF), Skip over a seeker, Skip and primitive walk over a non-seekable reader under chunkings whole/all-1-byte, " +
		"and all <=2-cut chunkings with and without zero-length reads when the decode succeeds or the input is <=4 bytes}. A case is (input, type); non-trivial = distinct (input,type) pairs, distinct by construction of the odometer (mutants deduplicated by content hash).",
	Run: run,
	Budget: func(t string) time.Duration {
		return map[string]time.Duration{"quick": 4 * time.Minute, "thorough": 28 * time.Minute}[t]
	},
	CaseDeadline: 20 * time.Second,
	MemLimitKB:   4 << 20,
	CrashSig: func(kind, desc, stderr string) (string, bool) {
		return kind + ":decoder", true
	},
	Assumptions: []string{
		"inputs longer than the mutated encodings (~60 bytes) and stack exhaustion by ~10^7 nesting levels are outside the bound",
		"ref/tbin accept/reject verdicts are recorded as notes only; the oracle is exactly totality + canonical re-encode + skip length",
	},
}

var alpha16 = []byte{0x00, 0x01, 0x02, 0x03, 0x04, 0x06, 0x08, 0x0a, 0x0b, 0x0c, 0x0d, 0x0e, 0x0f, 0x7f, 0x80, 0xff}

var reqTypes = []byte{2, 3, 4, 6, 8, 10, 11, 12, 13, 14, 15, 0, 255}

type chunkReader struct {
	b     []byte
	pos   int
	cuts  []int // ascending absolute offsets at which a read must stop
	one   bool  // every read returns at most one byte
	zero  bool  // a zero-length read precedes every data read
	eof   bool  // the read delivering the last byte also returns io.EOF
	zflag bool
}

func (c *chunkReader) Read(p []byte) (int, error) {
	if len(p) == 0 {
		return 0, nil
	}
	if c.zero && !c.zflag {
		c.zflag = true
		return 0, nil
	}
	c.zflag = false
	if c.pos >= len(c.b) {
		return 0, io.EOF
	}
	limit := len(c.b)
	for _, k := range c.cuts {
		if k > c.pos {
			limit = k
			break
		}
	}
	n := limit - c.pos
	if c.one {
		n = 1
	}
	if n > len(p) {
		n = len(p)
	}
	copy(p, c.b[c.pos:c.pos+n])
	c.pos += n
	if c.eof && c.pos == len(c.b) {
		return n, io.EOF // the last bytes together with io.EOF, as io.Reader allows
	}
	return n, nil
}

type chunking struct {
	name string
	cuts []int
	one  bool
	zero bool
	eof  bool
}

func chunkings(n int, full bool) []chunking {
	out := []chunking{{name: "whole"}, {name: "1byte", one: true}}
	if !full {
		return out
	}
	out = append(out, chunking{name: "whole+zero", zero: true}, chunking{name: "1byte+zero", one: true, zero: true},
		chunking{name: "whole+eof-with-data", eof: true}, chunking{name: "1byte+eof-with-data", one: true, eof: true})
	for i := 1; i < n; i++ {
		out = append(out, chunking{name: fmt.Sprintf("cut%d", i), cuts: []int{i}})
		out = append(out, chunking{name: fmt.Sprintf("cut%d+zero", i), cuts: []int{i}, zero: true})
		for j := i + 1; j < n; j++ {
			out = append(out, chunking{name: fmt.Sprintf("cut%d,%d", i, j), cuts: []int{i, j}})
		}
	}
	return out
}

type payload struct {
	Input string `json:"input"`
	Type  byte   `json:"type"`
	Op    string `json:"op"`
}

type runner struct {
	w    *ev.W
	seen map[uint64]struct{}
}

func (r *runner) viol(class string, b []byte, t byte, op, detail string) {
	r.w.Violation(fmt.Sprintf("%s:t%d", class, t), fmt.Sprintf("input=%s type=%d op=%s: %s", hex.EncodeToString(b), t, op, detail),
		payload{Input: hex.EncodeToString(b), Type: t, Op: op})
}

// guard runs f, converting a panic into a violation.
func (r *runner) guard(b []byte, t byte, op string, f func()) {
	defer func() {
		if p := recover(); p != nil {
			r.viol("panic", b, t, op, fmt.Sprintf("panic: %v", p))
		}
	}()
	f()
}

func (r *runner) one(b []byte, t byte) {
	w := r.w
	w.Eval(1)
	w.Nontrivial(1)
	wt := wire.Type(t)
	tt := tbin.Type(t)

	// 1. random access
	raOK := false
	var raOff int64
	r.guard(b, t, "ReadValue", func() {
		rd := binary.NewReader(bytes.NewReader(b))
		v, off, err := rd.ReadValue(wt, 0)
		if err != nil {
			w.Outcome("ra-error")
			return
		}
		// forcing: the library's own wire.EvaluateValue and an independent traversal must agree
		// (on a value decoded separately: EvaluateValue closes the lazy containers it walks)
		var everr error
		rd2 := binary.NewReader(bytes.NewReader(b))
		if v2, _, err2 := rd2.ReadValue(wt, 0); err2 != nil {
			everr = err2
		} else {
			everr = wire.EvaluateValue(v2)
		}
		mv, ferr := wirex.FromWire(v)
		if (everr == nil) != (ferr == nil) {
			r.viol("evaluate-disagrees", b, t, "EvaluateValue", fmt.Sprintf("wire.EvaluateValue returned %v but traversing every container of the value gives %v", everr, ferr))
		}
		if ferr != nil {
			w.Outcome("ra-lazy-error")
			return
		}
		raOK, raOff = true, off
		if off < 0 || off > int64(len(b)) {
			r.viol("ra-offset", b, t, "ReadValue", fmt.Sprintf("decode succeeded (forced) with offset %d outside input of %d bytes", off, len(b)))
			raOK = false
			return
		}
		var buf bytes.Buffer
		if err := binary.Default.Encode(v, &buf); err != nil {
			r.viol("ra-reencode-error", b, t, "ReadValue", "re-encoding the decoded value failed: "+err.Error())
		} else if !bytes.Equal(buf.Bytes(), b[:off]) {
			r.viol("ra-reencode", b, t, "ReadValue", fmt.Sprintf("decoded %s consuming %d bytes; re-encoding gives %s", mv.Key(), off, hex.EncodeToString(buf.Bytes())))
		}
		if ref := tbin.Encode(mv); !bytes.Equal(ref, b[:off]) {
			r.viol("ra-reencode-ref", b, t, "ReadValue", fmt.Sprintf("decoded %s consuming %d bytes; spec encoding of that value is %s", mv.Key(), off, hex.EncodeToString(ref)))
		}
		// the same bytes behind a ReaderAt that reports io.EOF together with the final bytes
		// of the source (io.ReaderAt allows it): same value, same consumed length
		rd3 := binary.NewReader(eofReaderAt{b})
		if v3, off3, err3 := rd3.ReadValue(wt, 0); err3 != nil {
			r.viol("ra-eof-with-data", b, t, "ReadValue", fmt.Sprintf("a ReaderAt that returns the last bytes together with io.EOF: ReadValue fails (%v); over a bytes.Reader it decodes %s", err3, mv.Key()))
		} else if mv3, ferr3 := wirex.FromWire(v3); ferr3 != nil || mv3.Key() != mv.Key() || off3 != off {
			r.viol("ra-eof-with-data", b, t, "ReadValue", fmt.Sprintf("a ReaderAt that returns the last bytes together with io.EOF: decoded %s err=%v consuming %d bytes; over a bytes.Reader %s consuming %d", mv3.Key(), ferr3, off3, mv.Key(), off))
		}
		w.Outcome("ra-ok")
		if _, _, rerr := tbin.Decode(tt, b); rerr != nil {
			w.Count("note_ref_rejects_but_product_accepts", 1)
		}
	})

	// 2. skip over a seeker
	r.guard(b, t, "Skip(seek)", func() {
		br := bytes.NewReader(b)
		sr := binary.Default.Reader(br)
		err := sr.Skip(wt)
		sr.Close()
		pos, _ := br.Seek(0, io.SeekCurrent)
		if raOK {
			if err != nil {
				r.viol("skip-fail-seek", b, t, "Skip(seek)", fmt.Sprintf("decode succeeded consuming %d bytes but Skip failed: %v", raOff, err))
			} else if pos != raOff {
				r.viol("skip-len-seek", b, t, "Skip(seek)", fmt.Sprintf("decode consumed %d bytes, Skip moved to %d", raOff, pos))
			}
		}
	})

	// 3. stream reader under chunkings
	full := len(b) <= 4 || raOK
	if len(b) > 12 {
		full = false
	}
	for _, ck := range chunkings(len(b), full) {
		ck := ck
		op := "stream:" + ck.name
		var sOK bool
		var sDrawn int
		if tt.Valid() {
			r.guard(b, t, op, func() {
				cr := &chunkReader{b: b, cuts: ck.cuts, one: ck.one, zero: ck.zero, eof: ck.eof}
				sr := binary.Default.Reader(cr)
				v, err := wirex.StreamRead(sr, tt)
				sr.Close()
				if err != nil {
					w.Outcome("stream-error")
					if raOK {
						// not demanded by the property (it speaks of each reader separately); noted
						w.Count("note_ra_ok_stream_error", 1)
					}
					return
				}
				sOK, sDrawn = true, cr.pos
				ref := tbin.Encode(v)
				if !bytes.Equal(ref, b[:cr.pos]) {
					r.viol("stream-reencode", b, t, op, fmt.Sprintf("stream walk decoded %s drawing %d bytes; encoding of that value is %s", v.Key(), cr.pos, hex.EncodeToString(ref)))
				}
				var buf bytes.Buffer
				if err := binary.Default.Encode(wirex.ToWire(v), &buf); err != nil || !bytes.Equal(buf.Bytes(), b[:cr.pos]) {
					r.viol("stream-reencode-product", b, t, op, fmt.Sprintf("stream walk decoded %s drawing %d bytes; product re-encoding gives %s err=%v", v.Key(), cr.pos, hex.EncodeToString(buf.Bytes()), err))
				}
				w.Outcome("stream-ok")
			})
		}
		r.guard(b, t, "Skip("+ck.name+")", func() {
			cr := &chunkReader{b: b, cuts: ck.cuts, one: ck.one, zero: ck.zero, eof: ck.eof}
			sr := binary.Default.Reader(cr)
			err := sr.Skip(wt)
			sr.Close()
			if sOK {
				if err != nil {
					r.viol("skip-fail-stream", b, t, "Skip("+ck.name+")", fmt.Sprintf("stream decode succeeded drawing %d bytes but Skip failed: %v", sDrawn, err))
				} else if cr.pos != sDrawn {
					r.viol("skip-len-stream", b, t, "Skip("+ck.name+")", fmt.Sprintf("stream decode drew %d bytes, Skip drew %d", sDrawn, cr.pos))
				}
			}
			if raOK && ck.name == "whole" {
				if err != nil {
					r.viol("skip-fail-stream", b, t, "Skip(whole)", fmt.Sprintf("random-access decode succeeded consuming %d bytes but stream Skip failed: %v", raOff, err))
				} else if int64(cr.pos) != raOff {
					r.viol("skip-len-stream", b, t, "Skip(whole)", fmt.Sprintf("random-access decode consumed %d bytes, stream Skip drew %d", raOff, cr.pos))
				}
			}
		})
	}
}

func run(w *ev.W) {
	r := &runner{w: w, seen: map[uint64]struct{}{}}
	if rp := w.Args["replay"]; rp != "" {
		replay(r, rp)
		return
	}
	stop := false
	tick := 0
	family := ""
	caseFn := func(b []byte, types []byte) {
		if stop {
			return
		}
		if family == "family_c_mutants" {
			h := fnv.New64a()
			h.Write(b)
			h.Write([]byte{0xfe})
			h.Write(types)
			k := h.Sum64()
			if !w.OwnKey(k) {
				return
			}
			if _, dup := r.seen[k]; dup {
				w.Count("family_c_duplicate_mutants_skipped", 1)
				return
			}
			if len(r.seen) < 6_000_000 {
				r.seen[k] = struct{}{}
			}
		} else if !w.Own() {
			return
		}
		w.Count(family, 1)
		tick++
		if tick&255 == 0 {
			if w.Expired() {
				w.Cap("time budget reached before the input space was exhausted; families run in the order a,b,c")
				stop = true
				return
			}
			w.Progress("input=" + hex.EncodeToString(b))
		}
		if w.WantSample() && tick%5000 == 1 {
			w.Sample(map[string]interface{}{"input": hex.EncodeToString(b), "types": types})
		}
		for _, t := range types {
			r.one(b, t)
		}
		w.Done()
	}

	// (a) all bytes
	na := 2
	nb := 5
	if !w.Quick() {
		na, nb = 3, 6
	}
	w.Progress("family a")
	family = "family_a_inputs"
	odometer(256, na, nil, func(b []byte) { caseFn(b, reqTypes) })
	w.Progress("family b")
	family = "family_b_inputs"
	odometer(16, nb, alpha16, func(b []byte) {
		if len(b) <= na {
			// lengths covered by (a) when all symbols < 256: still distinct inputs only if not already in (a)
			return
		}
		caseFn(b, reqTypes)
	})
	// (c) mutants
	w.Progress("family c")
	family = "family_c_mutants"
	base := func(v tbin.Value, pairs bool) {
		if stop {
			return
		}
		e := tbin.Encode(v)
		if len(e) > 80 {
			return
		}
		types := []byte{byte(v.T)}
		if v.T != tbin.Struct {
			types = append(types, byte(tbin.Struct))
		}
		mutants(e, func(m []byte) {
			caseFn(m, types)
			if pairs {
				mutants(m, func(m2 []byte) { caseFn(m2, types) })
			}
		})
	}
	// (d) deep nesting: chains of structs / lists / sets / map values / map keys and a
	// mixed chain, 63..66, 100 and 300 levels deep, the well-formed encoding and its
	// truncations only (a limit in one of decode / skip shows up as a disagreement)
	w.Progress("family d")
	family = "family_d_deep_nesting"
	for _, depth := range []int{63, 64, 65, 66, 100, 300} {
		for _, shape := range []string{"struct", "list", "set", "mapvalue", "mapkey", "mixed"} {
			v := tbin.Value{T: tbin.I8, I: 7}
			for i := 0; i < depth; i++ {
				sh := shape
				if shape == "mixed" {
					sh = []string{"struct", "list", "mapvalue", "set"}[i%4]
				}
				switch sh {
				case "struct":
					v = tbin.Value{T: tbin.Struct, Fields: []tbin.Field{{ID: int16(i%5 + 1), V: v}}}
				case "list":
					v = tbin.Value{T: tbin.List, VT: v.T, Items: []tbin.Value{v}}
				case "set":
					v = tbin.Value{T: tbin.Set, VT: v.T, Items: []tbin.Value{v}}
				case "mapvalue":
					v = tbin.Value{T: tbin.Map, KT: tbin.I8, VT: v.T, Items: []tbin.Value{{T: tbin.I8, I: 1}, v}}
				case "mapkey":
					v = tbin.Value{T: tbin.Map, KT: v.T, VT: tbin.I8, Items: []tbin.Value{v, {T: tbin.I8, I: 1}}}
				}
			}
			e := tbin.Encode(v)
			types := []byte{byte(v.T)}
			caseFn(e, types)
			for _, cut := range []int{1, len(e) / 2, len(e) - 1} {
				caseFn(e[:cut], types)
			}
		}
	}
	family = "family_c_mutants"
	small := smallSet()
	for _, v := range small {
		base(v, false)
	}
	// nesting shapes: a struct holding one empty or one-element container of every
	// element type, and lists / sets / maps holding such a struct or an inner container
	for _, v := range nestedShapes() {
		base(v, false)
	}
	if !w.Quick() {
		tbin.Enumerate(1, false, func(level int, v tbin.Value) { base(v, false) })
		// depth-2 representatives: containers over small scalars + depth-1 reps of the small set
		reps := tbin.NewReps()
		for _, v := range small {
			reps.Offer(v)
		}
		pool := tbin.Merge(tbin.SmallScalars(), reps.Pool)
		d2 := tbin.NewReps()
		tbin.Containers(pool, func(v tbin.Value) { d2.Offer(v) })
		for _, t := range tbin.AllTypes {
			for _, v := range d2.Pool[t] {
				base(v, false)
			}
		}
		for _, v := range small {
			if len(tbin.Encode(v)) <= 16 {
				base(v, true)
			}
		}
	}
}

func nestedShapes() []tbin.Value {
	var inner []tbin.Value
	sm := tbin.SmallScalars()
	for _, ct := range []tbin.Type{tbin.List, tbin.Set} {
		for _, et := range tbin.AllTypes {
			inner = append(inner, tbin.Value{T: ct, VT: et})
			if len(sm[et]) > 0 {
				inner = append(inner, tbin.Value{T: ct, VT: et, Items: []tbin.Value{sm[et][0]}})
			}
		}
	}
	for _, kt := range tbin.AllTypes {
		for _, vt := range tbin.AllTypes {
			inner = append(inner, tbin.Value{T: tbin.Map, KT: kt, VT: vt})
			if len(sm[kt]) > 0 && len(sm[vt]) > 0 {
				inner = append(inner, tbin.Value{T: tbin.Map, KT: kt, VT: vt, Items: []tbin.Value{sm[kt][0], sm[vt][0]}})
			}
		}
	}
	var out []tbin.Value
	for _, in := range inner {
		st := tbin.Value{T: tbin.Struct, Fields: []tbin.Field{{ID: 1, V: in}}}
		out = append(out, st,
			tbin.Value{T: tbin.List, VT: in.T, Items: []tbin.Value{in}},
			tbin.Value{T: tbin.Set, VT: in.T, Items: []tbin.Value{in}},
			tbin.Value{T: tbin.Map, KT: tbin.I8, VT: in.T, Items: []tbin.Value{{T: tbin.I8, I: 7}, in}},
			tbin.Value{T: tbin.Map, KT: in.T, VT: tbin.I8, Items: []tbin.Value{in, {T: tbin.I8, I: 7}}},
			tbin.Value{T: tbin.List, VT: tbin.Struct, Items: []tbin.Value{st}})
	}
	return out
}

// smallSet: scalars plus all depth-1 containers over the reduced scalar pool.
func smallSet() []tbin.Value {
	var out []tbin.Value
	sc := tbin.ScalarElems(false)
	for _, t := range tbin.ScalarTypes {
		out = append(out, sc[t]...)
	}
	tbin.Containers(tbin.SmallScalars(), func(v tbin.Value) { out = append(out, v) })
	return out
}

// length/count edits: boundary values and the small negative counts that turn a
// "skip n*width bytes" into a short backward seek
var lenVals = []uint32{0xffffffff, 0, 1, 2, 0x10000, 0x7fffffff, 0x80000000,
	0xfffffffe, 0xfffffffd, 0xfffffffc, 0xfffffffb, 0xfffffffa, 0xfffffff9, 0xfffffff8, 0xfffffff7, 0xfffffff6, 0xfffffff4, 0xfffffff0}

func mutants(e []byte, yield func([]byte)) {
	n := len(e)
	for i := 0; i < n; i++ {
		yield(append([]byte{}, e[:i]...)) // truncate at i
	}
	for i := 0; i < n; i++ {
		for _, s := range alpha16 {
			if e[i] == s {
				continue
			}
			m := append([]byte{}, e...)
			m[i] = s
			yield(m)
		}
	}
	for i := 0; i+4 <= n; i++ {
		for _, lv := range lenVals {
			m := append([]byte{}, e...)
			m[i], m[i+1], m[i+2], m[i+3] = byte(lv>>24), byte(lv>>16), byte(lv>>8), byte(lv)
			if bytes.Equal(m, e) {
				continue
			}
			yield(m)
		}
	}
	for i := 0; i < n; i++ {
		m := append(append([]byte{}, e[:i]...), e[i+1:]...)
		yield(m)
	}
	for i := 0; i <= n; i++ {
		for _, s := range alpha16 {
			m := append(append(append([]byte{}, e[:i]...), s), e[i:]...)
			yield(m)
		}
	}
}

func odometer(base, maxLen int, alpha []byte, yield func([]byte)) {
	for l := 0; l <= maxLen; l++ {
		idx := make([]int, l)
		b := make([]byte, l)
		for {
			for i := range idx {
				if alpha != nil {
					b[i] = alpha[idx[i]]
				} else {
					b[i] = byte(idx[i])
				}
			}
			yield(append([]byte{}, b...))
			k := l - 1
			for k >= 0 {
				idx[k]++
				if idx[k] < base {
					break
				}
				idx[k] = 0
				k--
			}
			if k < 0 {
				break
			}
		}
	}
}

func replay(r *runner, path string) {
	raw, err := os.ReadFile(path)
	if err != nil {
		r.w.Note("replay: " + err.Error())
		return
	}
	var f struct {
		First struct {
			Replay payload `json:"replay"`
		} `json:"first"`
	}
	if err := json.Unmarshal(raw, &f); err != nil {
		r.w.Note("replay: " + err.Error())
		return
	}
	b, _ := hex.DecodeString(f.First.Replay.Input)
	r.w.Sample(f.First.Replay)
	r.one(b, f.First.Replay.Type)
	r.w.Outcome("replayed")
}

// eofReaderAt is a conforming io.ReaderAt that returns io.EOF together with the
// final bytes of the source.
type eofReaderAt struct{ b []byte }

func (s eofReaderAt) ReadAt(p []byte, off int64) (int, error) {
	if off >= int64(len(s.b)) {
		return 0, io.EOF
	}
	n := copy(p, s.b[off:])
	if n < len(p) || off+int64(n) == int64(len(s.b)) {
		return n, io.EOF
	}
	return n, nil
}
