// Package c11: the parser is total and returns a faithful AST with true
// positions (DESIGN.md §3 C11).
package c11

import (
	"encoding/json"
	"fmt"
	"os"
	"reflect"
	"sort"
	"strings"
	"time"

	"go.uber.org/thriftrw/ast"
	"go.uber.org/thriftrw/idl"
	"verif/engine/ev"
	"verif/ref/idlprint"
)

// Check is the registered check.
var Check = &ev.Check{
	ID:    "C11",
	Level: "exploration",
	Rule: "(a) documents: every item of a production-covering catalog (4 header forms; constants of every literal form incl. hex/signed ints, exponents, both quote styles with every escape, references, nested lists/maps; typedefs of all 9 base-type spellings, containers, annotated sets; enums; structs/unions/exceptions with every field form; services with extends, oneway, throws, annotations; 66 items) " +
		"alone (every pair of layout deviations) and every ordered pair of items (every single deviation); thorough adds every ordered triple (default layout) and every pair of deviations on pairs of the structured definitions; layout deviations: " +
		"at every token gap {newline, spaces, tab, CR LF, # comment, // comment, /* */ comment, multi-line comment, blank line}, every optional separator {none, ',', ';'}, and before every documentable node a docstring of 4 shapes (single line, starred block, unstarred block, distant => must not attach). " +
		"Oracle: the parsed tree equals the expected tree in structure, names, literal values, docstrings and Line/Column of every node; idl.Info.Pos of value constants whose value is unique in the document; a reflective traversal of the parsed tree agrees with ast.Walk on (node, parent) pairs. " +
		"(b) totality: every token string of length<=3 (quick) / <=4 (thorough) over a 40-token alphabet and every byte string of length<=2 (quick) / <=3: exactly one of (program, non-empty error list), every error position inside the document, no panic. " +
		"A case is one document; non-trivial = documents of family (a).",
	Run: run,
	Budget: func(t string) time.Duration {
		return map[string]time.Duration{"quick": 4 * time.Minute, "thorough": 25 * time.Minute}[t]
	},
	Assumptions: []string{
		"positions are byte-based columns; documents are ASCII outside string literals and comments so that byte and rune columns coincide",
		"positions of value-typed constants are keyed by value in idl.Info, so they are only demanded for values unique in the document",
	},
}

type docCase struct {
	Items []string             `json:"items"`
	Devs  []idlprint.Deviation `json:"deviations"`
	Src   string               `json:"source"`
}

type posDiff struct {
	node     string
	exp, act idlprint.Pos
}

// posDiffs collects the position mismatches of the current comparison (the
// worker is single-threaded).
var posDiffs []posDiff

// nodePath is a dotted path into the tree.
func diffAST(path string, exp, act reflect.Value, out *[]string) {
	if len(*out) > 6 {
		return
	}
	if exp.Kind() == reflect.Interface || act.Kind() == reflect.Interface {
		if exp.Kind() == reflect.Interface {
			if exp.IsNil() != (act.Kind() == reflect.Interface && act.IsNil()) {
				if exp.IsNil() || (act.Kind() == reflect.Interface && act.IsNil()) {
					*out = append(*out, fmt.Sprintf("structure %s: expected %v, got %v", path, describe(exp), describe(act)))
					return
				}
			}
			if exp.IsNil() {
				return
			}
			exp = exp.Elem()
		}
		if act.Kind() == reflect.Interface {
			if act.IsNil() {
				*out = append(*out, fmt.Sprintf("structure %s: expected %v, got nil", path, describe(exp)))
				return
			}
			act = act.Elem()
		}
	}
	if exp.Type() != act.Type() {
		*out = append(*out, fmt.Sprintf("structure %s: expected node %v, got %v", path, exp.Type(), act.Type()))
		return
	}
	switch exp.Kind() {
	case reflect.Ptr:
		if exp.IsNil() || act.IsNil() {
			if exp.IsNil() != act.IsNil() {
				*out = append(*out, fmt.Sprintf("structure %s: expected %v, got %v", path, describe(exp), describe(act)))
			}
			return
		}
		diffAST(path, exp.Elem(), act.Elem(), out)
	case reflect.Struct:
		var posBad bool
		for i := 0; i < exp.NumField(); i++ {
			name := exp.Type().Field(i).Name
			if name == "Line" || name == "Column" {
				if exp.Field(i).Int() != act.Field(i).Int() {
					posBad = true
				}
				continue
			}
			diffAST(path+"."+name, exp.Field(i), act.Field(i), out)
		}
		if posBad {
			*out = append(*out, fmt.Sprintf("position %s (%s): expected %d:%d, got %d:%d", path, exp.Type().Name(),
				exp.FieldByName("Line").Int(), exp.FieldByName("Column").Int(), act.FieldByName("Line").Int(), act.FieldByName("Column").Int()))
			posDiffs = append(posDiffs, posDiff{exp.Type().Name(),
				idlprint.Pos{Line: int(exp.FieldByName("Line").Int()), Col: int(exp.FieldByName("Column").Int())},
				idlprint.Pos{Line: int(act.FieldByName("Line").Int()), Col: int(act.FieldByName("Column").Int())}})
		}
	case reflect.Slice:
		if exp.Len() != act.Len() {
			*out = append(*out, fmt.Sprintf("structure %s: expected %d elements, got %d", path, exp.Len(), act.Len()))
			return
		}
		for i := 0; i < exp.Len(); i++ {
			diffAST(fmt.Sprintf("%s[%d]", path, i), exp.Index(i), act.Index(i), out)
		}
	default:
		if !reflect.DeepEqual(exp.Interface(), act.Interface()) {
			cls := "value"
			if strings.HasSuffix(path, ".Doc") {
				cls = "docstring"
			}
			*out = append(*out, fmt.Sprintf("%s %s: expected %#v, got %#v", cls, path, exp.Interface(), act.Interface()))
		}
	}
}

func describe(v reflect.Value) string {
	if !v.IsValid() {
		return "<invalid>"
	}
	if (v.Kind() == reflect.Ptr || v.Kind() == reflect.Interface) && v.IsNil() {
		return "nil"
	}
	return fmt.Sprintf("%v", v.Type())
}

// walkPairs collects (parent, child) descriptions via ast.Walk.
type collector struct{ pairs *[]string }

func (c collector) Visit(w ast.Walker, n ast.Node) ast.Visitor {
	*c.pairs = append(*c.pairs, nodeDesc(w.Parent())+" -> "+nodeDesc(n))
	return c
}

func nodeDesc(n ast.Node) string {
	if n == nil {
		return "<root>"
	}
	v := reflect.ValueOf(n)
	if v.Kind() == reflect.Ptr {
		return fmt.Sprintf("%T@%p", n, n)
	}
	return fmt.Sprintf("%T%+v", n, n)
}

var nodeIface = reflect.TypeOf((*ast.Node)(nil)).Elem()

// reflectPairs computes the child relation generically: every field (or slice
// element) of a node that is itself a Node is a child.
func reflectPairs(parent ast.Node, n ast.Node, out *[]string) {
	*out = append(*out, nodeDesc(parent)+" -> "+nodeDesc(n))
	v := reflect.ValueOf(n)
	if v.Kind() == reflect.Ptr {
		v = v.Elem()
	}
	if v.Kind() != reflect.Struct {
		return
	}
	var visit func(f reflect.Value)
	visit = func(f reflect.Value) {
		switch f.Kind() {
		case reflect.Slice:
			for i := 0; i < f.Len(); i++ {
				visit(f.Index(i))
			}
			return
		case reflect.Interface, reflect.Ptr:
			if f.IsNil() {
				return
			}
		}
		if f.CanInterface() {
			if child, ok := f.Interface().(ast.Node); ok {
				reflectPairs(n, child, out)
				return
			}
		}
		if f.Kind() == reflect.Struct && f.Type().Implements(nodeIface) {
			reflectPairs(n, f.Interface().(ast.Node), out)
		}
	}
	for i := 0; i < v.NumField(); i++ {
		visit(v.Field(i))
	}
}

type runner struct {
	w *ev.W
	// items whose default-layout document is already wrong on their own: pairs
	// containing them are not run again (the finding is attributed to the item)
	badAlone map[string]bool
	probing  bool
}

func classify(d string) string {
	f := strings.Fields(d)
	if len(f) == 0 {
		return "diff"
	}
	if f[0] == "position" {
		// "position <path> (<NodeType>): ..."
		if i := strings.Index(d, "("); i >= 0 {
			if j := strings.Index(d[i:], ")"); j > 0 {
				return "position:" + d[i+1:i+j]
			}
		}
	}
	return f[0]
}

func (r *runner) document(items []idlprint.Item, devs []idlprint.Deviation) {
	w := r.w
	var vp []idlprint.ValuePos
	names := make([]string, len(items))
	for i, it := range items {
		names[i] = it.Name
	}
	// the catalog closures append to the vp passed at catalog construction; rebuild per document
	cat := idlprint.Catalog(&vp)
	byName := map[string]idlprint.Item{}
	for _, it := range cat {
		byName[it.Name] = it
	}
	var sel []idlprint.Item
	for _, n := range names {
		sel = append(sel, byName[n])
	}
	prog := idlprint.Program(sel)
	src, exp, doc := idlprint.Build(func(c *idlprint.Ctx) *ast.Program { vp = vp[:0]; return prog(c) }, devs)
	w.Eval(1)
	w.Nontrivial(1)
	dc := docCase{Items: names, Devs: devs, Src: src}
	if w.WantSample() && len(devs) == 1 && w.R.Evaluations%2003 == 0 {
		w.Sample(dc)
	}
	info := &idl.Info{}
	var got *ast.Program
	var err error
	var pan interface{}
	func() {
		defer func() { pan = recover() }()
		got, err = (&idl.Config{Info: info}).Parse([]byte(src))
	}()
	ctx := fmt.Sprintf("items %v layout [%s] source %q", names, idlprint.Describe(devs), src)
	devClass := "default-layout"
	if len(devs) > 0 {
		k := devs[0].Kind
		devClass = k[:strings.Index(k, ":")]
	}
	if pan != nil {
		w.Violation("panic", fmt.Sprintf("Parse panicked: %v; %s", pan, ctx), dc)
		return
	}
	if r.probing {
		var diffs []string
		if pan == nil && err == nil {
			diffAST("program", reflect.ValueOf(exp), reflect.ValueOf(got), &diffs)
		}
		if pan != nil || err != nil || len(diffs) > 0 {
			r.badAlone[names[0]] = true
		}
		w.R.Evaluations--
		w.R.Nontrivial--
		return
	}
	for _, n := range names {
		if r.badAlone[n] && len(names) > 1 {
			w.Count("pairs_skipped(contain an item that is already wrong alone)", 1)
			return
		}
	}
	if err != nil {
		w.Violation("rejected-valid:"+strings.Join(names, "+")+":"+devClass, fmt.Sprintf("a valid document was rejected: %v; %s", strings.ReplaceAll(err.Error(), "\n", " "), ctx), dc)
		w.Outcome("rejected")
		return
	}
	var diffs []string
	posDiffs = posDiffs[:0]
	diffAST("program", reflect.ValueOf(exp), reflect.ValueOf(got), &diffs)
	pi := 0
	for _, d := range diffs {
		sig := "ast-" + classify(d) + ":" + devClass + ":" + itemClass(names)
		if strings.HasPrefix(d, "position ") && pi < len(posDiffs) {
			pd := posDiffs[pi]
			pi++
			// the known shape: the node carries the position of the token before its first token
			if i := doc.TokenAt(pd.exp); i >= 0 {
				if prev, pp := doc.PrevTokenText(i); pp == pd.act {
					sig = "position-of-preceding-token:" + pd.node + ":after" + prev
				}
			}
		}
		w.Violation(sig, fmt.Sprintf("%s; %s", d, ctx), dc)
	}
	if len(diffs) == 0 {
		w.Outcome("tree-equal")
	} else {
		w.Outcome("tree-differs")
	}
	// positions of value-typed constants with a unique value
	count := map[ast.Node]int{}
	for _, v := range vp {
		count[v.Node]++
	}
	for _, v := range vp {
		if count[v.Node] != 1 {
			continue
		}
		p := info.Pos(v.Node)
		if p.Line != v.Pos.Line || p.Column != v.Pos.Col {
			sig := "info-position:" + fmt.Sprintf("%T", v.Node) + ":" + devClass
			if i := doc.TokenAt(v.Pos); i >= 0 {
				if prev, pp := doc.PrevTokenText(i); pp.Line == p.Line && pp.Col == p.Column {
					sig = "position-of-preceding-token:value-constant:after" + prev
				}
			}
			w.Violation(sig, fmt.Sprintf("idl.Info.Pos(%#v) = %d:%d, the literal is at %d:%d; %s", v.Node, p.Line, p.Column, v.Pos.Line, v.Pos.Col, ctx), dc)
		}
	}
	// traversal
	var a, b []string
	ast.Walk(collector{&a}, got)
	reflectPairs(nil, got, &b)
	sort.Strings(a)
	sort.Strings(b)
	if strings.Join(a, "\n") != strings.Join(b, "\n") {
		miss := ""
		seen := map[string]int{}
		for _, x := range a {
			seen[x]++
		}
		for _, x := range b {
			seen[x]--
		}
		for k, v := range seen {
			if v != 0 {
				miss += fmt.Sprintf(" [%+d %s]", v, k)
			}
		}
		w.Violation("walk", fmt.Sprintf("ast.Walk and the reflective traversal disagree on (parent -> node) pairs:%.400s; %s", miss, ctx), dc)
	}
}

// itemClass names the kinds of items in a document (const, typedef, struct, ...).
func itemClass(names []string) string {
	set := map[string]bool{}
	for _, n := range names {
		if i := strings.Index(n, ":"); i >= 0 {
			n = n[:i]
		}
		set[n] = true
	}
	var ks []string
	for k := range set {
		ks = append(ks, k)
	}
	sort.Strings(ks)
	return strings.Join(ks, "+")
}

var tokenAlpha = []string{"include", "namespace", "typedef", "struct", "union", "exception", "service", "enum", "const", "extends", "throws", "oneway", "void", "required", "optional",
	"i32", "string", "list", "map", "set", "true", "{", "}", "(", ")", "[", "]", "<", ">", ",", ";", ":", "=", "*", "a", "a.b", "1", "-0x1", "1.5e3", "\"s\"", "'s'", "\"s", "/**", "*/", "#", "\n"}

var poisonTokens = []string{"interface", "BEGIN", "float", "args", "99999999999999999999", "-99999999999999999999", "0xffffffffffffffffff", "1e999", "\"bad \\q escape\"", "'bad \\q escape'"}

// mustReject: a document containing a poison token is not a valid document.
func (r *runner) mustReject(src, item, poison string, topLevel bool) {
	w := r.w
	w.Eval(1)
	w.Nontrivial(1)
	w.Count("poison_token_documents", 1)
	var got *ast.Program
	var err error
	var pan interface{}
	func() {
		defer func() { pan = recover() }()
		got, err = idl.Parse([]byte(src))
	}()
	where := "inside"
	if topLevel {
		where = "top-level"
	}
	class := "reserved-word"
	switch poison[0] {
	case '"', '\'':
		class = "bad-escape"
	case '0', '1', '9', '-':
		class = "literal-out-of-range"
	}
	rep := map[string]string{"src": src, "item": item, "poison": poison}
	switch {
	case pan != nil:
		w.Violation("totality-panic", fmt.Sprintf("Parse(%q) panicked: %v", src, pan), rep)
	case err == nil:
		nd := 0
		if got != nil {
			nd = len(got.Definitions) + len(got.Headers)
		}
		w.Violation("accepted-invalid:"+class+":"+where, fmt.Sprintf("a document containing the invalid token %s was accepted (%d headers+definitions returned, no error): %q", poison, nd, src), rep)
	default:
		w.Outcome("poison-rejected")
	}
}

func (r *runner) totality(src string) {
	w := r.w
	w.Eval(1)
	var got *ast.Program
	var err error
	var pan interface{}
	func() {
		defer func() { pan = recover() }()
		got, err = idl.Parse([]byte(src))
	}()
	rep := map[string]string{"source": src}
	if pan != nil {
		w.Violation("totality-panic", fmt.Sprintf("Parse(%q) panicked: %v", src, pan), rep)
		return
	}
	lines := strings.Count(src, "\n") + 1
	switch {
	case got != nil && err != nil:
		w.Violation("totality-both", fmt.Sprintf("Parse(%q) returned a program AND an error", src), rep)
	case got == nil && err == nil:
		w.Violation("totality-neither", fmt.Sprintf("Parse(%q) returned neither program nor error", src), rep)
	case err != nil:
		pe, ok := err.(*idl.ParseError)
		if !ok || len(pe.Errors) == 0 {
			w.Violation("totality-empty-error-list", fmt.Sprintf("Parse(%q): error without entries: %v", src, err), rep)
			break
		}
		for _, e := range pe.Errors {
			if e.Pos.Line < 1 || e.Pos.Line > lines+1 {
				w.Violation("totality-error-position", fmt.Sprintf("Parse(%q): error at line %d, the document has %d lines", src, e.Pos.Line, lines), rep)
			}
		}
		w.Outcome("error")
	default:
		w.Outcome("program")
	}
}

func run(w *ev.W) {
	r := &runner{w: w}
	if rp := w.Args["replay"]; rp != "" {
		raw, _ := os.ReadFile(rp)
		var f struct {
			First struct {
				Replay docCase `json:"replay"`
			} `json:"first"`
		}
		json.Unmarshal(raw, &f)
		var vp []idlprint.ValuePos
		by := map[string]idlprint.Item{}
		for _, it := range idlprint.Catalog(&vp) {
			by[it.Name] = it
		}
		var sel []idlprint.Item
		for _, n := range f.First.Replay.Items {
			sel = append(sel, by[n])
		}
		if len(sel) > 0 {
			r.document(sel, f.First.Replay.Devs)
		}
		return
	}
	var vp []idlprint.ValuePos
	cat := idlprint.Catalog(&vp)
	stop := false
	expired := func() bool {
		if !stop && w.Expired() {
			w.Cap("time budget reached (families in order: single items x layouts, pairs, token strings, byte strings)")
			stop = true
		}
		return stop
	}
	n := 0
	do := func(items []idlprint.Item, devs []idlprint.Deviation) {
		if stop || !w.Own() {
			return
		}
		n++
		if n&127 == 0 && expired() {
			return
		}
		r.document(items, devs)
		w.Done()
	}
	deviationsOf := func(items []idlprint.Item) []idlprint.Deviation {
		var v []idlprint.ValuePos
		_ = v
		_, _, d := idlprint.Build(idlprint.Program(items), nil)
		return d.Deviations()
	}
	// which items are wrong on their own (every worker needs to know)
	r.badAlone = map[string]bool{}
	r.probing = true
	for _, it := range cat {
		r.document([]idlprint.Item{it}, nil)
	}
	r.probing = false
	// single items
	for _, it := range cat {
		items := []idlprint.Item{it}
		do(items, nil)
		devs := deviationsOf(items)
		for i, d1 := range devs {
			do(items, []idlprint.Deviation{d1})
			{
				for _, d2 := range devs[i+1:] {
					if d2.Tok == d1.Tok && d1.Kind[:4] == d2.Kind[:4] {
						continue // two gaps or two docstrings at one place are not a layout
					}
					do(items, []idlprint.Deviation{d1, d2})
				}
			}
		}
	}
	// ordered pairs
	for _, a := range cat {
		for _, b := range cat {
			items := []idlprint.Item{a, b}
			do(items, nil)
			for _, d1 := range deviationsOf(items) {
				do(items, []idlprint.Deviation{d1})
			}
		}
	}
	if !w.Quick() {
		// every ordered triple under the default layout
		for _, a := range cat {
			for _, b := range cat {
				for _, c := range cat {
					do([]idlprint.Item{a, b, c}, nil)
				}
			}
		}
		// pairs of deviations on every pair of the first 16 definitions
		var defs []idlprint.Item
		for _, it := range cat {
			if it.Def != nil && (strings.HasPrefix(it.Name, "struct") || strings.HasPrefix(it.Name, "service") || strings.HasPrefix(it.Name, "enum") || strings.HasPrefix(it.Name, "const:map") || strings.HasPrefix(it.Name, "const:list") || strings.HasPrefix(it.Name, "typedef:nested") || it.Name == "union" || it.Name == "exception") {
				defs = append(defs, it)
			}
		}
		for _, a := range defs {
			for _, b := range defs {
				items := []idlprint.Item{a, b}
				devs := deviationsOf(items)
				for i, d1 := range devs {
					for _, d2 := range devs[i+1:] {
						if d2.Tok == d1.Tok && d1.Kind[:4] == d2.Kind[:4] {
							continue
						}
						do(items, []idlprint.Deviation{d1, d2})
					}
				}
			}
		}
	}
	// (d) poison tokens: a reserved word, an integer or double literal outside the
	// representable range, or a string with an invalid escape makes a document invalid
	// wherever it stands - before, between, after and inside definitions. Every catalog
	// item, every token gap (and the two ends), every poison token.
	{
		var vp0 []idlprint.ValuePos
		for _, it := range idlprint.Catalog(&vp0) {
			if stop {
				break
			}
			items := []idlprint.Item{it}
			_, _, d0 := idlprint.Build(idlprint.Program(items), nil)
			for gap := 0; gap <= d0.Tokens(); gap++ {
				for _, poison := range poisonTokens {
					if !w.Own() {
						continue
					}
					n++
					if n&255 == 0 && expired() {
						break
					}
					var src string
					switch {
					case gap == 0:
						src0, _, _ := idlprint.Build(idlprint.Program(items), nil)
						src = poison + "\n" + src0
					case gap == d0.Tokens():
						src0, _, _ := idlprint.Build(idlprint.Program(items), nil)
						src = src0 + "\n" + poison + "\n"
					default:
						src, _, _ = idlprint.Build(idlprint.Program(items), []idlprint.Deviation{{Tok: gap, Kind: "gap: " + poison + " "}})
					}
					r.mustReject(src, it.Name, poison, gap == 0 || gap == d0.Tokens())
				}
			}
		}
	}
	// totality
	maxTok, maxByte := 3, 2
	if !w.Quick() {
		maxTok, maxByte = 4, 3
	}
	var rec func(cur []string)
	rec = func(cur []string) {
		if stop {
			return
		}
		if w.Own() {
			n++
			if n&1023 == 0 && expired() {
				return
			}
			r.totality(strings.Join(cur, " "))
		}
		if len(cur) == maxTok {
			return
		}
		for _, t := range tokenAlpha {
			rec(append(cur, t))
		}
	}
	rec(nil)
	for l := 1; l <= maxByte && !stop; l++ {
		total := 1
		for i := 0; i < l; i++ {
			total *= 256
		}
		for x := 0; x < total; x++ {
			if !w.Own() {
				continue
			}
			b := make([]byte, l)
			y := x
			for i := l - 1; i >= 0; i-- {
				b[i] = byte(y)
				y >>= 8
			}
			n++
			if n&4095 == 0 && expired() {
				break
			}
			r.totality(string(b))
		}
	}
}
