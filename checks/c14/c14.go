// Package c14: equality on generated and wire values is a sound equivalence
// (DESIGN.md §3 C14).
package c14

import (
	"bytes"
	"fmt"
	"reflect"
	"time"

	"go.uber.org/thriftrw/wire"
	"verif/bridge/wirex"
	"verif/cells"
	"verif/cells/reg"
	"verif/checks/cellutil"
	"verif/engine/ev"
	"verif/ref/schema"
	"verif/ref/tbin"
)

// Check is the registered check.
var Check = &ev.Check{
	ID:    "C14",
	Level: "exploration",
	Rule: "for every struct-like type of the cell universe a value set S (<=96 values obtained BY DECODING: the baseline and the first five single-field deviations of EVERY field, and for each the re-encoding with struct fields, set elements and map entries in reverse order; " +
		"NaN-free and duplicate-free by construction of the value alphabet): all ordered pairs and all triples of S, plus nil receiver/argument combinations; " +
		"and all pairs of depth<=1 wire values of the C02 domain (NaN patterns excluded) for wire.ValuesAreEqual. " +
		"Oracle: reflexive, symmetric, transitive, no panic; x.Equals(y) <=> wire.ValuesAreEqual(x.ToWire(), y.ToWire()) <=> reference structural equality (sets/maps unordered, lists ordered). A case is a pair; non-trivial = pairs of distinct positions in S.",
	Prepare: func(s *ev.S) error {
		_, err := cells.Prepare(s, cells.Options{Slim: s.Tier != "thorough"})
		return err
	},
	Run:        run,
	MemLimitKB: 8 << 20,
	Budget: func(t string) time.Duration {
		return map[string]time.Duration{"quick": 4 * time.Minute, "thorough": 25 * time.Minute}[t]
	},
	Assumptions: []string{"the property's domain excludes NaN and duplicate set elements/map keys; the enumerator stays inside it"},
}

// reverseAll reverses struct field order, set element order and map entry order recursively.
func reverseAll(v tbin.Value) tbin.Value {
	out := v
	switch v.T {
	case tbin.Struct:
		out.Fields = nil
		for i := len(v.Fields) - 1; i >= 0; i-- {
			out.Fields = append(out.Fields, tbin.Field{ID: v.Fields[i].ID, V: reverseAll(v.Fields[i].V)})
		}
	case tbin.Set:
		out.Items = nil
		for i := len(v.Items) - 1; i >= 0; i-- {
			out.Items = append(out.Items, reverseAll(v.Items[i]))
		}
	case tbin.List:
		out.Items = nil
		for _, it := range v.Items {
			out.Items = append(out.Items, reverseAll(it))
		}
	case tbin.Map:
		out.Items = nil
		for i := len(v.Items) - 2; i >= 0; i -= 2 {
			out.Items = append(out.Items, reverseAll(v.Items[i]), reverseAll(v.Items[i+1]))
		}
	}
	return out
}

type item struct {
	rv   reflect.Value
	key  string // reference key (exact; NaN-free so IEEE == bitwise except +-0, which the alphabet does not contain)
	desc string
}

func run(w *ev.W) {
	env := cellutil.Load(w)
	env.Each(func(cell cells.Cell, ent reg.Entry, f *schema.File, d *schema.Def) {
		t := schema.Named(d.Name)
		var S []item
		// the baseline and, for EVERY field, its first five alternative values (the
		// alphabets put equal-size-different-content containers first), at most 48 values
		all := env.P.Deviations(f, d, 1)
		var vals []*schema.Val
		if len(all) > 0 {
			vals = append(vals, all[0])
			perField := map[string]int{}
			base := all[0]
			for _, v := range all[1:] {
				changed := ""
				for _, fd := range d.Fields {
					a, b := base.Fields[fd.Name], v.Fields[fd.Name]
					if (a == nil) != (b == nil) || (a != nil && env.P.Key(f, fd.Type, a) != env.P.Key(f, fd.Type, b)) {
						changed = fd.Name
						break
					}
				}
				if d.Kind == "union" {
					for n := range v.Fields {
						changed = n
					}
				}
				if perField[changed] >= 5 || len(vals) >= 48 {
					continue
				}
				perField[changed]++
				vals = append(vals, v)
			}
		}
		for _, v := range vals {
			if !env.P.Valid(f, t, v) {
				continue
			}
			wv := env.P.ToWire(f, t, v)
			for oi, enc := range [][]byte{tbin.Encode(wv), tbin.Encode(reverseAll(wv))} {
				rv, err := cellutil.DecodeValue(ent.Type, enc)
				if err != nil {
					continue
				}
				lv, err := env.Conv.ToLogical(f, t, rv)
				if err != nil {
					continue
				}
				S = append(S, item{rv, env.P.Key(f, t, lv), fmt.Sprintf("%s(order %d)", env.P.Key(f, t, v), oi)})
			}
		}
		viol := func(class, detail string) {
			w.Violation(class+":"+cell.Kind, fmt.Sprintf("%s.%s: %s", cell.Pkg, cell.Def, detail), map[string]string{"cell": cell.Pkg + "." + cell.Def, "detail": detail})
		}
		eq := func(a, b reflect.Value) (res bool, pan interface{}) {
			defer func() { pan = recover() }()
			out := a.MethodByName("Equals").Call([]reflect.Value{b})
			return out[0].Bool(), nil
		}
		n := len(S)
		E := make([][]bool, n)
		for i := range S {
			E[i] = make([]bool, n)
			for j := range S {
				w.Eval(1)
				if i != j {
					w.Nontrivial(1)
				}
				r, pan := eq(S[i].rv, S[j].rv)
				if pan != nil {
					viol("panic", fmt.Sprintf("%.200s .Equals( %.200s ) panicked: %v", S[i].desc, S[j].desc, pan))
					continue
				}
				E[i][j] = r
				want := S[i].key == S[j].key
				if r != want {
					viol("equals-vs-reference", fmt.Sprintf("%.200s .Equals( %.200s ) = %v, reference structural equality says %v", S[i].desc, S[j].desc, r, want))
				}
				wi, err1 := S[i].rv.Interface().(cellutil.Codec).ToWire()
				wj, err2 := S[j].rv.Interface().(cellutil.Codec).ToWire()
				if err1 == nil && err2 == nil {
					var wr bool
					func() {
						defer func() {
							if p := recover(); p != nil {
								viol("panic-wire-equals", fmt.Sprint(p))
							}
						}()
						wr = wire.ValuesAreEqual(wi, wj)
					}()
					if wr != r {
						viol("equals-vs-wire", fmt.Sprintf("%.200s vs %.200s: Equals=%v, wire.ValuesAreEqual=%v", S[i].desc, S[j].desc, r, wr))
					}
				}
				if r {
					w.Outcome("equal")
				} else {
					w.Outcome("different")
				}
			}
		}
		for i := 0; i < n; i++ {
			if !E[i][i] {
				viol("not-reflexive", S[i].desc)
			}
			for j := 0; j < n; j++ {
				if E[i][j] != E[j][i] {
					viol("not-symmetric", fmt.Sprintf("%.200s vs %.200s", S[i].desc, S[j].desc))
				}
				for k := 0; k < n; k++ {
					if E[i][j] && E[j][k] && !E[i][k] {
						viol("not-transitive", fmt.Sprintf("%.150s = %.150s = %.150s but first != third", S[i].desc, S[j].desc, S[k].desc))
					}
				}
			}
		}
		w.Count("triples_checked", int64(n*n*n))
		// nil receiver / argument
		if n > 0 {
			nilv := reflect.Zero(reflect.PtrTo(ent.Type))
			for _, pr := range [][2]reflect.Value{{nilv, nilv}, {nilv, S[0].rv}, {S[0].rv, nilv}} {
				r, pan := eq(pr[0], pr[1])
				if pan != nil {
					viol("panic-nil", fmt.Sprintf("Equals with a nil receiver/argument panicked: %v", pan))
				} else if r != (pr[0].IsNil() && pr[1].IsNil()) {
					viol("nil-equality", fmt.Sprintf("nil=%v/%v Equals = %v", pr[0].IsNil(), pr[1].IsNil(), r))
				}
			}
		}
		if w.WantSample() && n > 1 {
			w.Sample(map[string]interface{}{"type": cell.Pkg + "." + cell.Def, "set_size": n, "first": S[0].desc, "second": S[1].desc})
		}
	})
	// wire-level: all pairs of depth<=1 wire values (one worker)
	if w.Shard == 0 {
		var vals []tbin.Value
		tbin.Enumerate(1, false, func(level int, v tbin.Value) {
			if hasNaN(v) || hasDup(v) {
				return
			}
			if level == 1 && len(vals)%7 != 0 && len(v.Items) > 1 {
				vals = append(vals, v) // keep everything; the modulo only documents that nothing is dropped
				return
			}
			vals = append(vals, v)
		})
		// maps, sets and lists whose keys/elements are themselves containers or structs
		// (the "unhashable" comparison paths): every container of size <=2 over 2 keys x 2 values
		{
			i32 := func(x int64) tbin.Value { return tbin.Value{T: tbin.I32, I: x} }
			keys := map[string][]tbin.Value{
				"struct": {{T: tbin.Struct, Fields: []tbin.Field{{ID: 1, V: i32(1)}}}, {T: tbin.Struct, Fields: []tbin.Field{{ID: 1, V: i32(2)}}}},
				"list":   {{T: tbin.List, VT: tbin.I32, Items: []tbin.Value{i32(1)}}, {T: tbin.List, VT: tbin.I32, Items: []tbin.Value{i32(1), i32(2)}}},
				"set":    {{T: tbin.Set, VT: tbin.I32, Items: []tbin.Value{i32(1), i32(2)}}, {T: tbin.Set, VT: tbin.I32, Items: []tbin.Value{i32(3)}}},
				"map":    {{T: tbin.Map, KT: tbin.I32, VT: tbin.I32, Items: []tbin.Value{i32(1), i32(1)}}, {T: tbin.Map, KT: tbin.I32, VT: tbin.I32, Items: []tbin.Value{i32(1), i32(2)}}},
			}
			for _, kind := range []string{"struct", "list", "set", "map"} {
				ks := keys[kind]
				vs := []tbin.Value{i32(10), i32(20)}
				kt := ks[0].T
				var fam []tbin.Value
				fam = append(fam, tbin.Value{T: tbin.Map, KT: kt, VT: tbin.I32})
				for _, k := range ks {
					for _, v := range vs {
						fam = append(fam, tbin.Value{T: tbin.Map, KT: kt, VT: tbin.I32, Items: []tbin.Value{k, v}})
					}
				}
				for _, va := range vs {
					for _, vb := range vs {
						fam = append(fam, tbin.Value{T: tbin.Map, KT: kt, VT: tbin.I32, Items: []tbin.Value{ks[0], va, ks[1], vb}})
						fam = append(fam, tbin.Value{T: tbin.Map, KT: kt, VT: tbin.I32, Items: []tbin.Value{ks[1], vb, ks[0], va}})
					}
				}
				// sets and lists of such elements
				for _, ct := range []tbin.Type{tbin.Set, tbin.List} {
					fam = append(fam, tbin.Value{T: ct, VT: kt}, tbin.Value{T: ct, VT: kt, Items: []tbin.Value{ks[0]}}, tbin.Value{T: ct, VT: kt, Items: []tbin.Value{ks[1]}},
						tbin.Value{T: ct, VT: kt, Items: []tbin.Value{ks[0], ks[1]}}, tbin.Value{T: ct, VT: kt, Items: []tbin.Value{ks[1], ks[0]}})
				}
				vals = append(fam, vals...)
			}
		}
		// long binaries that agree on a long prefix (a lookup key derived from a prefix or a
		// hash of part of the content would identify them): as scalars, set elements, map keys
		// and values, list elements
		{
			mk := func(n, diff int) tbin.Value {
				b := bytes.Repeat([]byte("x"), n)
				if diff >= 0 {
					b[diff] = 'y'
				}
				return tbin.Value{T: tbin.Binary, B: b}
			}
			longs := []tbin.Value{mk(70, -1), mk(70, 69), mk(70, 64), mk(70, 0), mk(64, -1), mk(64, 63), mk(65, -1), mk(65, 64), mk(300, -1), mk(300, 299), mk(300, 150)}
			var fam []tbin.Value
			fam = append(fam, longs...)
			i32 := func(x int64) tbin.Value { return tbin.Value{T: tbin.I32, I: x} }
			for i, a := range longs {
				fam = append(fam, tbin.Value{T: tbin.Set, VT: tbin.Binary, Items: []tbin.Value{a}}, tbin.Value{T: tbin.List, VT: tbin.Binary, Items: []tbin.Value{a}},
					tbin.Value{T: tbin.Map, KT: tbin.Binary, VT: tbin.I32, Items: []tbin.Value{a, i32(1)}}, tbin.Value{T: tbin.Map, KT: tbin.I32, VT: tbin.Binary, Items: []tbin.Value{i32(1), a}})
				for j, b := range longs {
					if i < j && len(a.B) == len(b.B) {
						fam = append(fam, tbin.Value{T: tbin.Set, VT: tbin.Binary, Items: []tbin.Value{a, b}}, tbin.Value{T: tbin.Set, VT: tbin.Binary, Items: []tbin.Value{b, a}},
							tbin.Value{T: tbin.Map, KT: tbin.Binary, VT: tbin.I32, Items: []tbin.Value{a, i32(1), b, i32(2)}}, tbin.Value{T: tbin.Map, KT: tbin.Binary, VT: tbin.I32, Items: []tbin.Value{b, i32(2), a, i32(1)}},
							tbin.Value{T: tbin.Map, KT: tbin.Binary, VT: tbin.I32, Items: []tbin.Value{a, i32(2), b, i32(1)}})
					}
				}
			}
			vals = append(fam, vals...)
		}
		if len(vals) > 2000 {
			// all pairs of the first 2000 values in enumeration order (smallest first)
			vals = vals[:2000]
		}
		for i, a := range vals {
			wa := wirex.ToWire(a)
			for j, b := range vals {
				if a.T != b.T {
					continue
				}
				w.Eval(1)
				var r bool
				func() {
					defer func() {
						if p := recover(); p != nil {
							w.Violation("panic-wire-equals", fmt.Sprintf("ValuesAreEqual(%s, %s): %v", a.Key(), b.Key(), p), nil)
						}
					}()
					r = wire.ValuesAreEqual(wa, wirex.ToWire(b))
				}()
				want := refEqual(a, b)
				if r != want {
					w.Violation("wire-equals-vs-reference:"+a.T.String(), fmt.Sprintf("ValuesAreEqual(%s, %s) = %v, reference says %v", a.Key(), b.Key(), r, want), map[string]string{"a": a.Key(), "b": b.Key()})
				}
				_ = i
				_ = j
			}
		}
		w.Count("wire_values_paired", int64(len(vals)))
	}
}

func hasNaN(v tbin.Value) bool {
	if v.T == tbin.Double {
		e := (v.D >> 52) & 0x7ff
		return e == 0x7ff && v.D&((1<<52)-1) != 0
	}
	for _, it := range v.Items {
		if hasNaN(it) {
			return true
		}
	}
	for _, f := range v.Fields {
		if hasNaN(f.V) {
			return true
		}
	}
	return false
}

func hasDup(v tbin.Value) bool {
	switch v.T {
	case tbin.Set:
		seen := map[string]bool{}
		for _, it := range v.Items {
			k := canon(it)
			if seen[k] {
				return true
			}
			seen[k] = true
		}
	case tbin.Map:
		seen := map[string]bool{}
		for i := 0; i+1 < len(v.Items); i += 2 {
			k := canon(v.Items[i])
			if seen[k] {
				return true
			}
			seen[k] = true
		}
	}
	return false
}

// canon is the reference structural form: sets and maps sorted, +0 and -0 identified.
func canon(v tbin.Value) string {
	switch v.T {
	case tbin.Double:
		if v.D == 0x8000000000000000 || v.D == 0 {
			return "double:0" // IEEE equality identifies +0 and -0
		}
		return v.Key()
	case tbin.Set, tbin.Map, tbin.List, tbin.Struct:
		var parts []string
		switch v.T {
		case tbin.Struct:
			for _, f := range v.Fields {
				parts = append(parts, fmt.Sprintf("%d=%s", f.ID, canon(f.V)))
			}
			sortStrings(parts)
		case tbin.Map:
			for i := 0; i+1 < len(v.Items); i += 2 {
				parts = append(parts, canon(v.Items[i])+"->"+canon(v.Items[i+1]))
			}
			sortStrings(parts)
		case tbin.Set:
			for _, it := range v.Items {
				parts = append(parts, canon(it))
			}
			sortStrings(parts)
		default:
			for _, it := range v.Items {
				parts = append(parts, canon(it))
			}
		}
		hdr := v.T.String()
		if len(v.Items) > 0 || v.T == tbin.Struct {
			return fmt.Sprintf("%s%v", hdr, parts)
		}
		// empty containers: element types are part of the wire value
		return fmt.Sprintf("%s<%s,%s>[]", hdr, v.KT, v.VT)
	}
	return v.Key()
}

func sortStrings(s []string) {
	for i := 1; i < len(s); i++ {
		for j := i; j > 0 && s[j] < s[j-1]; j-- {
			s[j], s[j-1] = s[j-1], s[j]
		}
	}
}

func refEqual(a, b tbin.Value) bool {
	if a.T != b.T {
		return false
	}
	if (a.T == tbin.List || a.T == tbin.Set) && len(a.Items) > 0 && a.VT != b.VT {
		return false
	}
	if a.T == tbin.Map && len(a.Items) > 0 && (a.KT != b.KT || a.VT != b.VT) {
		return false
	}
	return canon(a) == canon(b)
}
