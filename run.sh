#!/bin/sh
# usage: run.sh <property id> <quick|thorough> [--replay path]
# Rebuilds the check binary against /repo's current working tree, then runs it.
cd "$(dirname "$0")" || exit 2
export GOFLAGS=-mod=mod GOPROXY=off GOSUMDB=off GOTOOLCHAIN=local VERIF_ROOT="$(pwd)"
id="$1"; tier="${2:-quick}"; shift; [ $# -gt 0 ] && shift
mkdir -p bin
tools/mkoverlay.sh "bin/overlay-$id.json"
# E3: checks that own map iteration order / scheduling get rewritten copies of
# the product packages (from /repo's current tree) added to the overlay.
maprange=""; syncpk=""; logpk=""
case "$id" in
  C07) maprange="compile" ;;
  C16) syncpk="protocol/binary,internal/frame,internal/plugin,internal/concurrent"; logpk="plugin" ;;
  C18) syncpk="protocol/binary,internal/frame,internal/plugin,internal/concurrent" ;;
  C20) maprange="compile,internal/compare,internal/git" ;;
  C10) maprange="compile,gen,internal/plugin,plugin,." ;;
  C17) maprange="gen" ;;
esac
if [ -n "$maprange$syncpk$logpk" ]; then
  go build -o bin/overlaygen ./tools/overlaygen || exit 2
  rm -rf "bin/ov-$id"
  if ! bin/overlaygen -maprange "$maprange" -sync "$syncpk" -log "$logpk" -dir "$(pwd)/bin/ov-$id" -base "bin/overlay-$id.json" -out "bin/overlay-$id.json" > "bin/overlaygen-$id.json" 2> "bin/build-$id.log"; then
    echo "HARNESS-ERROR check=$id overlay generation failed (unowned nondeterminism or /repo does not type-check):" >&2
    cat "bin/overlaygen-$id.json" "bin/build-$id.log" >&2
    exit 2
  fi
fi
if ! go build -tags verif -overlay "bin/overlay-$id.json" -o "bin/vcheck-$id" ./cmd/vcheck 2> "bin/build-$id.log"; then
  # a tree that does not build is not a property verdict
  echo "HARNESS-ERROR check=$id harness does not build against /repo:" >&2
  cat "bin/build-$id.log" >&2
  exit 2
fi
exec "bin/vcheck-$id" "$id" --tier "$tier" "$@"
