#!/bin/sh
# usage: run.sh <property id> <quick|thorough> [--replay path]
# Rebuilds the check binary against /repo's current working tree, then runs it.
cd "$(dirname "$0")" || exit 2
export GOFLAGS=-mod=mod GOPROXY=off GOSUMDB=off GOTOOLCHAIN=local VERIF_ROOT="$(pwd)"
id="$1"; tier="${2:-quick}"; shift; [ $# -gt 0 ] && shift
mkdir -p bin
tools/mkoverlay.sh "bin/overlay-$id.json"
if ! go build -tags verif -overlay "bin/overlay-$id.json" -o "bin/vcheck-$id" ./cmd/vcheck 2> "bin/build-$id.log"; then
  # a tree that does not build is not a property verdict
  echo "HARNESS-ERROR check=$id harness does not build against /repo:" >&2
  cat "bin/build-$id.log" >&2
  exit 2
fi
exec "bin/vcheck-$id" "$id" --tier "$tier" "$@"
