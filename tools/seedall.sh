#!/bin/sh
# seedall.sh [tier]: runs every kept seeded change against the check of its property
# (applies the patch to /repo, runs, reverts) and prints one line per seed.
# Not to be run while anything else needs /repo unchanged.
tier="${1:-quick}"
cd /verif
for d in seeded/*/; do
  n=$(basename "$d"); id=${n%%-*}
  out=$(tools/seedrun.sh "$id" "/verif/$d/patch.diff" "$tier" 2>&1)
  rc=$(echo "$out" | sed -n 's/^exit=//p' | head -1)
  nv=$(echo "$out" | sed -n '2p')
  first=$(echo "$out" | grep -m1 '^VIOLATION' | sed 's/.*sig=//' | cut -c1-90)
  echo "$n exit=$rc violations=$nv $first"
done
git -C /repo status --short | head -3
