// overlaygen (E3) produces a build overlay with mechanically rewritten copies
// of product files from /repo's current working tree:
//
//	-maprange pkgdir,...   every `for ... range m` with m of map type ->
//	                       iteration over vmap.Keys(m, "<file:line>")
//	-sync pkgdir,...       import "sync" -> verifshim/vsync, "go.uber.org/atomic"
//	                       -> verifshim/uatomic, `go f(x)` -> vsched.Go(...)
//
// It prints a JSON report (sites rewritten, leftovers) and writes the overlay
// Replace map to -out. /repo is never modified.
package main

import (
	"bytes"
	"encoding/json"
	"flag"
	"fmt"
	"go/ast"
	"go/format"
	"go/token"
	"go/types"
	"os"
	"path/filepath"
	"sort"
	"strconv"
	"strings"

	"golang.org/x/tools/go/ast/astutil"
	"golang.org/x/tools/go/packages"
)

const (
	vmapPath   = "go.uber.org/thriftrw/verifshim/vmap"
	vsyncPath  = "go.uber.org/thriftrw/verifshim/vsync"
	uatomPath  = "go.uber.org/thriftrw/verifshim/uatomic"
	vschedPath = "go.uber.org/thriftrw/verifshim/vsched"
	vlogPath   = "go.uber.org/thriftrw/verifshim/vlog"
)

type report struct {
	MapRangeSites []string `json:"map_range_sites"`
	GoStmtSites   []string `json:"go_stmt_sites"`
	SyncImports   []string `json:"sync_import_files"`
	Leftover      []string `json:"leftover"`
	Files         int      `json:"files_rewritten"`
}

func main() {
	repo := flag.String("repo", "/repo", "repository root")
	mapPk := flag.String("maprange", "", "comma-separated package dirs (relative to repo) for the map-range rewrite")
	syncPk := flag.String("sync", "", "comma-separated package dirs for the sync/atomic/go rewrite")
	logPk := flag.String("log", "", "comma-separated package dirs in which import \"log\" becomes verifshim/vlog (Fatalf -> panic)")
	outDir := flag.String("dir", "", "directory for rewritten files")
	out := flag.String("out", "", "overlay json to write (merged with -base)")
	base := flag.String("base", "", "existing overlay json to merge")
	flag.Parse()

	split := func(s string) []string {
		if s == "" {
			return nil
		}
		return strings.Split(s, ",")
	}
	mapSet, syncSet := map[string]bool{}, map[string]bool{}
	var pats []string
	for _, p := range split(*mapPk) {
		mapSet[filepath.Join(*repo, p)] = true
		pats = append(pats, "./"+p)
	}
	for _, p := range split(*syncPk) {
		if !mapSet[filepath.Join(*repo, p)] {
			pats = append(pats, "./"+p)
		}
		syncSet[filepath.Join(*repo, p)] = true
	}
	logSet := map[string]bool{}
	for _, p := range split(*logPk) {
		if !mapSet[filepath.Join(*repo, p)] && !syncSet[filepath.Join(*repo, p)] {
			pats = append(pats, "./"+p)
		}
		logSet[filepath.Join(*repo, p)] = true
	}
	replace := map[string]string{}
	if *base != "" {
		b, err := os.ReadFile(*base)
		if err == nil {
			var o struct{ Replace map[string]string }
			json.Unmarshal(b, &o)
			for k, v := range o.Replace {
				replace[k] = v
			}
		}
	}
	var rep report
	if len(pats) > 0 {
		cfg := &packages.Config{
			Mode: packages.NeedName | packages.NeedFiles | packages.NeedSyntax | packages.NeedTypes | packages.NeedTypesInfo | packages.NeedCompiledGoFiles | packages.NeedImports | packages.NeedDeps,
			Dir:  *repo,
			Env:  append(os.Environ(), "GOFLAGS=-mod=mod"),
		}
		pkgs, err := packages.Load(cfg, pats...)
		if err != nil {
			fmt.Fprintln(os.Stderr, "overlaygen: load:", err)
			os.Exit(2)
		}
		for _, pkg := range pkgs {
			if len(pkg.Errors) > 0 {
				fmt.Fprintln(os.Stderr, "overlaygen: package errors in", pkg.PkgPath, pkg.Errors)
				os.Exit(2)
			}
			for i, f := range pkg.Syntax {
				name := pkg.CompiledGoFiles[i]
				dir := filepath.Dir(name)
				changed := false
				if mapSet[dir] {
					if rewriteMapRanges(pkg, f, name, *repo, &rep) {
						changed = true
					}
				}
				if syncSet[dir] {
					if rewriteSync(pkg, f, name, *repo, &rep) {
						changed = true
					}
				}
				if logSet[dir] {
					for _, imp := range f.Imports {
						if p, _ := strconv.Unquote(imp.Path.Value); p == "log" {
							imp.Path.Value = strconv.Quote(vlogPath)
							if imp.Name == nil {
								imp.Name = ast.NewIdent("log")
							}
							changed = true
							rep.SyncImports = append(rep.SyncImports, "log->vlog "+name)
						}
					}
				}
				if !changed {
					continue
				}
				var buf bytes.Buffer
				if err := format.Node(&buf, pkg.Fset, f); err != nil {
					fmt.Fprintln(os.Stderr, "overlaygen: format:", name, err)
					os.Exit(2)
				}
				rel, _ := filepath.Rel(*repo, name)
				dst := filepath.Join(*outDir, rel)
				os.MkdirAll(filepath.Dir(dst), 0o755)
				if err := os.WriteFile(dst, buf.Bytes(), 0o644); err != nil {
					fmt.Fprintln(os.Stderr, "overlaygen:", err)
					os.Exit(2)
				}
				replace[name] = dst
				rep.Files++
			}
		}
	}
	sort.Strings(rep.MapRangeSites)
	ob, _ := json.MarshalIndent(map[string]interface{}{"Replace": replace}, "", " ")
	if err := os.WriteFile(*out, ob, 0o644); err != nil {
		fmt.Fprintln(os.Stderr, "overlaygen:", err)
		os.Exit(2)
	}
	rb, _ := json.MarshalIndent(rep, "", " ")
	fmt.Println(string(rb))
	if len(rep.Leftover) > 0 {
		os.Exit(3)
	}
}

func site(fset *token.FileSet, pos token.Pos, repo string) string {
	p := fset.Position(pos)
	rel, _ := filepath.Rel(repo, p.Filename)
	return rel + ":" + strconv.Itoa(p.Line)
}

func simpleExpr(e ast.Expr) bool {
	switch x := e.(type) {
	case *ast.Ident:
		return true
	case *ast.SelectorExpr:
		return simpleExpr(x.X)
	case *ast.ParenExpr:
		return simpleExpr(x.X)
	}
	return false
}

// mutatesMap reports whether body deletes from or assigns into the map expr.
func mutatesMap(body *ast.BlockStmt, m ast.Expr) bool {
	want := types.ExprString(m)
	found := false
	ast.Inspect(body, func(n ast.Node) bool {
		switch x := n.(type) {
		case *ast.CallExpr:
			if id, ok := x.Fun.(*ast.Ident); ok && id.Name == "delete" && len(x.Args) > 0 && types.ExprString(x.Args[0]) == want {
				found = true
			}
		case *ast.AssignStmt:
			for _, l := range x.Lhs {
				if ix, ok := l.(*ast.IndexExpr); ok && types.ExprString(ix.X) == want {
					found = true
				}
			}
		}
		return true
	})
	return found
}

func rewriteMapRanges(pkg *packages.Package, f *ast.File, name, repo string, rep *report) bool {
	changed := false
	n := 0
	astutil.Apply(f, func(c *astutil.Cursor) bool {
		rs, ok := c.Node().(*ast.RangeStmt)
		if !ok {
			return true
		}
		tv, ok := pkg.TypesInfo.Types[rs.X]
		if !ok {
			return true
		}
		if _, isMap := tv.Type.Underlying().(*types.Map); !isMap {
			return true
		}
		st := site(pkg.Fset, rs.Pos(), repo)
		if !simpleExpr(rs.X) {
			rep.Leftover = append(rep.Leftover, "map range over a non-simple expression at "+st)
			return true
		}
		if mutatesMap(rs.Body, rs.X) {
			rep.Leftover = append(rep.Leftover, "map range whose body mutates the ranged map at "+st)
			return true
		}
		n++
		keyName := fmt.Sprintf("_vk%d", n)
		var pre []ast.Stmt
		keyIdent := ast.NewIdent(keyName)
		isBlank := func(e ast.Expr) bool {
			id, ok := e.(*ast.Ident)
			return e == nil || (ok && id.Name == "_")
		}
		if rs.Tok == token.DEFINE {
			if !isBlank(rs.Key) {
				keyIdent = rs.Key.(*ast.Ident)
			}
			if !isBlank(rs.Value) {
				pre = append(pre, &ast.AssignStmt{Lhs: []ast.Expr{rs.Value}, Tok: token.DEFINE,
					Rhs: []ast.Expr{&ast.IndexExpr{X: rs.X, Index: ast.NewIdent(keyIdent.Name)}}})
				// silence "declared and not used" exactly as range does
				pre = append(pre, &ast.AssignStmt{Lhs: []ast.Expr{ast.NewIdent("_")}, Tok: token.ASSIGN, Rhs: []ast.Expr{rs.Value}})
			}
			if !isBlank(rs.Key) {
				pre = append(pre, &ast.AssignStmt{Lhs: []ast.Expr{ast.NewIdent("_")}, Tok: token.ASSIGN, Rhs: []ast.Expr{ast.NewIdent(keyIdent.Name)}})
			}
		} else if rs.Tok == token.ASSIGN {
			if !isBlank(rs.Key) {
				pre = append(pre, &ast.AssignStmt{Lhs: []ast.Expr{rs.Key}, Tok: token.ASSIGN, Rhs: []ast.Expr{ast.NewIdent(keyName)}})
			}
			if !isBlank(rs.Value) {
				pre = append(pre, &ast.AssignStmt{Lhs: []ast.Expr{rs.Value}, Tok: token.ASSIGN,
					Rhs: []ast.Expr{&ast.IndexExpr{X: rs.X, Index: ast.NewIdent(keyName)}}})
			}
		}
		call := &ast.CallExpr{
			Fun:  &ast.SelectorExpr{X: ast.NewIdent("vmap"), Sel: ast.NewIdent("Keys")},
			Args: []ast.Expr{rs.X, &ast.BasicLit{Kind: token.STRING, Value: strconv.Quote(st)}},
		}
		rs.Body.List = append(pre, rs.Body.List...)
		rs.Key = ast.NewIdent("_")
		rs.Value = keyIdent
		rs.Tok = token.DEFINE
		rs.X = call
		rep.MapRangeSites = append(rep.MapRangeSites, st)
		changed = true
		return true
	}, nil)
	if changed {
		astutil.AddNamedImport(pkg.Fset, f, "vmap", vmapPath)
	}
	return changed
}

func rewriteSync(pkg *packages.Package, f *ast.File, name, repo string, rep *report) bool {
	changed := false
	for _, imp := range f.Imports {
		p, _ := strconv.Unquote(imp.Path.Value)
		switch p {
		case "sync":
			imp.Path.Value = strconv.Quote(vsyncPath)
			if imp.Name == nil {
				imp.Name = ast.NewIdent("sync")
			}
			changed = true
			rep.SyncImports = append(rep.SyncImports, p+" in "+name)
		case "go.uber.org/atomic":
			imp.Path.Value = strconv.Quote(uatomPath)
			if imp.Name == nil {
				imp.Name = ast.NewIdent("atomic")
			}
			changed = true
			rep.SyncImports = append(rep.SyncImports, p+" in "+name)
		case "sync/atomic":
			rep.Leftover = append(rep.Leftover, "sync/atomic import at "+site(pkg.Fset, imp.Pos(), repo))
		}
	}
	goRewritten := false
	astutil.Apply(f, func(c *astutil.Cursor) bool {
		gs, ok := c.Node().(*ast.GoStmt)
		if !ok {
			return true
		}
		st := site(pkg.Fset, gs.Pos(), repo)
		// go f(a, b)  ->  { _a0, _a1 := a, b; vsched.Go(func() { f(_a0, _a1) }) }
		var lhs, rhs []ast.Expr
		call := *gs.Call
		args := make([]ast.Expr, len(call.Args))
		for i, a := range call.Args {
			id := ast.NewIdent(fmt.Sprintf("_ga%d", i))
			lhs = append(lhs, id)
			rhs = append(rhs, a)
			args[i] = ast.NewIdent(id.Name)
		}
		call.Args = args
		fn := &ast.FuncLit{Type: &ast.FuncType{Params: &ast.FieldList{}}, Body: &ast.BlockStmt{List: []ast.Stmt{&ast.ExprStmt{X: &call}}}}
		spawn := &ast.ExprStmt{X: &ast.CallExpr{Fun: &ast.SelectorExpr{X: ast.NewIdent("vsched"), Sel: ast.NewIdent("Go")}, Args: []ast.Expr{fn}}}
		blk := &ast.BlockStmt{}
		if len(lhs) > 0 {
			blk.List = append(blk.List, &ast.AssignStmt{Lhs: lhs, Tok: token.DEFINE, Rhs: rhs})
		}
		blk.List = append(blk.List, spawn)
		c.Replace(blk)
		rep.GoStmtSites = append(rep.GoStmtSites, st)
		goRewritten = true
		changed = true
		return false
	}, nil)
	if goRewritten {
		astutil.AddNamedImport(pkg.Fset, f, "vsched", vschedPath)
	}
	return changed
}
