#!/bin/sh
# seedkeep.sh <seeddir> <X> <property> <detected:yes|no> "<note>": files a confirmed seeded change under /verif/seeded/<property>-<X>/
sd="$1"; x="$2"; id="$3"; det="$4"; note="$5"
d="/verif/seeded/$id-$x"
mkdir -p "$d"
cp "$sd/patch$x.diff" "$d/patch.diff"
cp "$sd/demo${x}_test.go" "$d/demo_test.go"
python3 - "$sd/meta$x.json" "$d/meta.json" "$id" "$det" "$note" "$sd/verify$x.log" <<'PY'
import json,sys
src,dst,pid,det,note,vlog=sys.argv[1:7]
m=json.load(open(src))
try: v=[l.strip() for l in open(vlog) if 'exit=' in l or 'SEED-' in l]
except Exception: v=[]
out={"property":pid,"summary":m.get("summary"),"needs":m.get("needs"),"files":m.get("files"),
 "demo_pkg_dir":m.get("demo_pkg_dir"),"demo_cmd":m.get("demo_cmd"),
 "author_tests_run":m.get("tests_run"),
 "confirmed_by_me":"tools/seedverify.sh in a scratch worktree: demo passes on the clean tree, patch applies and builds, demo fails with the patch, the unedited suite (go test ./...) passes with the patch",
 "verify_log":v,
 "detected_by_check":det,"detection_note":note,
 "how_to_run":"tools/seedrun.sh %s /verif/seeded/%s/patch.diff"%(pid, dst.split('/')[-2])}
json.dump(out,open(dst,"w"),indent=1)
PY
echo kept "$d"
