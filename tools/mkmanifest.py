#!/usr/bin/env python3
"""Regenerates /verif/MANIFEST.json from the table below (kept valid at all times)."""
import json, os, sys
ROOT = os.path.dirname(os.path.dirname(os.path.abspath(__file__)))

BASELINE = ("cd /repo && GOFLAGS=-mod=mod go test -json -vet=off -count=1 -timeout 25m ./...")

# id -> (category, technique, level text, level_note, design_ref, engine)
CHECKS = {
 "C03": ("exploration",
         "bounded-exhaustive enumeration of byte strings and of all single/pair mutants of valid encodings, each run through every decoder path of the real code in isolated worker processes",
         "Every byte string up to a length bound over the full byte alphabet and over a 16-symbol protocol alphabet, plus every single-deviation (thorough: pair) mutant of a set of valid encodings, x 13 requested types x reader kinds x read segmentations, checked for totality (panic/hang/OOM attributed per input by the supervisor), canonical re-encoding and skip length.",
         "Oracle is exactly the property (no stronger accept/reject demand). Inputs longer than ~80 bytes and stack exhaustion are out of the bound.",
         "DESIGN.md §3 C03", "E1"),
 "C12": ("exploration",
         "bounded-exhaustive enumeration of envelope/request messages x all read segmentations (<=2 cuts) x both request APIs, judged by an independent envelope codec and an echo rule",
         "All (name,type 0..127,seqid,body,framing,expected type) combinations over stated alphabets and every byte string <=5/6 over a 12-symbol alphabet are run through DecodeRequest and through ReadRequest under every enumerated segmentation of the reader (seekable and not); round trips compared byte-exactly with ref/tbin.",
         "Names limited to 5 (6) representatives up to 64 KiB; bodies to 3 shapes; empty name is outside the domain and only noted.",
         "DESIGN.md §3 C12", "E1+E4"),
 "C13": ("fault_enumeration",
         "exhaustive enumeration of length-field faults (every 4-byte window x 4 magnitudes) on a bounded family of short messages, across all decoding APIs, in memory-limited worker processes with crash attribution",
         "Every (message, offset, magnitude, API) combination of the stated finite family is executed on the real decoders; allocation (TotalAlloc delta) and reader-call counts are measured per call and compared with K + c*N.",
         "K=12 MiB, c=64; time linearity only via call counts; generated decoders are plugin/api until the cell universe extension.",
         "DESIGN.md §3 C13", "E1"),
 "C09": ("exploration",
         "bounded-exhaustive enumeration of (numeric position x boundary literal x notation x mode) programs and of duplicate/self-reference shapes, each compiled by the real compiler in a worker process; accepted => well-formed oracle",
         "Every combination of ~30 numeric positions with ~100 boundary literals in decimal and hex, strict and non-strict, plus 30 structural shapes, is compiled; on acceptance every compiled number is compared with the source literal and its type range.",
         "Only the accepted=>well-formed direction; literals limited to the boundary alphabet.",
         "DESIGN.md §3 C09", "E1"),
 "C02": ("exploration",
         "bounded-exhaustive enumeration of wire values (explicit odometer, smallest first) judged by an independent spec codec",
         "Every wire value of a stated finite domain (all 11 types, boundary scalars, width<=2, depth<=2 quick / 3 thorough) is pushed through all five codec paths of the real code and compared bit-exactly with ref/tbin. Exhaustive within the bound; a coverage statement, not a sample.",
         "Trusts ref/tbin (300 lines, from the spec, self-checked each run). Values beyond the alphabets/width/depth are not covered.",
         "DESIGN.md §3 C02", "E1+E4"),
}

NOT_BUILT = "check not built yet in this round (design in DESIGN.md §3); will be claimed once its explorer exists"

def main():
    props = [json.loads(l)["id"] for l in open(os.path.join(ROOT, "properties.jsonl"))]
    checks = []
    for pid in props:
        if pid not in CHECKS:
            continue
        cat, tech, text, note, ref, eng = CHECKS[pid]
        checks.append({
            "property_id": pid,
            "quick_cmd": f"./run.sh {pid} quick",
            "thorough_cmd": f"./run.sh {pid} thorough",
            "evidence_file": f"/verif/evidence/{pid}.json",
            "replay_cmd_template": f"./run.sh {pid} quick --replay {{path}}",
            "engine": eng,
            "level_claimed": {"category": cat, "text": text, "design_ref": ref},
            "level_note": note,
            "technique": tech,
        })
    na = [{"property_id": p, "reason": NOT_BUILT} for p in props if p not in CHECKS]
    hooks_file = os.path.join(ROOT, "hooks", "source_commits.txt")
    commits = [l.strip() for l in open(hooks_file)] if os.path.exists(hooks_file) else []
    m = {
        "version": 1,
        "setup_cmd": "./setup.sh",
        "hooks": {
            "guard": "verif",
            "enable": "go build -tags verif -overlay <generated by tools/overlaygen from /repo's working tree> (hook files live in /verif/hooks and are mapped into /repo paths by the overlay only; /repo carries no hook commits)",
            "baseline_off_cmd": BASELINE,
            "source_commits": commits,
            "add_only": True,
        },
        "engines": [
            {"name": "E1 choice explorer", "path": "engine/choice", "serves_properties": props, "kind_free_text": "stateless DFS over choice vectors with deviation bounding, sharded over worker processes"},
            {"name": "worker/supervisor + evidence", "path": "engine/ev", "serves_properties": props, "kind_free_text": "process isolation, crash/hang attribution, known-findings, evidence writer"},
            {"name": "E4 reference models", "path": "ref", "serves_properties": props, "kind_free_text": "independent spec codec and models used as oracles"},
        ],
        "checks": checks,
        "not_applicable": na,
        "notes": "Model checking = bounded exhaustive exploration of executions of the real code; see DESIGN.md.",
    }
    json.dump(m, open(os.path.join(ROOT, "MANIFEST.json"), "w"), indent=1)
    print("MANIFEST.json:", len(checks), "checks,", len(na), "not_applicable")

main()
