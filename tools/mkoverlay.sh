#!/bin/sh
# Writes the static build overlay that adds the verif-tagged hook package(s)
# to /repo's module without touching /repo. Usage: mkoverlay.sh <out.json>
root="$(cd "$(dirname "$0")/.." && pwd)"
out="$1"
{
  echo '{"Replace": {'
  first=1
  for f in $(cd "$root/hooks" && find . -name '*.go' | sort); do
    f="${f#./}"
    [ $first = 1 ] || echo ','
    first=0
    printf '  "/repo/%s": "%s/hooks/%s"' "$f" "$root" "$f"
  done
  echo
  echo '}}'
} > "$out"
