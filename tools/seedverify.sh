#!/bin/sh
# seedverify.sh <worktree> <seeddir> <X>: confirms a seeded mutation in a scratch worktree:
#  clean tree: demo passes; with patch: builds, existing suite passes, demo fails.
export GOFLAGS=-mod=mod GOPROXY=off GOSUMDB=off GOTOOLCHAIN=local
wt="$1"; sd="$2"; x="$3"
cd "$wt" || exit 2
git checkout -q -- . && git clean -fdq
pkgdir=$(python3 -c "import json;print(json.load(open('$sd/meta$x.json'))['demo_pkg_dir'])")
demo="$wt/$pkgdir/zz_seed_demo${x}_test.go"
cp "$sd/demo$x"_test.go "$demo"
run=$(grep -o "TestSeed[A-Za-z0-9_]*" "$sd/demo${x}_test.go" | head -1)
echo "== clean tree: demo must pass"
go test -vet=off -count=1 -run "$run" "./$pkgdir/" > "$sd/verify$x.clean.log" 2>&1; c=$?
echo "clean demo exit=$c"
git apply "$sd/patch$x.diff" || { echo "PATCH DOES NOT APPLY"; exit 2; }
echo "== mutated: build"
go build ./... || { echo "DOES NOT BUILD"; git checkout -q -- .; rm -f "$demo"; exit 2; }
echo "== mutated: demo must fail"
go test -vet=off -count=1 -run "$run" "./$pkgdir/" > "$sd/verify$x.mut.log" 2>&1; m=$?
echo "mutated demo exit=$m"
rm -f "$demo"
echo "== mutated: existing suite"
go test -vet=off -count=1 -timeout 25m ./... > "$sd/verify$x.suite.log" 2>&1; s=$?
echo "suite exit=$s"; grep -v "^ok\|no test files" "$sd/verify$x.suite.log" | head -5
git checkout -q -- . && git clean -fdq
if [ $c = 0 ] && [ $m != 0 ] && [ $s = 0 ]; then echo "SEED-CONFIRMED $sd $x"; else echo "SEED-REJECTED $sd $x (clean=$c mutated=$m suite=$s)"; fi
