#!/usr/bin/env python3
"""mk72.py <runall-log>: prints the DESIGN.md section 7.2 table from the summary lines of tools/runall.sh quick."""
import re, sys
ROWS = {
 "C01": ("exploration", "(type,value) cases on the compiled cells", "every value with ≤2 deviating fields (plus nil-slice variants, large lists / strings, constants, accessors) × 2 serializers × 2 deserializers × 2 field orders, each decode repeated after the previous result was overwritten in place; universe with typedef chains, functions returning nothing, wide unions"),
 "C02": ("exploration", "wire values", "depth ≤2 domain (+ three binaries above 1 MiB, nesting 63..300) × value encoder, stream writer, Decode, ReadValue (also behind a ReaderAt returning the last bytes with EOF), re-encoding of the decoded value twice, short-reading ReaderAt, stream walk under segmentations, one child skipped (plain / seekable / pipe-like reader); binaries in both API flavours"),
 "C03": ("exploration", "(input,type) pairs", "all bytes ≤2, 16-symbol strings ≤5, single mutants (incl. small negative counts) of the small set and of nesting shapes, deep nesting 63..300 × 13 types × reader kinds (incl. EOF-with-data ReaderAt) × chunkings; EvaluateValue vs independent traversal"),
 "C04": ("exploration", "inputs", "reference encodings, single byte mutants, deep unknown fields × value path vs stream path under segmentations (incl. EOF-with-data); serializer pairs incl. nil fields / nil elements, empty results of functions returning nothing"),
 "C05": ("exploration", "evolved encodings", "every single evolution step incl. deep/large foreign shapes, retyped and same-typed duplicates, containers rewritten with another element type, every nesting level ≤2, both paths (stream: whole, 1-byte, seekable, pipe-like), wide unions, decoded values overwritten after judging"),
 "C06": ("exploration", "programs (the systematic ones compiled and generated, the cells also built with `go build`)", "every reference-valid program of C07's enumeration must be accepted; universe + option lattice + layouts (also through the command without --thrift-root) + constant-reference, enum-duplicate, enum-item-as-integer (direct and through constants), same-name-from-k-includes families (must accept & build), every hostile name in every position, collisions, annotations (accepted ⇒ builds)"),
 "C07": ("model_checking", "programs; choice-tree nodes in `states`", "systematic family (≤3 definitions × 7 layouts incl. same-base-name files × shared bare names × root path spellings), struct-default family, named programs with expected constants, non-interference family (a constant referenced under other types: full program vs sub-programs) × every map order (≤1 deviating range execution) × every definition order"),
 "C08": ("exploration", "inputs", "cycles ≤3 over 21 kinds × 2 layouts × 10 entry definitions, name-collision family, annotation family (8 keys × 15 values × 11 sites), token strings ≤4/≤3, bytes ≤2, single-token corpus mutants incl. docstring insertions and the empty string literal"),
 "C09": ("exploration", "programs", "numeric positions × boundary literals × 6 notations × mode (also reaching integers through enum items), field-id sequences ≤3, enum sequences ≤3, self-reference shapes incl. struct literals and cross-file cycles"),
 "C10": ("model_checking", "(program,options) pairs; nodes in `states`; 16 worker processes compared", "every map order (≤1 deviating execution) in compile+gen+plugin over the collision family, C07's valid systematic programs and a struct-default sub-family; cross-process default-order outputs in rotated program order; first generation of a new process (one process per execution); histories into a reused directory; the real command without --thrift-root under owned map orders"),
 "C11": ("exploration", "documents", "70 catalog items: singles × ≤2 layout deviations (9 docstring shapes), ordered pairs × ≤1; poison tokens at every gap; token strings ≤3, bytes ≤2"),
 "C12": ("exploration", "messages", "names (to 64 KiB, and the empty name for classification) × type 0..127 × seqids × bodies × 3 framings × 2 expected types × 2 APIs × plain/seekable/pipe-like readers × chunkings; envelope server + multiplexer with 17 names; request pairs and triples on one server; byte strings ≤5"),
 "C13": ("fault_enumeration", "(message,offset,value) cases", "every 4-byte window × 11 magnitudes (+10 small negatives) × 18 decoding APIs and the generated decoders of the universe (plain and seekable stream, container headers retyped to another element type); TotalAlloc, reader-call and processor-time bounds"),
 "C14": ("exploration", "pairs", "all pairs/triples of ≤96 decoded values per type (every field); wire-level pairs incl. unhashable keys and long shared-prefix binaries"),
 "C15": ("exploration", "(field, value pair, context) cases", "4 annotation sets (bare, valued, renamed, all 24 declaration orders) × requiredness × struct/union/exception × 8 nesting contexts, with and without Zap, differential outputs"),
 "C16": ("model_checking", "scenarios; nodes in `states`", "L2: process runs incl. flooding plugins, feature-list variants and invalid invocations; L1: host scenarios (≤2 preemptions / ≤2 deviations) and plugin.Main request sequences ≤3"),
 "C17": ("fault_enumeration", "cases (+ process level)", "plugin path alphabet (absolute probes inside the sandbox), conflict spellings, conflicts with surrounding files under every merge order, same plugin twice, k-th-of-n failures, faults, layouts incl. prefix siblings; FS snapshot diff"),
 "C18": ("model_checking", "scenarios; nodes in `states`", "pairs / sequences / 2+1 of 22 codec ops (incl. breaking destinations and sources, binaries above 1 MiB, a rejected request), frame client, fan-out (also same-name, widths 1..64), scheduler calibration; ≤2 preemptions; every Pool.Get answer; + free-running -race pass (sampling)"),
 "C19": ("exploration", "functions over the type expressions of the universe", "formatted description vs generated signatures (go/ast), request consistency (incl. other spellings of the package prefix), helper round trips, generated service code builds"),
 "C20": ("exploration", "histories", "every edit script ≤2 over 19 kinds × 4 bases; map orders, the real binary under 6 spellings of -C, dirty working trees on single edits"),
}
print("| id | level | quick: cases / states | what the numbers are | wall |\n|---|---|---|---|---|")
for line in open(sys.argv[1]):
    m = re.match(r"(C\d\d) exit=(\d+) (\d+)s check=\S+ tier=\S+ evaluations=(\d+) distinct_nontrivial=(\d+) states=(\d+)", line)
    if not m:
        continue
    cid, rc, secs, ev, nt, st = m.groups()
    level, unit, what = ROWS[cid]
    n = f"{int(ev):,}".replace(",", " ")
    cases = f"{n} {unit}"
    if int(st) > 0:
        cases += f", {int(st)/1e6:.1f} M nodes" if int(st) > 1e6 else f", {int(st):,} nodes".replace(",", " ")
    print(f"| {cid} | {level} | {cases} | {what} | {secs} s |")
