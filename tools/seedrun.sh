#!/bin/sh
# seedrun.sh <id> <patch> [tier]: applies a seeded patch to /repo, runs the check, reverts. Never commits.
id="$1"; patch="$2"; tier="${3:-quick}"
cd /repo && git status --short | grep -q . && { echo "/repo not clean"; exit 2; }
git -C /repo apply "$patch" || exit 2
cd /verif && VERIF_ROOT=/verif ./run.sh "$id" "$tier" > "/tmp/seedrun-$id.log" 2>&1; rc=$?
git -C /repo checkout -- . ; git -C /repo clean -fdq
echo "exit=$rc"; grep -c "^VIOLATION" "/tmp/seedrun-$id.log"; grep "^VIOLATION" "/tmp/seedrun-$id.log" | cut -c1-260 | head -4; tail -1 "/tmp/seedrun-$id.log" | cut -c1-200
# the evidence file was rewritten by the mutated run: restore the committed one
git -C /verif checkout -- "evidence/$id.json" 2>/dev/null
rm -rf "/verif/replays/$id"
