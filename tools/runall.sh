#!/bin/sh
# runall.sh <quick|thorough>: runs every registered check in turn and prints its summary line.
cd "$(dirname "$0")/.." || exit 2
tier="${1:-quick}"; mkdir -p bin
for id in $(python3 -c "import json;print(' '.join(c['property_id'] for c in json.load(open('MANIFEST.json'))['checks']))"); do
  start=$(date +%s)
  ./run.sh "$id" "$tier" > "bin/last-$id.log" 2>&1; rc=$?
  end=$(date +%s)
  echo "$id exit=$rc $((end-start))s $(grep '^check=' bin/last-$id.log | cut -c1-170)"
  grep "^VIOLATION\|HARNESS-ERROR" "bin/last-$id.log" | cut -c1-200 | head -3
done
