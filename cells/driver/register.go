package driver

import (
	"verif/checks/c01"
	"verif/checks/c04"
	"verif/checks/c05"
	"verif/checks/c13"
	"verif/checks/c14"
	"verif/checks/c15"
	"verif/checks/c19"
)

func init() {
	Checks["C01"] = c01.Check
	Checks["C04"] = c04.Check
	Checks["C05"] = c05.Check
	Checks["C13"] = c13.Check
	Checks["C14"] = c14.Check
	Checks["C15"] = c15.Check
	Checks["C19"] = c19.Check
}
