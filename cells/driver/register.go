package driver

import "verif/checks/c01"

func init() {
	Checks["C01"] = c01.Check
}
