// Package driver is the entry point of the cell driver binary: it serves the
// worker side of every check that runs on the generated cell universe.
package driver

import (
	"verif/engine/ev"
)

// Checks is filled by the check packages' registration (see register.go).
var Checks = map[string]*ev.Check{}

// Main runs the worker protocol.
func Main() { ev.Main(Checks) }
