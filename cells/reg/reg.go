// Package reg is the reflection registry through which the generic drivers
// reach the generated Go types of the cell universe. The generated main
// package of the scratch module fills it in.
package reg

import "reflect"

// Entry is one generated struct-like type.
type Entry struct {
	Pkg  string
	Name string
	Type reflect.Type // the struct type (not pointer)
}

// Types lists registered types in registration order.
var Types []Entry

// Extra holds other registered values (constants, default constructors, helpers) by name.
var Extra = map[string]interface{}{}

// Add registers a type.
func Add(pkg, name string, t reflect.Type) { Types = append(Types, Entry{pkg, name, t}) }

// Find returns the entry for pkg.name.
func Find(pkg, name string) (Entry, bool) {
	for _, e := range Types {
		if e.Pkg == pkg && e.Name == name {
			return e, true
		}
	}
	return Entry{}, false
}
