package cells

import (
	"bytes"
	"encoding/json"
	"fmt"
	"os"
	"os/exec"
	"path/filepath"
	"regexp"
	"sort"
	"strings"

	"go.uber.org/thriftrw/compile"
	"go.uber.org/thriftrw/gen"
	"verif/engine/ev"
	"verif/ref/schema"
)

// BuildReport is what the build of the universe produced.
type BuildReport struct {
	Slim          bool              `json:"slim"`
	Files         int               `json:"files"`
	Cells         int               `json:"cells"`
	GenerateError map[string]string `json:"generate_errors"` // file -> error (valid program rejected)
	CompileError  map[string]string `json:"compile_errors"`  // package -> first compiler message (generated Go does not build)
	Lines         int               `json:"generated_lines"`
}

// Options of a universe build.
type Options struct {
	Slim bool
	// GenOptions mutates the generator options for one file (option-set
	// variants, in-process plugins).
	GenOptions func(file string, o *gen.Options)
	// Recurse lists root files that are additionally generated with recursion
	// into a separate tree (gen_recurse/) — used by checks that look at the
	// plugin request of a recursive generation; nothing is compiled from it.
	Recurse []string
	// ExtraFiles adds IDL files beyond the universe (check-specific cells):
	// path -> contents; they are generated like the cell files.
	Extra *schema.Program
	// MainImport is the import path of the package whose Main() the driver calls.
	Tag string
}

var optionFile = regexp.MustCompile(`^e\d+\.thrift$`)

// Prepare renders the universe, runs the real generator from /repo's tree on
// it, builds the driver binary in a scratch module and points the supervisor
// at it. It returns the build report (also stored in args as JSON).
func Prepare(s *ev.S, opt Options) (*BuildReport, error) {
	p, cells := Universe(opt.Slim)
	if opt.Extra != nil {
		p.Files = append(p.Files, opt.Extra.Files...)
	}
	rep := &BuildReport{Slim: opt.Slim, Files: len(p.Files), Cells: len(cells), GenerateError: map[string]string{}, CompileError: map[string]string{}}
	root := filepath.Join(s.WorkDir, "cells")
	thrift := filepath.Join(root, "thrift")
	mod := filepath.Join(root, "mod")
	os.MkdirAll(thrift, 0o755)
	os.MkdirAll(filepath.Join(mod, "gen"), 0o755)
	for path, text := range p.Render() {
		full := filepath.Join(thrift, path)
		os.MkdirAll(filepath.Dir(full), 0o755)
		if err := os.WriteFile(full, []byte(text), 0o644); err != nil {
			return nil, err
		}
	}
	var pkgs []string
	for _, f := range p.Files {
		path := filepath.Join(thrift, f.Path)
		func() {
			defer func() {
				if r := recover(); r != nil {
					rep.GenerateError[f.Path] = fmt.Sprintf("panic: %v", r)
				}
			}()
			m, err := compile.Compile(path)
			if err != nil {
				rep.GenerateError[f.Path] = "compile: " + err.Error()
				return
			}
			o := &gen.Options{OutputDir: filepath.Join(mod, "gen"), PackagePrefix: "cellsmod/gen", ThriftRoot: thrift, NoRecurse: true, NoVersionCheck: true}
			if optionFile.MatchString(f.Path) {
				o.EnumTextMarshalStrict = true // the e<k>.thrift copies of the universe
			}
			if opt.GenOptions != nil {
				opt.GenOptions(f.Path, o)
			}
			if err := gen.Generate(m, o); err != nil {
				rep.GenerateError[f.Path] = "generate: " + err.Error()
				return
			}
			pkgs = append(pkgs, strings.TrimSuffix(f.Path, ".thrift"))
		}()
	}
	for _, rf := range opt.Recurse {
		func() {
			defer func() { recover() }()
			m, err := compile.Compile(filepath.Join(thrift, rf))
			if err != nil {
				return
			}
			o := &gen.Options{OutputDir: filepath.Join(root, "gen_recurse"), PackagePrefix: "cellsmod/gen", ThriftRoot: thrift, NoVersionCheck: true}
			if opt.GenOptions != nil {
				opt.GenOptions("recurse:"+rf, o)
			}
			if err := gen.Generate(m, o); err != nil {
				rep.GenerateError["recurse:"+rf] = err.Error()
			}
		}()
	}
	gomod := fmt.Sprintf("module cellsmod\n\ngo 1.22.1\n\nrequire (\n\tgo.uber.org/thriftrw v0.0.0\n\tverif v0.0.0\n)\n\nreplace go.uber.org/thriftrw => /repo\n\nreplace verif => %s\n", s.Verif)
	if err := os.WriteFile(filepath.Join(mod, "go.mod"), []byte(gomod), 0o644); err != nil {
		return nil, err
	}
	if b, err := os.ReadFile(filepath.Join(s.Verif, "go.sum")); err == nil {
		os.WriteFile(filepath.Join(mod, "go.sum"), b, 0o644)
	}
	overlay := filepath.Join(s.Verif, "bin", "overlay-"+s.ID+".json")
	goRun := func(args ...string) ([]byte, error) {
		cmd := exec.Command("go", args...)
		cmd.Dir = mod
		cmd.Env = append(os.Environ(), "GOFLAGS=-mod=mod", "GOPROXY=off", "GOSUMDB=off", "GOTOOLCHAIN=local")
		var out bytes.Buffer
		cmd.Stdout, cmd.Stderr = &out, &out
		err := cmd.Run()
		return out.Bytes(), err
	}
	// 1. build the generated packages; map compiler errors back to packages
	out, err := goRun("build", "-tags", "verif", "-overlay", overlay, "./gen/...")
	if err != nil {
		re := regexp.MustCompile(`(?m)^# cellsmod/gen/(\S+)\n((?:.*\n)*?)(?:#|\z)`)
		text := string(out) + "\n"
		for _, m := range regexp.MustCompile(`(?m)^# cellsmod/gen/(\S+)$`).FindAllStringSubmatchIndex(text, -1) {
			pkg := text[m[2]:m[3]]
			rest := text[m[1]:]
			if i := strings.Index(rest[1:], "\n# "); i >= 0 {
				rest = rest[:i+1]
			}
			lines := strings.Split(strings.TrimSpace(rest), "\n")
			if len(lines) > 3 {
				lines = lines[:3]
			}
			rep.CompileError[pkg] = strings.Join(lines, " | ")
		}
		_ = re
		if len(rep.CompileError) == 0 {
			return nil, fmt.Errorf("building generated cells failed: %s", out)
		}
	}
	// a package that imports a broken package is unusable too (transitively)
	for changed := true; changed && len(rep.CompileError) > 0; {
		changed = false
		for _, pk := range pkgs {
			if _, bad := rep.CompileError[pk]; bad {
				continue
			}
			files, _ := filepath.Glob(filepath.Join(mod, "gen", pk, "*.go"))
			for _, gf := range files {
				src, _ := os.ReadFile(gf)
				for broken := range rep.CompileError {
					if bytes.Contains(src, []byte("\"cellsmod/gen/"+broken+"\"")) {
						rep.CompileError[pk] = "imports " + broken + ", which does not compile"
						changed = true
					}
				}
			}
		}
	}
	if _, broken := rep.CompileError["base"]; broken {
		return nil, fmt.Errorf("the base cell does not build: %s", rep.CompileError["base"])
	}
	// 2. registry main
	var sb strings.Builder
	sb.WriteString("// Code generated by verif/cells. DO NOT EDIT.\npackage main\n\nimport (\n\t\"reflect\"\n\n\t\"verif/cells/driver\"\n\t\"verif/cells/reg\"\n")
	sort.Strings(pkgs)
	ok := map[string]bool{}
	for _, pk := range pkgs {
		if _, bad := rep.CompileError[pk]; bad {
			continue
		}
		ok[pk] = true
		fmt.Fprintf(&sb, "\t%s \"cellsmod/gen/%s\"\n", alias(pk), pk)
	}
	sb.WriteString(")\n\nfunc init() {\n")
	for _, f := range p.Files {
		pk := strings.TrimSuffix(f.Path, ".thrift")
		if !ok[pk] {
			continue
		}
		used := false
		for _, d := range f.Defs {
			if d.Synthetic {
				continue // registered through its service below
			}
			switch d.Kind {
			case "struct", "union", "exception":
				fmt.Fprintf(&sb, "\treg.Add(%q, %q, reflect.TypeOf(%s.%s{}))\n", pk, d.Name, alias(pk), d.GoIdent())
				used = true
			case "const":
				fmt.Fprintf(&sb, "\treg.Extra[%q] = %s.%s\n", pk+"."+d.Name, alias(pk), d.Name)
				used = true
			case "service":
				for _, fn := range d.Funcs {
					fmt.Fprintf(&sb, "\treg.Extra[%q] = %s.%s_%s_Helper\n", pk+"."+d.Name+"_"+fn.Name+"_Helper", alias(pk), d.Name, fn.Name)
					for _, suffix := range []string{"Args", "Result"} {
						if fn.OneWay && suffix == "Result" {
							continue
						}
						fmt.Fprintf(&sb, "\treg.Add(%q, %q, reflect.TypeOf(%s.%s_%s_%s{}))\n", pk, d.Name+"_"+fn.Name+"_"+suffix, alias(pk), d.Name, fn.Name, suffix)
					}
					used = true
				}
			}
		}
		if !used {
			fmt.Fprintf(&sb, "\t_ = %s.ThriftModule\n", alias(pk))
		}
	}
	sb.WriteString("}\n\nfunc main() { driver.Main() }\n")
	os.MkdirAll(filepath.Join(mod, "cmd", "driver"), 0o755)
	if err := os.WriteFile(filepath.Join(mod, "cmd", "driver", "main.go"), []byte(sb.String()), 0o644); err != nil {
		return nil, err
	}
	bin := filepath.Join(root, "driver")
	if out, err := goRun("build", "-tags", "verif", "-overlay", overlay, "-o", bin, "./cmd/driver"); err != nil {
		return nil, fmt.Errorf("building the cell driver failed: %s", out)
	}
	// count generated lines
	filepath.Walk(filepath.Join(mod, "gen"), func(path string, info os.FileInfo, err error) error {
		if err == nil && !info.IsDir() && strings.HasSuffix(path, ".go") {
			if b, e := os.ReadFile(path); e == nil {
				rep.Lines += bytes.Count(b, []byte("\n"))
			}
		}
		return nil
	})
	s.Binary = bin
	rb, _ := json.Marshal(rep)
	s.Args["cells_report"] = string(rb)
	s.Args["cells_root"] = root
	if opt.Slim {
		s.Args["cells_slim"] = "1"
	} else {
		s.Args["cells_slim"] = "0"
	}
	for pk, e := range rep.CompileError {
		s.Notes = append(s.Notes, fmt.Sprintf("SKIPPED-CELL %s (does not compile; see C06): %.200s", pk, e))
	}
	for f, e := range rep.GenerateError {
		s.Notes = append(s.Notes, fmt.Sprintf("SKIPPED-CELL %s (rejected by the generator; see C06): %.200s", f, e))
	}
	return rep, nil
}

func alias(pkg string) string { return "p_" + strings.NewReplacer("/", "_", "-", "_").Replace(pkg) }
