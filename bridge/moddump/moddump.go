// Package moddump renders a compiled thriftrw module graph canonically, in
// the same textual form ref/resolve produces, using only exported API.
package moddump

import (
	"fmt"
	"sort"
	"strings"

	"go.uber.org/thriftrw/compile"
)

func kindOf(t compile.TypeSpec) string {
	switch s := t.(type) {
	case *compile.TypedefSpec:
		return "typedef"
	case *compile.EnumSpec:
		return "enum"
	case *compile.StructSpec:
		_ = s
		return "struct"
	}
	return ""
}

// identity, when set (during Dump), is told every named type a rendering refers to.
var identity func(t compile.TypeSpec)

// TypeRepr renders a linked type.
func TypeRepr(t compile.TypeSpec) string {
	if t == nil {
		return "<nil>"
	}
	if identity != nil {
		identity(t)
	}
	switch s := t.(type) {
	case *compile.ListSpec:
		return "list<" + TypeRepr(s.ValueSpec) + ">"
	case *compile.SetSpec:
		return "set<" + TypeRepr(s.ValueSpec) + ">"
	case *compile.MapSpec:
		return "map<" + TypeRepr(s.KeySpec) + "," + TypeRepr(s.ValueSpec) + ">"
	case *compile.TypedefSpec, *compile.EnumSpec, *compile.StructSpec:
		return fmt.Sprintf("%s:%s(%s)", t.ThriftFile(), t.ThriftName(), kindOf(t))
	case *compile.BoolSpec, *compile.I8Spec, *compile.I16Spec, *compile.I32Spec, *compile.I64Spec, *compile.DoubleSpec, *compile.StringSpec, *compile.BinarySpec:
		return t.ThriftName()
	}
	return fmt.Sprintf("UNLINKED<%T %s>", t, t.ThriftName())
}

// ValRepr renders a linked constant value by its evaluated content.
func ValRepr(v compile.ConstantValue, depth int) string {
	if v == nil {
		return "<nil>"
	}
	if depth > 16 {
		return "CYCLE"
	}
	switch c := v.(type) {
	case compile.ConstantInt:
		return fmt.Sprintf("int:%d", int64(c))
	case compile.ConstantString:
		return "str:" + string(c)
	case compile.ConstantBool:
		return fmt.Sprintf("bool:%v", bool(c))
	case compile.ConstantDouble:
		return fmt.Sprintf("double:%v", float64(c))
	case compile.ConstReference:
		return ValRepr(c.Target.Value, depth+1)
	case compile.EnumItemReference:
		if identity != nil {
			identity(c.Enum)
		}
		return fmt.Sprintf("item:%s:%s.%s=%d", c.Enum.File, c.Enum.Name, c.Item.Name, c.Item.Value)
	case *compile.ConstantStruct:
		var names []string
		for n := range c.Fields {
			names = append(names, n)
		}
		sort.Strings(names)
		var xs []string
		for _, n := range names {
			xs = append(xs, n+"="+ValRepr(c.Fields[n], depth+1))
		}
		return "struct{" + strings.Join(xs, ";") + "}"
	case compile.ConstantMap:
		var xs []string
		for _, kv := range c {
			xs = append(xs, ValRepr(kv.Key, depth+1)+":"+ValRepr(kv.Value, depth+1))
		}
		return "map{" + strings.Join(xs, ",") + "}"
	case compile.ConstantSet:
		var xs []string
		for _, x := range c {
			xs = append(xs, ValRepr(x, depth+1))
		}
		return "set[" + strings.Join(xs, ",") + "]"
	case compile.ConstantList:
		var xs []string
		for _, x := range c {
			xs = append(xs, ValRepr(x, depth+1))
		}
		return "[" + strings.Join(xs, ",") + "]"
	}
	return fmt.Sprintf("UNLINKED<%T>", v)
}

// Dump renders the module graph reachable from m.
func Dump(m *compile.Module) string {
	var lines []string
	seen := map[string]*compile.Module{}
	// every named type / parent service a rendering refers to must be the very
	// object its own module holds (a file compiled twice yields look-alike copies)
	var refs []compile.TypeSpec
	var parents []*compile.ServiceSpec
	identity = func(t compile.TypeSpec) {
		switch t.(type) {
		case *compile.TypedefSpec, *compile.EnumSpec, *compile.StructSpec:
			refs = append(refs, t)
		}
	}
	defer func() { identity = nil }()
	var walk func(m *compile.Module)
	walk = func(m *compile.Module) {
		if prev, ok := seen[m.ThriftPath]; ok {
			if prev != m {
				lines = append(lines, "DUPLICATE-MODULE "+m.ThriftPath+" (one file compiled twice)")
			}
			return
		}
		seen[m.ThriftPath] = m
		var in []string
		for name, inc := range m.Includes {
			in = append(in, fmt.Sprintf("%s=%s", name, inc.Module.ThriftPath))
		}
		sort.Strings(in)
		lines = append(lines, fmt.Sprintf("module %s includes[%s]", m.ThriftPath, strings.Join(in, ",")))
		for name, t := range m.Types {
			head := fmt.Sprintf("%s:%s", m.ThriftPath, name)
			switch s := t.(type) {
			case *compile.TypedefSpec:
				lines = append(lines, fmt.Sprintf("type %s typedef target=%s root=%s", head, TypeRepr(s.Target), TypeRepr(compile.RootTypeSpec(s))))
			case *compile.EnumSpec:
				var it []string
				for _, i := range s.Items {
					it = append(it, fmt.Sprintf("%s=%d", i.Name, i.Value))
				}
				lines = append(lines, fmt.Sprintf("type %s enum items[%s]", head, strings.Join(it, ",")))
			case *compile.StructSpec:
				var fs []string
				for _, f := range s.Fields {
					fs = append(fs, fmt.Sprintf("%d %s %s required=%v default=%s", f.ID, f.Name, TypeRepr(f.Type), f.Required, ValRepr(f.Default, 0)))
				}
				lines = append(lines, fmt.Sprintf("type %s struct fields[%s]", head, strings.Join(fs, ";")))
			default:
				lines = append(lines, fmt.Sprintf("type %s %T", head, t))
			}
		}
		for name, c := range m.Constants {
			lines = append(lines, fmt.Sprintf("const %s:%s type=%s value=%s", m.ThriftPath, name, TypeRepr(c.Type), ValRepr(c.Value, 0)))
		}
		for name, s := range m.Services {
			par := "<nil>"
			if s.Parent != nil {
				par = s.Parent.File + ":" + s.Parent.Name
				parents = append(parents, s.Parent)
			}
			var fns []string
			for fname, fn := range s.Functions {
				var as []string
				for _, a := range fn.ArgsSpec {
					as = append(as, fmt.Sprintf("%d %s %s", a.ID, a.Name, TypeRepr(a.Type)))
				}
				ret := "void"
				if fn.ResultSpec != nil && fn.ResultSpec.ReturnType != nil {
					ret = TypeRepr(fn.ResultSpec.ReturnType)
				}
				fns = append(fns, fmt.Sprintf("%s(args[%s] returns %s)", fname, strings.Join(as, ";"), ret))
			}
			sort.Strings(fns)
			lines = append(lines, fmt.Sprintf("service %s:%s parent=%s %s", m.ThriftPath, name, par, strings.Join(fns, " ")))
		}
		for _, inc := range m.Includes {
			walk(inc.Module)
		}
	}
	walk(m)
	flagged := map[string]bool{}
	for _, t := range refs {
		key := t.ThriftFile() + ":" + t.ThriftName()
		if flagged[key] {
			continue
		}
		mod := seen[t.ThriftFile()]
		if mod == nil {
			flagged[key] = true
			lines = append(lines, "FOREIGN-TYPE "+key+" (its file is not among the compiled modules)")
		} else if own, ok := mod.Types[t.ThriftName()]; !ok || own != t {
			flagged[key] = true
			lines = append(lines, "COPIED-TYPE "+key+" (the reference does not point at the definition its module holds)")
		}
	}
	for _, ps := range parents {
		key := ps.File + ":" + ps.Name
		if flagged["svc "+key] {
			continue
		}
		mod := seen[ps.File]
		if mod == nil || mod.Services[ps.Name] != ps {
			flagged["svc "+key] = true
			lines = append(lines, "COPIED-SERVICE "+key+" (the parent reference does not point at the service its module holds)")
		}
	}
	sort.Strings(lines)
	return strings.Join(lines, "\n")
}
