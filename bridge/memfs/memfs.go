// Package memfs is an in-memory compile.FS for harness-generated programs.
package memfs

import (
	"fmt"
	"path/filepath"
)

// FS maps absolute cleaned paths to contents.
type FS map[string]string

// Read implements compile.FS.
func (f FS) Read(name string) ([]byte, error) {
	s, ok := f[filepath.Clean(name)]
	if !ok {
		return nil, fmt.Errorf("memfs: %s: no such file", name)
	}
	return []byte(s), nil
}

// Abs implements compile.FS (rooted at /m).
func (f FS) Abs(p string) (string, error) {
	if filepath.IsAbs(p) {
		return filepath.Clean(p), nil
	}
	return filepath.Join("/m", p), nil
}
