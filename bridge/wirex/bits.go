package wirex

import "math"

func float64bits(f float64) uint64     { return math.Float64bits(f) }
func float64frombits(b uint64) float64 { return math.Float64frombits(b) }
