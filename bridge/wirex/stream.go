package wirex

import (
	"fmt"

	"go.uber.org/thriftrw/protocol/stream"
	"go.uber.org/thriftrw/wire"
	"verif/ref/tbin"
)

// StreamWrite emits v as the corresponding sequence of stream.Writer calls
// (the harness's own recursive walk).
func StreamWrite(sw stream.Writer, v tbin.Value) error {
	switch v.T {
	case tbin.Bool:
		return sw.WriteBool(v.I != 0)
	case tbin.I8:
		return sw.WriteInt8(int8(v.I))
	case tbin.I16:
		return sw.WriteInt16(int16(v.I))
	case tbin.I32:
		return sw.WriteInt32(int32(v.I))
	case tbin.I64:
		return sw.WriteInt64(v.I)
	case tbin.Double:
		return sw.WriteDouble(float64frombits(v.D))
	case tbin.Binary:
		if BinaryAsString {
			return sw.WriteString(string(v.B))
		}
		return sw.WriteBinary(v.B)
	case tbin.Struct:
		if err := sw.WriteStructBegin(); err != nil {
			return err
		}
		for _, f := range v.Fields {
			if err := sw.WriteFieldBegin(stream.FieldHeader{ID: f.ID, Type: wire.Type(f.V.T)}); err != nil {
				return err
			}
			if err := StreamWrite(sw, f.V); err != nil {
				return err
			}
			if err := sw.WriteFieldEnd(); err != nil {
				return err
			}
		}
		return sw.WriteStructEnd()
	case tbin.Map:
		if err := sw.WriteMapBegin(stream.MapHeader{KeyType: wire.Type(v.KT), ValueType: wire.Type(v.VT), Length: len(v.Items) / 2}); err != nil {
			return err
		}
		for _, it := range v.Items {
			if err := StreamWrite(sw, it); err != nil {
				return err
			}
		}
		return sw.WriteMapEnd()
	case tbin.Set:
		if err := sw.WriteSetBegin(stream.SetHeader{Type: wire.Type(v.VT), Length: len(v.Items)}); err != nil {
			return err
		}
		for _, it := range v.Items {
			if err := StreamWrite(sw, it); err != nil {
				return err
			}
		}
		return sw.WriteSetEnd()
	case tbin.List:
		if err := sw.WriteListBegin(stream.ListHeader{Type: wire.Type(v.VT), Length: len(v.Items)}); err != nil {
			return err
		}
		for _, it := range v.Items {
			if err := StreamWrite(sw, it); err != nil {
				return err
			}
		}
		return sw.WriteListEnd()
	}
	return fmt.Errorf("wirex: bad type %d", v.T)
}

// MaxStreamItems bounds schema-less stream walks of containers whose declared
// count is not backed by input (the walk fails at the first missing element
// anyway; this only guards the harness's own slice growth).
const MaxStreamItems = 1 << 30

// StreamRead reads one value of type t with the stream.Reader primitives (a
// schema-less walk written for the harness).
func StreamRead(sr stream.Reader, t tbin.Type) (tbin.Value, error) {
	v := tbin.Value{T: t}
	switch t {
	case tbin.Bool:
		b, err := sr.ReadBool()
		if b {
			v.I = 1
		}
		return v, err
	case tbin.I8:
		x, err := sr.ReadInt8()
		v.I = int64(x)
		return v, err
	case tbin.I16:
		x, err := sr.ReadInt16()
		v.I = int64(x)
		return v, err
	case tbin.I32:
		x, err := sr.ReadInt32()
		v.I = int64(x)
		return v, err
	case tbin.I64:
		x, err := sr.ReadInt64()
		v.I = x
		return v, err
	case tbin.Double:
		x, err := sr.ReadDouble()
		v.D = float64bits(x)
		return v, err
	case tbin.Binary:
		if BinaryAsString {
			str, err := sr.ReadString()
			v.B = []byte(str)
			return v, err
		}
		b, err := sr.ReadBinary()
		if err != nil {
			return v, err
		}
		v.B = append([]byte{}, b...)
		return v, nil
	case tbin.Struct:
		if err := sr.ReadStructBegin(); err != nil {
			return v, err
		}
		for {
			fh, ok, err := sr.ReadFieldBegin()
			if err != nil {
				return v, err
			}
			if !ok {
				break
			}
			fv, err := StreamRead(sr, tbin.Type(fh.Type))
			if err != nil {
				return v, err
			}
			if err := sr.ReadFieldEnd(); err != nil {
				return v, err
			}
			v.Fields = append(v.Fields, tbin.Field{ID: fh.ID, V: fv})
		}
		return v, sr.ReadStructEnd()
	case tbin.Map:
		mh, err := sr.ReadMapBegin()
		if err != nil {
			return v, err
		}
		v.KT, v.VT = tbin.Type(mh.KeyType), tbin.Type(mh.ValueType)
		for i := 0; i < mh.Length; i++ {
			k, err := StreamRead(sr, v.KT)
			if err != nil {
				return v, err
			}
			x, err := StreamRead(sr, v.VT)
			if err != nil {
				return v, err
			}
			v.Items = append(v.Items, k, x)
		}
		return v, sr.ReadMapEnd()
	case tbin.Set:
		sh, err := sr.ReadSetBegin()
		if err != nil {
			return v, err
		}
		v.VT = tbin.Type(sh.Type)
		for i := 0; i < sh.Length; i++ {
			x, err := StreamRead(sr, v.VT)
			if err != nil {
				return v, err
			}
			v.Items = append(v.Items, x)
		}
		return v, sr.ReadSetEnd()
	case tbin.List:
		lh, err := sr.ReadListBegin()
		if err != nil {
			return v, err
		}
		v.VT = tbin.Type(lh.Type)
		for i := 0; i < lh.Length; i++ {
			x, err := StreamRead(sr, v.VT)
			if err != nil {
				return v, err
			}
			v.Items = append(v.Items, x)
		}
		return v, sr.ReadListEnd()
	}
	return v, fmt.Errorf("wirex: unknown type %d", t)
}

// StreamReadSkipping walks a composite value of type t like StreamRead, except
// that the child with index skip (struct field, list/set element, map entry
// value together with its key) is passed over with sr.Skip instead of being
// read. It returns the value without that child.
func StreamReadSkipping(sr stream.Reader, t tbin.Type, skip int) (tbin.Value, error) {
	v := tbin.Value{T: t}
	switch t {
	case tbin.Struct:
		if err := sr.ReadStructBegin(); err != nil {
			return v, err
		}
		for i := 0; ; i++ {
			fh, ok, err := sr.ReadFieldBegin()
			if err != nil {
				return v, err
			}
			if !ok {
				break
			}
			if i == skip {
				if err := sr.Skip(fh.Type); err != nil {
					return v, err
				}
			} else {
				fv, err := StreamRead(sr, tbin.Type(fh.Type))
				if err != nil {
					return v, err
				}
				v.Fields = append(v.Fields, tbin.Field{ID: fh.ID, V: fv})
			}
			if err := sr.ReadFieldEnd(); err != nil {
				return v, err
			}
		}
		return v, sr.ReadStructEnd()
	case tbin.Map:
		mh, err := sr.ReadMapBegin()
		if err != nil {
			return v, err
		}
		v.KT, v.VT = tbin.Type(mh.KeyType), tbin.Type(mh.ValueType)
		for i := 0; i < mh.Length; i++ {
			if i == skip {
				if err := sr.Skip(mh.KeyType); err != nil {
					return v, err
				}
				if err := sr.Skip(mh.ValueType); err != nil {
					return v, err
				}
				continue
			}
			k, err := StreamRead(sr, v.KT)
			if err != nil {
				return v, err
			}
			x, err := StreamRead(sr, v.VT)
			if err != nil {
				return v, err
			}
			v.Items = append(v.Items, k, x)
		}
		return v, sr.ReadMapEnd()
	case tbin.Set, tbin.List:
		var n int
		if t == tbin.Set {
			sh, err := sr.ReadSetBegin()
			if err != nil {
				return v, err
			}
			v.VT, n = tbin.Type(sh.Type), sh.Length
		} else {
			lh, err := sr.ReadListBegin()
			if err != nil {
				return v, err
			}
			v.VT, n = tbin.Type(lh.Type), lh.Length
		}
		for i := 0; i < n; i++ {
			if i == skip {
				if err := sr.Skip(wire.Type(v.VT)); err != nil {
					return v, err
				}
				continue
			}
			x, err := StreamRead(sr, v.VT)
			if err != nil {
				return v, err
			}
			v.Items = append(v.Items, x)
		}
		if t == tbin.Set {
			return v, sr.ReadSetEnd()
		}
		return v, sr.ReadListEnd()
	}
	return v, fmt.Errorf("wirex: %d is not a composite type", t)
}
