// Package wirex converts between the reference value model (ref/tbin) and
// thriftrw's wire.Value using only the product's exported constructors and
// accessors. Materialisation walks lazy containers with the harness's own
// ForEach (never wire.EvaluateValue, which closes the lists it forces).
package wirex

import (
	"fmt"

	"go.uber.org/thriftrw/wire"
	"verif/ref/tbin"
)

// ToWire builds a wire.Value from a reference value.
// BinaryAsString makes every conversion in this package use the string flavour of
// the binary wire type (wire.NewValueString / GetString, WriteString / ReadString)
// instead of the []byte flavour. Thrift strings are length-prefixed bytes: both
// flavours must carry arbitrary bytes unchanged. Not safe for concurrent use.
var BinaryAsString bool

func ToWire(v tbin.Value) wire.Value {
	switch v.T {
	case tbin.Bool:
		return wire.NewValueBool(v.I != 0)
	case tbin.I8:
		return wire.NewValueI8(int8(v.I))
	case tbin.I16:
		return wire.NewValueI16(int16(v.I))
	case tbin.I32:
		return wire.NewValueI32(int32(v.I))
	case tbin.I64:
		return wire.NewValueI64(v.I)
	case tbin.Double:
		return wire.NewValueDouble(float64frombits(v.D))
	case tbin.Binary:
		if BinaryAsString {
			return wire.NewValueString(string(v.B))
		}
		return wire.NewValueBinary(v.B)
	case tbin.Struct:
		fs := make([]wire.Field, len(v.Fields))
		for i, f := range v.Fields {
			fs[i] = wire.Field{ID: f.ID, Value: ToWire(f.V)}
		}
		return wire.NewValueStruct(wire.Struct{Fields: fs})
	case tbin.Map:
		items := make([]wire.MapItem, 0, len(v.Items)/2)
		for i := 0; i+1 < len(v.Items); i += 2 {
			items = append(items, wire.MapItem{Key: ToWire(v.Items[i]), Value: ToWire(v.Items[i+1])})
		}
		return wire.NewValueMap(wire.MapItemListFromSlice(wire.Type(v.KT), wire.Type(v.VT), items))
	case tbin.Set, tbin.List:
		items := make([]wire.Value, len(v.Items))
		for i, it := range v.Items {
			items[i] = ToWire(it)
		}
		l := wire.ValueListFromSlice(wire.Type(v.VT), items)
		if v.T == tbin.Set {
			return wire.NewValueSet(l)
		}
		return wire.NewValueList(l)
	}
	panic(fmt.Sprintf("wirex: bad type %d", v.T))
}

// FromWire materialises a wire.Value (forcing lazy containers with its own
// walk). It returns an error if forcing a lazy container fails.
func FromWire(w wire.Value) (tbin.Value, error) {
	t := tbin.Type(w.Type())
	v := tbin.Value{T: t}
	switch w.Type() {
	case wire.TBool:
		if w.GetBool() {
			v.I = 1
		}
	case wire.TI8:
		v.I = int64(w.GetI8())
	case wire.TI16:
		v.I = int64(w.GetI16())
	case wire.TI32:
		v.I = int64(w.GetI32())
	case wire.TI64:
		v.I = w.GetI64()
	case wire.TDouble:
		v.D = float64bits(w.GetDouble())
	case wire.TBinary:
		if BinaryAsString {
			v.B = []byte(w.GetString())
		} else {
			v.B = append([]byte{}, w.GetBinary()...)
		}
	case wire.TStruct:
		for _, f := range w.GetStruct().Fields {
			fv, err := FromWire(f.Value)
			if err != nil {
				return v, err
			}
			v.Fields = append(v.Fields, tbin.Field{ID: f.ID, V: fv})
		}
	case wire.TMap:
		m := w.GetMap()
		v.KT, v.VT = tbin.Type(m.KeyType()), tbin.Type(m.ValueType())
		n := 0
		err := m.ForEach(func(it wire.MapItem) error {
			k, err := FromWire(it.Key)
			if err != nil {
				return err
			}
			x, err := FromWire(it.Value)
			if err != nil {
				return err
			}
			v.Items = append(v.Items, k, x)
			n++
			return nil
		})
		if err != nil {
			return v, err
		}
		if n != m.Size() {
			return v, fmt.Errorf("wirex: map Size()=%d but ForEach yielded %d", m.Size(), n)
		}
	case wire.TSet, wire.TList:
		var l wire.ValueList
		if w.Type() == wire.TSet {
			l = w.GetSet()
		} else {
			l = w.GetList()
		}
		v.VT = tbin.Type(l.ValueType())
		n := 0
		err := l.ForEach(func(it wire.Value) error {
			x, err := FromWire(it)
			if err != nil {
				return err
			}
			v.Items = append(v.Items, x)
			n++
			return nil
		})
		if err != nil {
			return v, err
		}
		if n != l.Size() {
			return v, fmt.Errorf("wirex: list Size()=%d but ForEach yielded %d", l.Size(), n)
		}
	default:
		return v, fmt.Errorf("wirex: unknown wire type %d", w.Type())
	}
	return v, nil
}
