// Package chunk provides harness-owned io.Readers whose segmentation of the
// byte stream into reads is an explicit, enumerable choice.
package chunk

import (
	"fmt"
	"io"
)

// Reader serves b under a given segmentation.
type Reader struct {
	B     []byte
	Pos   int
	Cuts  []int // ascending absolute offsets at which a read must stop
	One   bool  // every read returns at most one byte
	Zero  bool  // a zero-length read precedes every data read
	First int   // if >0, the very first data read returns at most First bytes
	EOF   bool  // the read that delivers the last byte also returns io.EOF (allowed by io.Reader)
	zflag bool
	Reads int
}

// Read implements io.Reader.
func (c *Reader) Read(p []byte) (int, error) {
	c.Reads++
	if len(p) == 0 {
		return 0, nil
	}
	if c.Zero && !c.zflag {
		c.zflag = true
		return 0, nil
	}
	c.zflag = false
	if c.Pos >= len(c.B) {
		return 0, io.EOF
	}
	limit := len(c.B)
	for _, k := range c.Cuts {
		if k > c.Pos {
			limit = k
			break
		}
	}
	n := limit - c.Pos
	if c.One {
		n = 1
	}
	if c.First > 0 && c.Pos == 0 && n > c.First {
		n = c.First
	}
	if n > len(p) {
		n = len(p)
	}
	copy(p, c.B[c.Pos:c.Pos+n])
	c.Pos += n
	if c.EOF && c.Pos == len(c.B) {
		return n, io.EOF
	}
	return n, nil
}

// Seekable wraps a Reader and adds io.Seeker.
type Seekable struct{ *Reader }

// Seek implements io.Seeker.
func (s Seekable) Seek(off int64, whence int) (int64, error) {
	switch whence {
	case io.SeekStart:
		s.Pos = int(off)
	case io.SeekCurrent:
		s.Pos += int(off)
	case io.SeekEnd:
		s.Pos = len(s.B) + int(off)
	}
	if s.Pos < 0 {
		s.Pos = 0
		return 0, fmt.Errorf("chunk: negative seek")
	}
	return int64(s.Pos), nil
}

// PipeLike wraps a Reader and adds an io.Seeker whose Seek always fails without
// moving, the way an *os.File does when it is a pipe, a socket or a terminal
// (ESPIPE): the type has the method, the object cannot seek.
type PipeLike struct{ *Reader }

// Seek implements io.Seeker (and fails).
func (PipeLike) Seek(int64, int) (int64, error) { return 0, fmt.Errorf("seek: illegal seek") }

// Chunking names one segmentation.
type Chunking struct {
	Name  string
	Cuts  []int
	One   bool
	Zero  bool
	First int
	EOF   bool
}

// New instantiates a reader for b.
func (c Chunking) New(b []byte) *Reader {
	return &Reader{B: b, Cuts: c.Cuts, One: c.One, Zero: c.Zero, First: c.First, EOF: c.EOF}
}

// All enumerates segmentations of an n-byte input. Basic: whole, all-1-byte,
// first read 1 byte, zero-length reads. cuts1 adds every single cut, cuts2
// every pair of cuts.
func All(n int, cuts1, cuts2 bool) []Chunking {
	out := []Chunking{{Name: "whole"}, {Name: "1byte", One: true}, {Name: "first1", First: 1},
		{Name: "whole+zero", Zero: true}, {Name: "1byte+zero", One: true, Zero: true},
		{Name: "whole+eof-with-data", EOF: true}, {Name: "1byte+eof-with-data", One: true, EOF: true}}
	if cuts1 {
		for i := 1; i < n; i++ {
			out = append(out, Chunking{Name: fmt.Sprintf("cut%d", i), Cuts: []int{i}})
			if i <= 8 {
				out = append(out, Chunking{Name: fmt.Sprintf("cut%d+zero", i), Cuts: []int{i}, Zero: true})
			}
		}
	}
	if cuts2 {
		for i := 1; i < n; i++ {
			for j := i + 1; j < n; j++ {
				out = append(out, Chunking{Name: fmt.Sprintf("cut%d,%d", i, j), Cuts: []int{i, j}})
			}
		}
	}
	return out
}
