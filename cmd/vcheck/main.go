// vcheck is the entry point of all checks that need no build overlay.
package main

import (
	"verif/checks/c01"
	"verif/checks/c02"
	"verif/checks/c03"
	"verif/checks/c04"
	"verif/checks/c05"
	"verif/checks/c06"
	"verif/checks/c07"
	"verif/checks/c08"
	"verif/checks/c09"
	"verif/checks/c10"
	"verif/checks/c11"
	"verif/checks/c12"
	"verif/checks/c13"
	"verif/checks/c14"
	"verif/checks/c15"
	"verif/checks/c19"
	"verif/checks/c16"
	"verif/checks/c17"
	"verif/checks/c18"
	"verif/checks/c20"
	"verif/engine/ev"
)

func main() {
	ev.Main(map[string]*ev.Check{
		"C01": c01.Check,
		"C04": c04.Check,
		"C05": c05.Check,
		"C06": c06.Check,
		"C14": c14.Check,
		"C15": c15.Check,
		"C19": c19.Check,
		"C02": c02.Check,
		"C03": c03.Check,
		"C07": c07.Check,
		"C08": c08.Check,
		"C09": c09.Check,
		"C10": c10.Check,
		"C11": c11.Check,
		"C12": c12.Check,
		"C13": c13.Check,
		"C16": c16.Check,
		"C17": c17.Check,
		"C18": c18.Check,
		"C20": c20.Check,
	})
}
