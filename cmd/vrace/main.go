// Command vrace is the free-running companion of C18: the same operation
// bodies run on real goroutines with the real sync package, built with
// -race (see checks/c18/race.go).
package main

import (
	"os"

	"verif/checks/c18"
)

func main() { os.Exit(c18.RaceMain(os.Args[1:])) }
