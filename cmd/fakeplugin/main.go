// fakeplugin is a scripted stand-in for an external thriftrw plugin process
// (E6). It speaks the plugin protocol with the independent reference codec
// (ref/tbin), never with thriftrw's own plugin library, follows a script given
// in the environment and appends an event log.
//
// Environment:
//
//	FAKEPLUGIN_DIR     directory for logs (<name>.log) and scripts (<name>.json)
//
// The plugin's name is the executable's base name minus "thriftrw-plugin-".
package main

import (
	"encoding/binary"
	"encoding/json"
	"fmt"
	"io"
	"os"
	"os/signal"
	"path/filepath"
	"strings"
	"syscall"
	"time"

	"verif/ref/tbin"
)

// Step describes how to answer one protocol step.
type Step struct {
	// Fault: ok | wrong-name | wrong-version | older-version | no-feature | exception | wrong-envelope-type |
	// garbage | truncate | one-byte-writes | exit-before-read | exit-after-read | oversized-length[-msb|-max] | garbage-flood
	Fault  string `json:"fault"`
	Offset int    `json:"offset"` // for truncate: number of bytes of the frame to write
}

// Script is the whole behaviour of one fake plugin.
type Script struct {
	APIVersion int32             `json:"api_version"`
	Handshake  Step              `json:"handshake"`
	Generate   Step              `json:"generate"`
	Goodbye    Step              `json:"goodbye"`
	Files      map[string]string `json:"files"`
}

var logf *os.File

func logEvent(format string, a ...interface{}) {
	fmt.Fprintf(logf, format+"\n", a...)
	logf.Sync()
}

// exit records the exit only after a short pause: a host that waits for its
// children (cmd.Wait) therefore always finds the exit record once it has
// exited itself (happens-before through wait), while a host that does not
// reap its children exits while this process is still pausing, and the driver
// (which reads the log the moment the host exits) finds the record missing.
// The pause can cause a missed detection on a slow machine, never a false alarm.
func exit(code int) {
	logEvent("exiting %d", code)
	time.Sleep(40 * time.Millisecond)
	logEvent("exit %d", code)
	os.Exit(code)
}

func readFrame(r io.Reader) ([]byte, error) {
	var l [4]byte
	if _, err := io.ReadFull(r, l[:]); err != nil {
		return nil, err
	}
	b := make([]byte, binary.BigEndian.Uint32(l[:]))
	_, err := io.ReadFull(r, b)
	return b, err
}

func s(x string) tbin.Value { return tbin.Value{T: tbin.Binary, B: []byte(x)} }

func main() {
	name := strings.TrimPrefix(filepath.Base(os.Args[0]), "thriftrw-plugin-")
	dir := os.Getenv("FAKEPLUGIN_DIR")
	var err error
	logf, err = os.OpenFile(filepath.Join(dir, name+".log"), os.O_CREATE|os.O_WRONLY|os.O_APPEND, 0o644)
	if err != nil {
		os.Exit(97)
	}
	signal.Ignore(syscall.SIGPIPE) // a write to a closed stdout returns EPIPE instead of killing the process
	logEvent("start %d", os.Getpid())
	var sc Script
	raw, err := os.ReadFile(filepath.Join(dir, name+".json"))
	if err != nil || json.Unmarshal(raw, &sc) != nil {
		logEvent("no-script")
		exit(98)
	}
	in, out := os.Stdin, os.Stdout
	for {
		var step *Step
		// peek at which step comes next only after reading, except for the
		// exit-before-read fault of the step we are waiting for
		pending := nextExpected
		if st := stepOf(&sc, pending); st != nil && st.Fault == "exit-before-read" {
			logEvent("fault exit-before-read at %s", pending)
			exit(3)
		}
		req, err := readFrame(in)
		if err == io.EOF {
			logEvent("eof")
			exit(0)
		}
		if err != nil {
			logEvent("read-error %v", err)
			exit(4)
		}
		env, _, off, derr := tbin.DecodeEnvelope(req)
		if derr != nil {
			logEvent("bad-request %v", derr)
			exit(5)
		}
		method := string(env.Name)
		logEvent("req %s type=%d", method, env.Type)
		_ = off
		var result tbin.Value
		switch method {
		case "Plugin:handshake":
			step = &sc.Handshake
			nextExpected = "generate-or-goodbye"
			hsName, ver := name, sc.APIVersion
			features := []tbin.Value{{T: tbin.I32, I: 1}}
			switch step.Fault {
			case "other-feature":
				features = []tbin.Value{{T: tbin.I32, I: 2}}
			case "other-features":
				features = []tbin.Value{{T: tbin.I32, I: 2}, {T: tbin.I32, I: 7}}
			case "extra-feature":
				features = []tbin.Value{{T: tbin.I32, I: 2}, {T: tbin.I32, I: 1}}
			case "wrong-name":
				hsName = name + "-impostor"
			case "wrong-version":
				ver = sc.APIVersion + 1
			case "older-version":
				ver = sc.APIVersion - 1
			case "no-feature":
				features = nil
			}
			hs := tbin.Value{T: tbin.Struct, Fields: []tbin.Field{
				{ID: 1, V: s(hsName)}, {ID: 2, V: tbin.Value{T: tbin.I32, I: int64(ver)}},
				{ID: 3, V: tbin.Value{T: tbin.List, VT: tbin.I32, Items: features}}, {ID: 4, V: s("1.0.0-fake")}}}
			result = tbin.Value{T: tbin.Struct, Fields: []tbin.Field{{ID: 0, V: hs}}}
		case "ServiceGenerator:generate":
			step = &sc.Generate
			var items []tbin.Value
			for p, c := range sc.Files {
				items = append(items, s(p), s(c))
			}
			resp := tbin.Value{T: tbin.Struct, Fields: []tbin.Field{{ID: 1, V: tbin.Value{T: tbin.Map, KT: tbin.Binary, VT: tbin.Binary, Items: items}}}}
			result = tbin.Value{T: tbin.Struct, Fields: []tbin.Field{{ID: 0, V: resp}}}
		case "Plugin:goodbye":
			step = &sc.Goodbye
			nextExpected = "eof"
			result = tbin.Value{T: tbin.Struct}
		default:
			logEvent("unknown-method %s", method)
			exit(6)
		}
		if step.Fault == "exit-after-read" {
			logEvent("fault exit-after-read at %s", method)
			exit(3)
		}
		reply := tbin.Envelope{Name: env.Name, Type: 2, SeqID: env.SeqID}
		body := tbin.Encode(result)
		switch step.Fault {
		case "exception":
			reply.Type = 3
			body = tbin.Encode(tbin.Value{T: tbin.Struct, Fields: []tbin.Field{{ID: 1, V: s("scripted failure")}, {ID: 2, V: tbin.Value{T: tbin.I32, I: 6}}}})
		case "wrong-envelope-type":
			reply.Type = 1
		}
		payload := tbin.EncodeStrict(reply, body)
		if step.Fault == "garbage" || step.Fault == "garbage-flood" {
			payload = []byte{0xde, 0xad, 0xbe, 0xef, 0x00, 0x01, 0x02}
		}
		frame := make([]byte, 4, 4+len(payload))
		binary.BigEndian.PutUint32(frame, uint32(len(payload)))
		frame = append(frame, payload...)
		switch step.Fault {
		case "oversized-length", "oversized-length-msb", "oversized-length-max":
			prefix := map[string][]byte{"oversized-length": {0x7f, 0xff, 0xff, 0xff}, "oversized-length-msb": {0x80, 0, 0, 0}, "oversized-length-max": {0xff, 0xff, 0xff, 0xff}}[step.Fault]
			out.Write(append(append([]byte{}, prefix...), 0x00))
			logEvent("fault %s at %s", step.Fault, method)
			exit(3)
		case "garbage-flood":
			// a garbage reply, then output without end: the plugin never looks at its
			// stdin again and stops only when writing to its stdout fails
			out.Write(frame)
			logEvent("fault garbage-flood at %s", method)
			block := make([]byte, 32<<10)
			for {
				if _, werr := out.Write(block); werr != nil {
					logEvent("flood ended: %v", werr)
					exit(3)
				}
			}
		case "truncate":
			k := step.Offset
			if k > len(frame) {
				k = len(frame)
			}
			out.Write(frame[:k])
			logEvent("fault truncate %d/%d at %s", k, len(frame), method)
			exit(3)
		case "one-byte-writes":
			for i := range frame {
				out.Write(frame[i : i+1])
			}
		default:
			out.Write(frame)
		}
		logEvent("replied %s fault=%s", method, step.Fault)
		// exit-before-read of the following step: leave right after this reply
		if method == "Plugin:handshake" && sc.Generate.Fault == "exit-before-read" {
			logEvent("fault exit-before-read at generate")
			exit(3)
		}
		if method == "ServiceGenerator:generate" && sc.Goodbye.Fault == "exit-before-read" {
			logEvent("fault exit-before-read at goodbye")
			exit(3)
		}
	}
}

var nextExpected = "handshake"

func stepOf(sc *Script, pending string) *Step {
	switch pending {
	case "handshake":
		return &sc.Handshake
	}
	return nil
}
