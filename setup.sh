#!/bin/sh
# Builds the framework offline and warms the Go build cache.
cd "$(dirname "$0")" || exit 2
export GOFLAGS=-mod=mod GOPROXY=off GOSUMDB=off GOTOOLCHAIN=local
mkdir -p bin evidence replays
tools/mkoverlay.sh bin/overlay.json
go build -tags verif -overlay bin/overlay.json -o bin/vcheck ./cmd/vcheck || exit 1
go vet ./engine/... ./ref/... >/dev/null 2>&1
echo setup ok
