// Package choice is E1: a stateless depth-first explorer over choice vectors
// with deviation bounding (see DESIGN.md §2, E1).
//
// A harness body is a deterministic function of the answers it receives from
// Ctx.Choose / Ctx.Deviate. The explorer replays a prefix of answers and then
// answers 0 at every later point; it then branches on every point after the
// prefix. Free points are always fully enumerated; deviation points cost one
// unit of the deviation budget for every non-zero answer.
package choice

import (
	"fmt"
	"hash/fnv"
)

// Point is one recorded decision of an execution.
type Point struct {
	N      int    // number of alternatives
	Choice int    // answer given
	Label  string // site label (checked on replay)
	Dev    bool   // deviation point (non-zero answer costs 1)
	// Cost of taking a non-zero alternative at this point; for scheduler
	// points a switch away from a still-enabled running thread costs 1, a
	// forced switch costs 0. CostAlt[i] is the cost of alternative i.
	CostAlt []int
}

// Ctx is handed to the harness body for one execution.
type Ctx struct {
	prefix []int
	labels []string
	Trace  []Point
	// Aborted is set when the body asked for an out-of-range replay answer.
	err error
}

// ErrReplay is the panic value used when a replayed prefix does not fit.
type ErrReplay struct{ Msg string }

func (e ErrReplay) Error() string { return e.Msg }

func (c *Ctx) answer(n int, label string, dev bool, costs []int) int {
	if n <= 0 {
		panic(fmt.Sprintf("choice: Choose(%d) at %q", n, label))
	}
	i := len(c.Trace)
	ch := 0
	if i < len(c.prefix) {
		ch = c.prefix[i]
		if ch >= n {
			panic(ErrReplay{fmt.Sprintf("replay divergence at point %d (%s): answer %d out of range %d", i, label, ch, n)})
		}
		if c.labels != nil && i < len(c.labels) && c.labels[i] != label {
			panic(ErrReplay{fmt.Sprintf("replay divergence at point %d: label %q, recorded %q", i, label, c.labels[i])})
		}
	}
	c.Trace = append(c.Trace, Point{N: n, Choice: ch, Label: label, Dev: dev, CostAlt: costs})
	return ch
}

// Choose is a free choice among n alternatives (part of the input space).
func (c *Ctx) Choose(n int, label string) int { return c.answer(n, label, false, nil) }

// Deviate is an environment choice: 0 is the default answer, any other answer
// costs one deviation.
func (c *Ctx) Deviate(n int, label string) int { return c.answer(n, label, true, nil) }

// DeviateCost is an environment choice with an explicit cost per alternative
// (cost[0] must be 0).
func (c *Ctx) DeviateCost(cost []int, label string) int {
	return c.answer(len(cost), label, true, cost)
}

// Prefix returns the answers this execution is going to replay before it
// falls back to the default answer (for bodies that run the execution in
// another process and report its points back).
func (c *Ctx) Prefix() []int { return append([]int{}, c.prefix...) }

// Replay returns a context that replays prefix and answers 0 afterwards.
func Replay(prefix []int) *Ctx { return &Ctx{prefix: append([]int{}, prefix...)} }

// Vector returns the answers given in this execution.
func (c *Ctx) Vector() []int {
	v := make([]int, len(c.Trace))
	for i, p := range c.Trace {
		v[i] = p.Choice
	}
	return v
}

// Labels returns the labels of the points of this execution.
func (c *Ctx) Labels() []string {
	v := make([]string, len(c.Trace))
	for i, p := range c.Trace {
		v[i] = p.Label
	}
	return v
}

// Deviations returns the deviation cost spent in this execution.
func (c *Ctx) Deviations() int { return cost(c.Trace, len(c.Trace)) }

func altCost(p Point, alt int) int {
	if !p.Dev || alt == 0 {
		return 0
	}
	if p.CostAlt != nil {
		return p.CostAlt[alt]
	}
	return 1
}

func cost(tr []Point, upto int) int {
	s := 0
	for i := 0; i < upto; i++ {
		s += altCost(tr[i], tr[i].Choice)
	}
	return s
}

// Stats are the explorer's measured counters.
type Stats struct {
	Executions  int64
	States      int64 // distinct choice-tree nodes visited (points reached)
	Transitions int64 // edges taken (answers given)
	MaxDepth    int
	Outcomes    map[uint64]int64
	Bound       int
	Capped      bool
	NonDefault  int64 // executions with at least one deviation
}

// Explorer drives a body over all choice vectors within the deviation bound.
type Explorer struct {
	Bound int // max total deviation cost per execution
	Body  func(c *Ctx)
	// After is called after each execution (for oracles); returning false stops.
	After func(c *Ctx) bool
	// Shard/Of: subtrees rooted at depth-1 children are dealt round robin.
	Shard, Of int
	// MaxExec caps executions (0 = none). Hitting it sets Stats.Capped.
	MaxExec int64
	// Stop is polled between executions; true ends the exploration as capped.
	Stop func() bool

	Stats   Stats
	subtree int64
	stopped bool
}

// Run explores everything within the bound.
func (e *Explorer) Run() {
	if e.Of == 0 {
		e.Of = 1
	}
	if e.Stats.Outcomes == nil {
		e.Stats.Outcomes = map[uint64]int64{}
	}
	e.Stats.Bound = e.Bound
	e.explore(nil, 0)
}

// RunOne executes the body once on the given vector (replay).
func RunOne(body func(c *Ctx), vec []int, labels []string) *Ctx {
	c := &Ctx{prefix: vec, labels: labels}
	body(c)
	return c
}

func (e *Explorer) explore(prefix []int, level int) {
	if e.stopped {
		return
	}
	if (e.MaxExec > 0 && e.Stats.Executions >= e.MaxExec) || (e.Stop != nil && e.Stop()) {
		e.Stats.Capped = true
		e.stopped = true
		return
	}
	c := &Ctx{prefix: prefix}
	e.Body(c)
	if len(c.Trace) < len(prefix) {
		panic(ErrReplay{fmt.Sprintf("replay divergence: execution ended after %d points, prefix has %d", len(c.Trace), len(prefix))})
	}
	count := level > 0 || e.Shard == 0
	if count {
		e.Stats.Executions++
		newPts := len(c.Trace) - len(prefix)
		if len(prefix) > 0 {
			newPts++ // the branching edge itself
		}
		e.Stats.States += int64(len(c.Trace) - len(prefix) + 1)
		e.Stats.Transitions += int64(newPts)
		if len(c.Trace) > e.Stats.MaxDepth {
			e.Stats.MaxDepth = len(c.Trace)
		}
		if c.Deviations() > 0 {
			e.Stats.NonDefault++
		}
		if e.After != nil && !e.After(c) {
			e.stopped = true
			return
		}
	}
	tr := c.Trace
	for i := len(prefix); i < len(tr); i++ {
		p := tr[i]
		before := cost(tr, i)
		for alt := 1; alt < p.N; alt++ {
			if before+altCost(p, alt) > e.Bound {
				continue
			}
			if level == 0 {
				mine := e.subtree%int64(e.Of) == int64(e.Shard)
				e.subtree++
				if !mine {
					continue
				}
			}
			np := make([]int, i+1)
			for k := 0; k < i; k++ {
				np[k] = tr[k].Choice
			}
			np[i] = alt
			e.explore(np, level+1)
			if e.stopped {
				return
			}
		}
	}
}

// Outcome records a hash of what the oracle looked at (vacuity guard).
func (e *Explorer) Outcome(s string) {
	h := fnv.New64a()
	h.Write([]byte(s))
	e.Stats.Outcomes[h.Sum64()]++
}

// Perm decodes index k (0 <= k < n!) into the k-th permutation of 0..n-1 in
// lexicographic order; k = 0 is the identity.
func Perm(n, k int) []int {
	items := make([]int, n)
	for i := range items {
		items[i] = i
	}
	out := make([]int, 0, n)
	f := 1
	for i := 2; i < n; i++ {
		f *= i
	}
	for i := n - 1; i >= 0; i-- {
		idx := 0
		if f > 0 {
			idx = k / f
			k = k % f
		}
		out = append(out, items[idx])
		items = append(items[:idx], items[idx+1:]...)
		if i > 0 {
			f /= i
		}
	}
	return out
}

// Fact returns n!.
func Fact(n int) int {
	f := 1
	for i := 2; i <= n; i++ {
		f *= i
	}
	return f
}

// Canonical returns a context that answers 0 at every point (the default
// execution), for bodies that are to be run once without exploration.
func Canonical() *Ctx { return &Ctx{} }
