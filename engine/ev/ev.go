// Package ev is the worker/supervisor protocol, evidence writer and
// known-findings handling shared by every check (DESIGN.md §2 "Evidence,
// tiers, budgets, known findings").
package ev

import (
	"bufio"
	"bytes"
	"encoding/json"
	"fmt"
	"hash/fnv"
	"os"
	"os/exec"
	"path/filepath"
	"sort"
	"strconv"
	"strings"
	"sync"
	"syscall"
	"time"
)

// Violation is one observed departure from the property.
type Violation struct {
	Sig    string      `json:"sig"`    // class signature matched against known-findings.txt
	Detail string      `json:"detail"` // human readable
	Replay interface{} `json:"replay"` // check-specific replay payload
}

// Result is what a worker reports.
type Result struct {
	Evaluations int64            `json:"evaluations"`
	Nontrivial  int64            `json:"nontrivial"`
	States      int64            `json:"states"`
	Transitions int64            `json:"transitions"`
	Traces      int64            `json:"traces"`
	Outcomes    map[string]int64 `json:"outcomes"` // outcome class -> count
	Counters    map[string]int64 `json:"counters"`
	Samples     []interface{}    `json:"samples"`
	Violations  []Violation      `json:"violations"`
	ViolCount   map[string]int64 `json:"viol_count"` // per signature, all instances
	Notes       []string         `json:"notes"`
	Caps        []string         `json:"caps"`
	LastDone    int64            `json:"last_done"`
	Finished    bool             `json:"finished"`
}

// W is the worker-side handle.
type W struct {
	ID        string
	Tier      string
	Shard, Of int
	Resume    int64
	Skip      map[int64]bool
	Seed      int64
	Deadline  time.Time
	WorkDir   string // scratch dir for this check (shared by workers)
	Args      map[string]string

	R        Result
	idx      int64
	progress *os.File
	ckpt     string
	lastCk   time.Time
	outHash  map[uint64]struct{}
	ntHash   map[uint64]struct{}
	maxViol  int
}

const maxSamples = 12

// Quick reports whether the tier is quick.
func (w *W) Quick() bool { return w.Tier != "thorough" }

// Own advances the case counter and reports whether this worker runs the case.
func (w *W) Own() bool {
	w.idx++
	if w.idx <= w.Resume || w.Skip[w.idx] {
		return false
	}
	return w.idx%int64(w.Of) == int64(w.Shard)
}

// OwnKey is like Own but deals cases by a content hash, so that equal cases
// always land on the same worker (which can then deduplicate them).
func (w *W) OwnKey(h uint64) bool {
	w.idx++
	if w.idx <= w.Resume || w.Skip[w.idx] {
		return false
	}
	return h%uint64(w.Of) == uint64(w.Shard)
}

// Idx is the current case index.
func (w *W) Idx() int64 { return w.idx }

// Progress records what the worker is about to run, so that a crash or hang
// is attributable. Cheap (one pwrite).
func (w *W) Progress(desc string) {
	if w.progress == nil {
		return
	}
	rec := fmt.Sprintf("%d\t%d\t%s\n", w.idx, time.Now().UnixNano(), desc)
	if len(rec) > 4000 {
		rec = rec[:3999] + "\n"
	}
	buf := make([]byte, 4096)
	copy(buf, rec)
	w.progress.WriteAt(buf, 0)
}

// Done marks a case finished (for checkpointing) and checkpoints at most once
// per second.
func (w *W) Done() {
	w.R.LastDone = w.idx
	if w.ckpt != "" && time.Since(w.lastCk) > time.Second {
		w.checkpoint()
	}
}

func (w *W) checkpoint() {
	w.lastCk = time.Now()
	b, _ := json.Marshal(&w.R)
	tmp := w.ckpt + ".tmp"
	if os.WriteFile(tmp, b, 0o644) == nil {
		os.Rename(tmp, w.ckpt)
	}
}

// Expired reports whether the internal deadline has passed; the caller must
// then stop enumerating and call Cap.
func (w *W) Expired() bool { return !w.Deadline.IsZero() && time.Now().After(w.Deadline) }

// Cap records that a bound/time cap was hit (run is not exhaustive).
func (w *W) Cap(what string) {
	for _, c := range w.R.Caps {
		if c == what {
			return
		}
	}
	w.R.Caps = append(w.R.Caps, what)
}

// Eval counts n evaluations.
func (w *W) Eval(n int64) { w.R.Evaluations += n }

// Nontrivial counts n distinct non-trivial cases (distinct by construction).
func (w *W) Nontrivial(n int64) { w.R.Nontrivial += n }

// NontrivialKey counts a non-trivial case once per distinct key.
func (w *W) NontrivialKey(key string) {
	h := fnv.New64a()
	h.Write([]byte(key))
	k := h.Sum64()
	if w.ntHash == nil {
		w.ntHash = map[uint64]struct{}{}
	}
	if _, ok := w.ntHash[k]; ok {
		return
	}
	if len(w.ntHash) < 4_000_000 {
		w.ntHash[k] = struct{}{}
		w.R.Nontrivial++
	}
}

// Outcome records an outcome class (vacuity guard; few classes expected).
func (w *W) Outcome(class string) {
	if w.R.Outcomes == nil {
		w.R.Outcomes = map[string]int64{}
	}
	if _, ok := w.R.Outcomes[class]; !ok && len(w.R.Outcomes) >= 4096 {
		class = "(other)"
	}
	w.R.Outcomes[class]++
}

// Count bumps a named counter.
func (w *W) Count(name string, n int64) {
	if w.R.Counters == nil {
		w.R.Counters = map[string]int64{}
	}
	w.R.Counters[name] += n
}

// Sample keeps up to a dozen example cases.
func (w *W) Sample(x interface{}) {
	if len(w.R.Samples) < maxSamples {
		w.R.Samples = append(w.R.Samples, x)
	}
}

// WantSample reports whether more samples are wanted (to avoid building them).
func (w *W) WantSample() bool { return len(w.R.Samples) < maxSamples }

// Note appends a free-text note (deduplicated, capped).
func (w *W) Note(s string) {
	if len(w.R.Notes) >= 40 {
		return
	}
	for _, n := range w.R.Notes {
		if n == s {
			return
		}
	}
	w.R.Notes = append(w.R.Notes, s)
}

// Violation records a violation; at most 5 instances per signature keep
// their replay payload, all are counted.
func (w *W) Violation(sig, detail string, replay interface{}) {
	if w.R.ViolCount == nil {
		w.R.ViolCount = map[string]int64{}
	}
	w.R.ViolCount[sig]++
	if w.R.ViolCount[sig] <= 3 && len(w.R.Violations) < 200 {
		w.R.Violations = append(w.R.Violations, Violation{Sig: sig, Detail: detail, Replay: replay})
	}
}

// Check is a registered property check.
type Check struct {
	ID    string
	Level string // evidence level
	Rule  string // how cases are enumerated / what is non-trivial
	// Prepare runs once in the supervisor before workers start (build cells,
	// overlays, binaries). It may return args handed to each worker.
	Prepare func(s *S) error
	// Run is the worker body.
	Run func(w *W)
	// Workers for the tier (0 = 16).
	Workers func(tier string) int
	// Budget is the internal deadline per tier.
	Budget func(tier string) time.Duration
	// CrashSig maps the progress description of a crashed/hung case to a
	// violation signature; nil means a worker death is a harness error.
	CrashSig func(kind, desc, stderr string) (sig string, isViolation bool)
	// CaseDeadline: a single progress record older than this is a hang.
	CaseDeadline time.Duration
	// MemLimitKB for ulimit -v (0 = none).
	MemLimitKB  int64
	Assumptions []string
	// Binary overrides the worker executable (overlay-built harnesses).
	Binary string
	// Cleanup runs in the supervisor after the workers.
	Cleanup func(s *S)
	// Explanation for evidence.
	Explanation string
	// Finish runs in the supervisor after the workers' results were merged;
	// it may add violations, notes and counters (cross-worker comparisons).
	Finish func(s *S, merged *Result)
}

// S is the supervisor-side handle.
type S struct {
	ID      string
	Tier    string
	Seed    int64
	WorkDir string
	Args    map[string]string
	Notes   []string
	Binary  string
	Verif   string // /verif root
}

// Root returns the /verif root directory.
func Root() string {
	if r := os.Getenv("VERIF_ROOT"); r != "" {
		return r
	}
	exe, err := os.Executable()
	if err == nil {
		d := filepath.Dir(filepath.Dir(exe))
		if _, err := os.Stat(filepath.Join(d, "properties.jsonl")); err == nil {
			return d
		}
	}
	return "/verif"
}

type finding struct {
	prop, sig, text string
}

func loadFindings(root string) (findings []finding, fixed []string) {
	f, err := os.Open(filepath.Join(root, "known-findings.txt"))
	if err != nil {
		return
	}
	defer f.Close()
	sc := bufio.NewScanner(f)
	for sc.Scan() {
		line := strings.TrimSpace(sc.Text())
		if strings.HasPrefix(line, "finding:") {
			rest := strings.TrimSpace(strings.TrimPrefix(line, "finding:"))
			fl := strings.Fields(rest)
			var fd finding
			n := 0
			for _, x := range fl {
				if strings.HasPrefix(x, "property=") {
					fd.prop = strings.TrimPrefix(x, "property=")
					n++
				} else if strings.HasPrefix(x, "sig=") {
					fd.sig = strings.TrimPrefix(x, "sig=")
					n++
				} else {
					break
				}
			}
			fd.text = strings.Join(fl[n:], " ")
			findings = append(findings, fd)
		} else if strings.HasPrefix(line, "fixed:") {
			fixed = append(fixed, line)
		}
	}
	return
}

// Main is the entry point of every check binary.
func Main(checks map[string]*Check) {
	args := os.Args[1:]
	if len(args) == 0 {
		fmt.Fprintln(os.Stderr, "usage: vcheck <id> [--tier quick|thorough] [--replay path]")
		os.Exit(2)
	}
	id := args[0]
	ck := checks[id]
	if ck == nil {
		fmt.Fprintf(os.Stderr, "unknown check %q\n", id)
		os.Exit(2)
	}
	opt := map[string]string{"tier": os.Getenv("VERIF_TIER")}
	for i := 1; i < len(args); i++ {
		a := strings.TrimPrefix(args[i], "--")
		if i+1 < len(args) && !strings.HasPrefix(args[i+1], "--") {
			opt[a] = args[i+1]
			i++
		} else {
			opt[a] = "1"
		}
	}
	if opt["tier"] == "" {
		opt["tier"] = "quick"
	}
	seed, _ := strconv.ParseInt(os.Getenv("VERIF_SEED"), 10, 64)
	if _, ok := opt["worker"]; ok {
		runWorker(ck, opt, seed)
		return
	}
	os.Exit(supervise(ck, opt, seed))
}

func runWorker(ck *Check, opt map[string]string, seed int64) {
	w := &W{ID: ck.ID, Tier: opt["tier"], Seed: seed, Skip: map[int64]bool{}, Args: map[string]string{}}
	fmt.Sscanf(opt["worker"], "%d/%d", &w.Shard, &w.Of)
	w.Resume, _ = strconv.ParseInt(opt["resume"], 10, 64)
	for _, s := range strings.Split(opt["skip"], ",") {
		if s != "" {
			k, _ := strconv.ParseInt(s, 10, 64)
			w.Skip[k] = true
		}
	}
	w.WorkDir = opt["workdir"]
	if opt["args"] != "" {
		b, _ := os.ReadFile(opt["args"])
		json.Unmarshal(b, &w.Args)
	}
	if d, err := time.ParseDuration(opt["budget"]); err == nil && d > 0 {
		w.Deadline = time.Now().Add(d)
	}
	if p := opt["progress"]; p != "" {
		w.progress, _ = os.OpenFile(p, os.O_CREATE|os.O_WRONLY, 0o644)
	}
	w.ckpt = opt["out"]
	if opt["carry"] != "" {
		if b, err := os.ReadFile(opt["carry"]); err == nil {
			json.Unmarshal(b, &w.R)
		}
	}
	ck.Run(w)
	w.R.Finished = true
	w.R.LastDone = w.idx
	w.checkpoint()
}

type workerState struct {
	shard   int
	res     Result
	resume  int64
	skip    []string
	crashes int
	hangs   int
}

func supervise(ck *Check, opt map[string]string, seed int64) int {
	start := time.Now()
	root := Root()
	tier := opt["tier"]
	work := filepath.Join(root, ".work", ck.ID)
	os.RemoveAll(work)
	os.MkdirAll(work, 0o755)
	defer os.RemoveAll(work)
	s := &S{ID: ck.ID, Tier: tier, Seed: seed, WorkDir: work, Args: map[string]string{}, Verif: root}
	s.Binary, _ = os.Executable()
	if ck.Binary != "" {
		s.Binary = ck.Binary
	}
	if rp := opt["replay"]; rp != "" {
		s.Args["replay"] = rp
	}
	harnessErr := func(msg string) int {
		fmt.Fprintf(os.Stderr, "HARNESS-ERROR check=%s %s\n", ck.ID, msg)
		return 2
	}
	if ck.Prepare != nil {
		if err := ck.Prepare(s); err != nil {
			return harnessErr("prepare: " + err.Error())
		}
	}
	if ck.Cleanup != nil {
		defer ck.Cleanup(s)
	}
	argsPath := filepath.Join(work, "args.json")
	ab, _ := json.Marshal(s.Args)
	os.WriteFile(argsPath, ab, 0o644)

	n := 16
	if ck.Workers != nil {
		if k := ck.Workers(tier); k > 0 {
			n = k
		}
	}
	if rp := opt["replay"]; rp != "" {
		n = 1
	}
	budget := 10 * time.Minute
	if ck.Budget != nil {
		budget = ck.Budget(tier)
	}
	caseDL := ck.CaseDeadline
	if caseDL == 0 {
		caseDL = 120 * time.Second
	}

	results := make([]Result, n)
	var mu sync.Mutex
	var extraViol []Violation
	var herr []string
	var wg sync.WaitGroup
	for i := 0; i < n; i++ {
		wg.Add(1)
		go func(i int) {
			defer wg.Done()
			st := &workerState{shard: i}
			out := filepath.Join(work, fmt.Sprintf("w%d.json", i))
			prog := filepath.Join(work, fmt.Sprintf("w%d.progress", i))
			carry := ""
			remaining := budget
			for attempt := 0; ; attempt++ {
				os.Remove(out)
				os.Remove(prog)
				a := []string{ck.ID, "--tier", tier, "--worker", fmt.Sprintf("%d/%d", i, n),
					"--out", out, "--progress", prog, "--workdir", work, "--args", argsPath,
					"--budget", remaining.String(), "--resume", strconv.FormatInt(st.resume, 10)}
				if len(st.skip) > 0 {
					a = append(a, "--skip", strings.Join(st.skip, ","))
				}
				if carry != "" {
					a = append(a, "--carry", carry)
				}
				if rp := opt["replay"]; rp != "" {
					a = append(a, "--replay", rp)
				}
				var cmd *exec.Cmd
				if ck.MemLimitKB > 0 {
					sh := fmt.Sprintf("ulimit -v %d; exec \"$0\" \"$@\"", ck.MemLimitKB)
					cmd = exec.Command("sh", append([]string{"-c", sh, s.Binary}, a...)...)
				} else {
					cmd = exec.Command(s.Binary, a...)
				}
				cmd.SysProcAttr = &syscall.SysProcAttr{Pdeathsig: syscall.SIGKILL}
				cmd.Env = append(os.Environ(), "GOMAXPROCS=1", "VERIF_ROOT="+root)
				if os.Getenv("VERIF_WORKER_PROCS") != "" {
					cmd.Env = append(cmd.Env, "GOMAXPROCS="+os.Getenv("VERIF_WORKER_PROCS"))
				}
				var stderr bytes.Buffer
				cmd.Stderr = &tailWriter{buf: &stderr, max: 16384}
				cmd.Stdout = &tailWriter{buf: &stderr, max: 16384}
				t0 := time.Now()
				if err := cmd.Start(); err != nil {
					mu.Lock()
					herr = append(herr, "start worker: "+err.Error())
					mu.Unlock()
					return
				}
				done := make(chan error, 1)
				go func() { done <- cmd.Wait() }()
				kind := ""
				var werr error
				tick := time.NewTicker(500 * time.Millisecond)
			wait:
				for {
					select {
					case werr = <-done:
						break wait
					case <-tick.C:
						if time.Since(t0) > remaining+caseDL+30*time.Second {
							kind = "overrun"
							cmd.Process.Kill()
							werr = <-done
							break wait
						}
						if _, ts, _, ok := readProgress(prog); ok {
							if time.Since(time.Unix(0, ts)) > caseDL {
								kind = "hang"
								cmd.Process.Kill()
								werr = <-done
								break wait
							}
						}
					}
				}
				tick.Stop()
				remaining -= time.Since(t0)
				if remaining < 5*time.Second {
					remaining = 5 * time.Second
				}
				var r Result
				if b, err := os.ReadFile(out); err == nil {
					json.Unmarshal(b, &r)
				}
				if werr == nil && r.Finished {
					results[i] = r
					return
				}
				// abnormal end
				if kind == "" {
					kind = "crash"
				}
				idx, _, desc, ok := readProgress(prog)
				if kind == "overrun" {
					r.Caps = append(r.Caps, "worker killed after exceeding its budget")
					results[i] = r
					return
				}
				sig, isV := "", false
				if ck.CrashSig != nil && ok {
					sig, isV = ck.CrashSig(kind, desc, stderr.String())
				}
				if !isV {
					mu.Lock()
					herr = append(herr, fmt.Sprintf("worker %d %s (err=%v) at case %d %q: %s", i, kind, werr, idx, desc, lastLines(stderr.String(), 12)))
					mu.Unlock()
					results[i] = r
					return
				}
				mu.Lock()
				extraViol = append(extraViol, Violation{Sig: sig, Detail: fmt.Sprintf("worker %s while running %s: %s", kind, desc, lastLines(stderr.String(), 6)), Replay: map[string]string{"kind": kind, "case": desc}})
				mu.Unlock()
				st.crashes++
				if kind == "hang" {
					st.hangs++
					// every hang costs a full case deadline: after a few of them the verdict
					// is established and the rest of this shard is left unexplored (reported as a cap)
					if st.hangs >= 3 {
						r.Caps = append(r.Caps, fmt.Sprintf("worker %d stopped after %d hanging cases; the rest of its shard was not explored", i, st.hangs))
						results[i] = r
						return
					}
				}
				if st.crashes > 200 {
					mu.Lock()
					herr = append(herr, fmt.Sprintf("worker %d: more than 200 crashes, giving up", i))
					mu.Unlock()
					results[i] = r
					return
				}
				// resume from the last checkpoint, skipping the fatal case
				st.resume = r.LastDone
				st.skip = append(st.skip, strconv.FormatInt(idx, 10))
				carry = filepath.Join(work, fmt.Sprintf("w%d.carry.json", i))
				cb, _ := json.Marshal(&r)
				os.WriteFile(carry, cb, 0o644)
			}
		}(i)
	}
	wg.Wait()

	// merge
	var m Result
	m.Outcomes = map[string]int64{}
	m.Counters = map[string]int64{}
	m.ViolCount = map[string]int64{}
	for _, r := range results {
		m.Evaluations += r.Evaluations
		m.Nontrivial += r.Nontrivial
		m.States += r.States
		m.Transitions += r.Transitions
		m.Traces += r.Traces
		for k, v := range r.Outcomes {
			m.Outcomes[k] += v
		}
		for k, v := range r.Counters {
			m.Counters[k] += v
		}
		for k, v := range r.ViolCount {
			m.ViolCount[k] += v
		}
		for _, x := range r.Samples {
			if len(m.Samples) < maxSamples {
				m.Samples = append(m.Samples, x)
			}
		}
		m.Violations = append(m.Violations, r.Violations...)
		for _, nn := range r.Notes {
			dup := false
			for _, o := range m.Notes {
				if o == nn {
					dup = true
				}
			}
			if !dup && len(m.Notes) < 60 {
				m.Notes = append(m.Notes, nn)
			}
		}
		for _, c := range r.Caps {
			dup := false
			for _, o := range m.Caps {
				if o == c {
					dup = true
				}
			}
			if !dup {
				m.Caps = append(m.Caps, c)
			}
		}
	}
	for _, v := range extraViol {
		m.Violations = append(m.Violations, v)
		m.ViolCount[v.Sig]++
	}
	if ck.Finish != nil {
		ck.Finish(s, &m)
	}
	m.Notes = append(m.Notes, s.Notes...)

	// classify violations
	findings, fixed := loadFindings(root)
	known := map[string]finding{}
	for _, f := range findings {
		if f.prop == ck.ID {
			known[f.sig] = f
		}
	}
	_ = fixed
	sigs := make([]string, 0, len(m.ViolCount))
	for k := range m.ViolCount {
		sigs = append(sigs, k)
	}
	sort.Strings(sigs)
	newViol := 0
	repDir := filepath.Join(root, "replays", ck.ID)
	knownSeen := []string{}
	for _, sig := range sigs {
		if f, ok := known[sig]; ok {
			fmt.Printf("KNOWN-FINDING: property=%s sig=%s %s (instances this run: %d)\n", ck.ID, sig, f.text, m.ViolCount[sig])
			knownSeen = append(knownSeen, sig)
			continue
		}
		newViol++
		os.MkdirAll(repDir, 0o755)
		var first *Violation
		for i := range m.Violations {
			if m.Violations[i].Sig == sig {
				first = &m.Violations[i]
				break
			}
		}
		h := fnv.New32a()
		h.Write([]byte(sig))
		path := filepath.Join(repDir, fmt.Sprintf("%08x.json", h.Sum32()))
		rb, _ := json.MarshalIndent(map[string]interface{}{"property": ck.ID, "sig": sig, "instances": m.ViolCount[sig], "first": first}, "", " ")
		os.WriteFile(path, rb, 0o644)
		d := ""
		if first != nil {
			d = first.Detail
		}
		if len(d) > 600 {
			d = d[:600] + "..."
		}
		fmt.Printf("VIOLATION property=%s replay=%s sig=%s instances=%d :: %s\n", ck.ID, path, sig, m.ViolCount[sig], strings.ReplaceAll(d, "\n", " | "))
	}

	// evidence
	exhaustive := len(m.Caps) == 0 && len(herr) == 0
	cov := map[string]interface{}{
		"evaluations":         m.Evaluations,
		"distinct_nontrivial": m.Nontrivial,
		"rule":                ck.Rule,
		"samples":             m.Samples,
		"exhaustive":          exhaustive,
		"distinct_outcomes":   len(m.Outcomes),
		"outcomes":            topOutcomes(m.Outcomes, 160),
		"counters":            m.Counters,
		"caps_hit":            m.Caps,
		"notes":               m.Notes,
		"known_findings_seen": knownSeen,
		"workers":             n,
	}
	if ck.Explanation != "" {
		cov["explanation"] = ck.Explanation
	}
	if m.States > 0 {
		cov["states"] = m.States
		cov["transitions"] = m.Transitions
		cov["traces_validated_against_impl"] = m.Traces
	}
	if len(m.Samples) == 0 {
		cov["samples"] = []interface{}{"(no sample recorded)"}
	}
	if len(herr) > 0 {
		cov["harness_errors"] = herr
	}
	evd := map[string]interface{}{
		"property_id": ck.ID,
		"tier":        tier,
		"seed":        seed,
		"level":       ck.Level,
		"coverage":    cov,
		"assumptions": ck.Assumptions,
		"wall_s":      time.Since(start).Seconds(),
		"violations":  newViol,
	}
	if opt["replay"] == "" {
		os.MkdirAll(filepath.Join(root, "evidence"), 0o755)
		eb, _ := json.MarshalIndent(evd, "", " ")
		os.WriteFile(filepath.Join(root, "evidence", ck.ID+".json"), eb, 0o644)
	}
	fmt.Printf("check=%s tier=%s evaluations=%d distinct_nontrivial=%d states=%d outcomes=%d exhaustive=%v violations=%d known=%d wall=%.1fs\n",
		ck.ID, tier, m.Evaluations, m.Nontrivial, m.States, len(m.Outcomes), exhaustive, newViol, len(knownSeen), time.Since(start).Seconds())
	for _, c := range m.Caps {
		fmt.Printf("CAP: %s\n", c)
	}
	if len(herr) > 0 {
		for _, h := range herr {
			fmt.Fprintf(os.Stderr, "HARNESS-ERROR check=%s %s\n", ck.ID, h)
		}
		if newViol > 0 {
			return 1
		}
		return 2
	}
	if newViol > 0 {
		return 1
	}
	return 0
}

func topOutcomes(m map[string]int64, n int) map[string]int64 {
	type kv struct {
		k string
		v int64
	}
	var l []kv
	for k, v := range m {
		l = append(l, kv{k, v})
	}
	sort.Slice(l, func(i, j int) bool {
		if l[i].v != l[j].v {
			return l[i].v > l[j].v
		}
		return l[i].k < l[j].k
	})
	out := map[string]int64{}
	for i, e := range l {
		if i >= n {
			break
		}
		out[e.k] = e.v
	}
	return out
}

func readProgress(path string) (idx int64, ts int64, desc string, ok bool) {
	b, err := os.ReadFile(path)
	if err != nil || len(b) == 0 {
		return
	}
	if i := bytes.IndexByte(b, '\n'); i >= 0 {
		b = b[:i]
	}
	parts := strings.SplitN(string(b), "\t", 3)
	if len(parts) != 3 {
		return
	}
	idx, _ = strconv.ParseInt(parts[0], 10, 64)
	ts, _ = strconv.ParseInt(parts[1], 10, 64)
	return idx, ts, parts[2], true
}

func lastLines(s string, n int) string {
	l := strings.Split(strings.TrimSpace(s), "\n")
	if len(l) > n {
		l = l[len(l)-n:]
	}
	return strings.Join(l, " | ")
}

type tailWriter struct {
	mu  sync.Mutex
	buf *bytes.Buffer
	max int
}

func (t *tailWriter) Write(p []byte) (int, error) {
	t.mu.Lock()
	defer t.mu.Unlock()
	// keep the head (fatal error header is at the start) up to max
	if t.buf.Len() < t.max {
		room := t.max - t.buf.Len()
		if len(p) <= room {
			t.buf.Write(p)
		} else {
			t.buf.Write(p[:room])
		}
	}
	return len(p), nil
}
